package main

import (
	"fmt"
	"os"
	"testing"
	"time"
)

func TestC03Dbg(t *testing.T) {
	U = newUniverse()
	P, err := loadProgram("/repo")
	if err != nil {
		t.Fatal(err)
	}
	c := newChecker(P, "C03", "quick", "/verif")
	ops := afOps(false)
	want := os.Getenv("C03OP")
	var s afShape
	fmt.Sscanf(os.Getenv("C03SHAPE"), "%d,%d,%d,%d", &s.L, &s.P, &s.n, &s.m)
	for _, op := range ops {
		if op.anchor+op.what != want {
			continue
		}
		t0 := time.Now()
		ok, d := c.checkAFStep(op, s)
		t.Logf("%s %s %s: ok=%v %s (%v)", op.anchor, op.what, s, ok, d, time.Since(t0))
	}
}
