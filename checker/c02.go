package main

import (
	"fmt"
	"os"
	"sort"
	"strings"
)

// C02: header/payload partition, SetPayload, SetAdaptationFieldControl and
// the creation helpers, decided by abstract interpretation on packets whose
// adaptation_field_control bits and adaptation-field layout are constants
// (everything else symbolic), compared with the capacity formula of the
// statement and the reference serialiser of c03.go.

// seedHeader fixes the two adaptation_field_control bits of parameter pi.
func seedAFC(afc int, pi int) func(in *Interp, st *State, ps []Val) {
	return func(in *Interp, st *State, ps []Val) {
		o := ps[pi].(*Ptr).Obj
		o.NonNil = true // every analysed function reads p[3] before anything else
		b3 := cellBV(o.Name, 3)
		b3 = &BV{W: 8, Bits: append([]Bit(nil), b3.Bits...)}
		b3.Bits[5] = bconst(afc&2 != 0)
		b3.Bits[4] = bconst(afc&1 != 0)
		in.setCell(st, o, "3", b3)
	}
}

func deepSetup(in *Interp) { in.MaxDepth = 16; in.MaxSteps = 4000000 }

// windowOf: v is a slice over object o with constant bounds.
func windowOf(v Val, o *Obj) (lo, n int, ok bool, why string) {
	sv, isS := v.(*SliceV)
	if !isS {
		return 0, 0, false, "result is " + showVal(v)
	}
	l, ok1 := sv.Lo.ConstInt()
	k, ok2 := sv.Len.ConstInt()
	if !ok1 || !ok2 {
		return 0, 0, false, "window is not constant: " + showVal(v)
	}
	if sv.Obj != o {
		return int(l), int(k), false, "result does not alias the packet"
	}
	return int(l), int(k), true, ""
}

func (c *Checker) runPartition() {
	type acc struct {
		anchor string
		kind   string // header | alias | copy
	}
	accs := []acc{{"packet:Header", "header"}, {"packet:Payload", "alias"}, {"packet:(*Packet).Payload", "copy"}}
	total := 0
	for _, a := range accs {
		fn, err := c.P.Func(a.anchor)
		if err != nil {
			c.undecided("C02.partition", a.anchor, "anchor", err.Error())
			continue
		}
		c.analysed[fn.String()] = true
		agg := &stepAgg{}
		for afc := 1; afc <= 3; afc++ {
			for L := 0; L <= 183; L++ {
				if afc == 1 && L > 0 {
					break
				}
				afc, L := afc, L
				pre := func(in *Interp, st *State, ps []Val) {
					seedAFC(afc, 0)(in, st, ps)
					if afc != 1 {
						in.setCell(st, ps[0].(*Ptr).Obj, "4", constByte(L))
					}
				}
				sum := Analyze(c.P, fn, &AnalyzeOpts{Pre: pre, Setup: deepSetup})
				agg.n++
				total++
				start := 4
				if afc&2 != 0 {
					start = 5 + L
				}
				fail := func(d string) {
					agg.bad++
					if agg.first == "" {
						agg.first = fmt.Sprintf("adaptation_field_control=%d adaptation_field_length=%d: %s", afc, L, d)
					}
				}
				if sum.Failed != "" {
					fail("analysis: " + sum.Failed)
					continue
				}
				o := paramObj(sum, 0)
				if w := sum.WrittenCells(); len(w) > 0 {
					fail("writes " + strings.Join(w, ","))
					continue
				}
				switch a.kind {
				case "header":
					lo, n, ok, why := windowOf(sum.RetN(0), o)
					if !ok {
						fail(why)
					} else if lo != 0 || n != start {
						fail(fmt.Sprintf("returns packet[%d:%d], the header is packet[0:%d]", lo, lo+n, start))
					}
				case "alias", "copy":
					okBit := sum.in.nilBit(sum.RetN(1))
					if eq, dec, det := equivBits(okBit, bconst(afc&1 != 0), 16); !eq || !dec {
						fail("error result does not follow the payload flag: " + det)
						continue
					}
					if afc&1 == 0 {
						continue
					}
					if a.kind == "alias" {
						lo, n, ok, why := windowOf(sum.RetN(0), o)
						if !ok {
							fail(why)
						} else if lo != start || n != 188-start {
							fail(fmt.Sprintf("returns packet[%d:%d], the payload is packet[%d:188]", lo, lo+n, start))
						}
						continue
					}
					sv, isS := sum.RetN(0).(*SliceV)
					if !isS {
						fail("result is " + showVal(sum.RetN(0)))
						continue
					}
					if sv.Obj == o || !sum.Out.born[sv.Obj] {
						fail("the method form does not return fresh memory")
						continue
					}
					lo, ok1 := sv.Lo.ConstInt()
					n, ok2 := sv.Len.ConstInt()
					if !ok1 || !ok2 || int(n) != 188-start {
						fail(fmt.Sprintf("copy has length %s, the payload has %d bytes", showVal(sv.Len), 188-start))
						continue
					}
					for i := 0; i < int(n); i++ {
						got, _ := sum.in.loadPath(sum.Out, sv.Obj, joinPath(sv.Prefix, int(lo)+i), byteT).(*BV)
						if got == nil || !sameBV(got, cellBV(o.Name, start+i)) {
							fail(fmt.Sprintf("copy byte %d is not packet byte %d", i, start+i))
							break
						}
					}
				}
			}
		}
		what := map[string]string{"header": "returns packet[0:payload start] for every adaptation_field_control and adaptation_field_length",
			"alias": "returns packet[payload start:188] (aliasing the packet), an error without the payload flag",
			"copy":  "returns a fresh copy of packet[payload start:188], an error without the payload flag"}[a.kind]
		c.check("C02.partition", a.anchor, what, agg.bad == 0, fmt.Sprintf("%d of %d cases fail; first: %s", agg.bad, agg.n, agg.first))
	}
	c.floorCheck("C02.partition analyses (3 accessors x 369 header/length cases)", total, 3*369)
}

// spCase is one SetPayload scenario.
type spCase struct {
	afc   int     // 1 payload only, 3 both
	shape afShape // for afc 3 (L may be 0: then P/n/m are unused)
	n     int     // len(data)
}

func (k spCase) String() string {
	if k.afc == 1 {
		return fmt.Sprintf("payload-only packet, %d data bytes", k.n)
	}
	return fmt.Sprintf("adaptation field %s + payload, %d data bytes", k.shape, k.n)
}

func (c *Checker) checkSetPayload(k spCase) (bool, string) {
	fn, err := c.P.Func("packet:(*Packet).SetPayload")
	if err != nil {
		return false, err.Error()
	}
	c.analysed[fn.String()] = true
	pre := func(in *Interp, st *State, ps []Val) {
		if k.afc == 3 && k.shape.L > 0 {
			seedAF(k.shape, 0)(in, st, ps)
		}
		seedAFC(k.afc, 0)(in, st, ps)
		if k.afc == 3 && k.shape.L == 0 {
			in.setCell(st, ps[0].(*Ptr).Obj, "4", constByte(0))
		}
	}
	sum := Analyze(c.P, fn, &AnalyzeOpts{Pre: pre, SliceLen: map[string]int{"data": k.n}, Setup: deepSetup})
	if os.Getenv("C02DUMP") != "" {
		fmt.Fprintln(os.Stderr, sum.Dump())
	}
	if sum.Failed != "" {
		return false, "analysis: " + sum.Failed
	}
	o := paramObj(sum, 0)
	if sum.Out.havoc[o] > 0 {
		return false, "store through a non-constant index"
	}
	if eq, dec, det := equivBits(sum.in.nilBit(sum.RetN(1)), U.B1, 16); !eq || !dec {
		return false, "an error is returned for a packet that carries payload: " + det
	}
	// expected packet
	used := 4 // header + non-stuffing adaptation field content
	var m *afModel
	if k.afc == 3 {
		used = 5
		if k.shape.L > 0 {
			used = 5 + k.shape.content()
			m = modelOf(o.Name, k.shape)
		}
	}
	capacity := 188 - used
	stored := k.n
	if stored > capacity {
		stored = capacity
	}
	cnt, _ := sum.RetN(0).(*BV)
	if cnt == nil {
		return false, "count is " + showVal(sum.RetN(0))
	}
	if v, ok := cnt.ConstInt(); !ok || int(v) != stored {
		return false, fmt.Sprintf("reports %s bytes stored, min(n, capacity) = %d", showVal(cnt), stored)
	}
	want := make([]*BV, 188)
	for i := 0; i < 188; i++ {
		want[i], _ = sum.in.loadPath(sum.Init, o, fmt.Sprint(i), byteT).(*BV)
	}
	start := 188 - stored
	needAF := k.afc == 3 || start > 4
	if needAF {
		b3 := &BV{W: 8, Bits: append([]Bit(nil), want[3].Bits...)}
		b3.Bits[5], b3.Bits[4] = U.B1, U.B1
		want[3] = b3
		L := start - 5
		want[4] = constByte(L)
		if L > 0 {
			if m == nil {
				m = &afModel{top: [3]Bit{U.B0, U.B0, U.B0}} // a new field has no flags set
			}
			m.L = L
			ser, ok := m.serialize()
			if !ok {
				return false, "internal: content does not fit"
			}
			copy(want[5:], ser)
		}
	}
	for j := 0; j < stored; j++ {
		want[start+j] = cellBV("data", j)
	}
	for i := 0; i < 188; i++ {
		got, _ := sum.Cell(o, fmt.Sprint(i), byteT).(*BV)
		if got == nil || want[i] == nil {
			return false, fmt.Sprintf("cell %d unreadable", i)
		}
		if ok, d := matchBits(got, want[i].Bits); !ok {
			part := "payload"
			switch {
			case i < 4:
				part = "header"
			case i < start && i == 4:
				part = "adaptation_field_length"
			case i < start && i < used:
				part = "adaptation field content"
			case i < start:
				part = "stuffing"
			}
			return false, fmt.Sprintf("byte %d (%s): %s", i, part, d)
		}
	}
	// the data is only read
	if d := paramObj(sum, 1); d != nil {
		for _, w := range sum.WrittenCells() {
			if strings.HasPrefix(w, d.Name+"[") {
				return false, "writes the caller's data: " + w
			}
		}
	}
	return true, ""
}

func spCases(thorough bool) []spCase {
	var out []spCase
	for _, n := range []int{0, 1, 2, 100, 182, 183, 184, 185, 200} {
		out = append(out, spCase{afc: 1, n: n})
	}
	shapes := afShapes(thorough)
	shapes = append(shapes, afShape{L: 0})
	for i, s := range shapes {
		if s.L == 183 {
			continue // no room for payload: not a packet that carries one
		}
		if !thorough && i%3 != 0 && s.L != 0 && s.n < 50 && s.m < 50 {
			continue
		}
		capacity := 188 - 5
		if s.L > 0 {
			capacity = 188 - 5 - s.content()
		}
		seen := map[int]bool{}
		for _, n := range []int{0, 1, capacity - 1, capacity, capacity + 1, 200} {
			if n < 0 || n > 200 || seen[n] {
				continue
			}
			seen[n] = true
			out = append(out, spCase{afc: 3, shape: s, n: n})
		}
	}
	return out
}

func (c *Checker) runSetPayload(thorough bool) {
	groups := map[string]*stepAgg{}
	names := []string{}
	cases := spCases(thorough)
	for _, k := range cases {
		g := "payload-only packet"
		if k.afc == 3 {
			g = "packet with adaptation field and payload"
			if k.shape.L == 0 {
				g = "packet with a zero-length adaptation field"
			}
		}
		switch {
		case k.n == 0:
			g += ", empty data"
		case k.afc == 1 && k.n >= 184 || k.afc == 3 && k.n >= 183-b2i(k.shape.L > 0)*k.shape.content():
			g += ", data fills or exceeds the capacity"
		default:
			g += ", data shorter than the capacity"
		}
		a := groups[g]
		if a == nil {
			a = &stepAgg{}
			groups[g] = a
			names = append(names, g)
		}
		ok, d := c.checkSetPayload(k)
		a.n++
		if !ok {
			a.bad++
			if a.first == "" {
				a.first = k.String() + ": " + d
			}
		}
	}
	sort.Strings(names)
	for _, g := range names {
		a := groups[g]
		c.check("C02.setpayload", "packet:(*Packet).SetPayload", g+": stores min(n, capacity) bytes and reports that count; header, adaptation-field content preserved; gap stuffed with 0xFF",
			a.bad == 0, fmt.Sprintf("%d of %d cases fail; first: %s", a.bad, a.n, a.first))
	}
	c.floorCheck("C02.setpayload analyses", len(cases), 400)
	c.extra["setpayload_cases"] = len(cases)

	// adaptation-field-only packet: refused, untouched
	fn, err := c.P.Func("packet:(*Packet).SetPayload")
	if err == nil {
		bad := ""
		for _, n := range []int{0, 1, 184} {
			pre := func(in *Interp, st *State, ps []Val) {
				seedAFC(2, 0)(in, st, ps)
			}
			sum := Analyze(c.P, fn, &AnalyzeOpts{Pre: pre, SliceLen: map[string]int{"data": n}, Setup: deepSetup})
			if sum.Failed != "" {
				bad = sum.Failed
				break
			}
			if eq, dec, _ := equivBits(sum.in.nilBit(sum.RetN(1)), U.B0, 16); !eq || !dec {
				bad = fmt.Sprintf("%d data bytes: no error", n)
			}
			if w := sum.WrittenCells(); len(w) > 0 {
				bad = fmt.Sprintf("%d data bytes: writes %s", n, strings.Join(w, ","))
			}
			if v, ok := sum.RetN(0).(*BV); !ok || !sameBV(v, constInt(0, 64, true)) {
				bad = fmt.Sprintf("%d data bytes: count is %s", n, showVal(sum.RetN(0)))
			}
		}
		c.check("C02.setpayload", "packet:(*Packet).SetPayload", "adaptation-field-only packet (any length, any content): error, count 0, packet untouched", bad == "", bad)
	}
}

// ------------------------------------------------------------ creation helpers

// expectCells compares the 188 cells of a returned packet object with want
// (nil entries: zero byte).
func (c *Checker) packetCells(sum *Summary, v Val, want map[int]*BV) (bool, string) {
	p, ok := v.(*Ptr)
	if !ok {
		return false, "result is " + showVal(v)
	}
	if sum.Out.havoc[p.Obj] > 0 {
		return false, "store through a non-constant index"
	}
	for i := 0; i < 188; i++ {
		got, _ := sum.in.loadPath(sum.Out, p.Obj, joinPath(p.Path, i), byteT).(*BV)
		exp := want[i]
		if exp == nil {
			exp = constByte(0)
		}
		if got == nil {
			return false, fmt.Sprintf("byte %d unreadable", i)
		}
		if ok, d := matchBits(got, exp.Bits); !ok {
			return false, fmt.Sprintf("byte %d: %s", i, d)
		}
	}
	return true, ""
}

func headerCells(pusi bool, afcPay bool, extra5 int) map[int]*BV {
	pid := uintArg("pid", 64, 64, true)
	cc := uintArg("cc", 4, 8, false)
	b1 := &BV{W: 8, Bits: []Bit{pid.Bits[8], pid.Bits[9], pid.Bits[10], pid.Bits[11], pid.Bits[12], U.B0, bconst(pusi), U.B0}}
	b2 := &BV{W: 8, Bits: append([]Bit(nil), pid.Bits[:8]...)}
	b3 := &BV{W: 8, Bits: []Bit{cc.Bits[0], cc.Bits[1], cc.Bits[2], cc.Bits[3], bconst(afcPay), U.B0, U.B0, U.B0}}
	return map[int]*BV{0: constByte(0x47), 1: b1, 2: b2, 3: b3, 5: constByte(extra5)}
}

func (c *Checker) runCreate() {
	sess := NewSession(c.P, "packet")
	args := func() map[string]Val {
		return map[string]Val{"pid": uintArg("pid", 64, 64, true), "cc": uintArg("cc", 4, 8, false)}
	}
	// CreateTestPacket: four flag combinations
	if fn, err := c.P.Func("packet:CreateTestPacket"); err != nil {
		c.undecided("C02.create", "packet:CreateTestPacket", "anchor", err.Error())
	} else {
		c.analysed[fn.String()] = true
		for _, pusi := range []bool{false, true} {
			for _, pay := range []bool{false, true} {
				a := args()
				a["pusi"], a["hasPay"] = boolConst(pusi), boolConst(pay)
				sum := Analyze(c.P, fn, &AnalyzeOpts{Sess: sess, Args: a, Setup: deepSetup})
				ok, d := sum.Failed == "", sum.Failed
				if ok {
					// the helper only sets PUSI together with the payload flag
					ok, d = c.packetCells(sum, sum.RetN(0), headerCells(pusi && pay, pay, 0x7f))
				}
				c.check("C02.create", "packet:CreateTestPacket", fmt.Sprintf("pusi=%v hasPay=%v: sync byte, 13-bit PID, counter and flags as requested, everything else zero", pusi, pay), ok, d)
			}
		}
	}
	if fn, err := c.P.Func("packet:CreateDCPacket"); err != nil {
		c.undecided("C02.create", "packet:CreateDCPacket", "anchor", err.Error())
	} else {
		c.analysed[fn.String()] = true
		sum := Analyze(c.P, fn, &AnalyzeOpts{Sess: sess, Args: args(), Setup: deepSetup})
		ok, d := sum.Failed == "", sum.Failed
		if ok {
			ok, d = c.packetCells(sum, sum.RetN(0), headerCells(false, true, 0x80))
		}
		c.check("C02.create", "packet:CreateDCPacket", "sync byte, PID, counter, payload flag, discontinuity bit; everything else zero", ok, d)
	}
	if fn, err := c.P.Func("packet:CreatePacketWithPayload"); err != nil {
		c.undecided("C02.create", "packet:CreatePacketWithPayload", "anchor", err.Error())
	} else {
		c.analysed[fn.String()] = true
		agg := &stepAgg{}
		for _, n := range []int{0, 1, 2, 3, 100, 183, 184, 185, 200} {
			sum := Analyze(c.P, fn, &AnalyzeOpts{Sess: sess, Args: args(), SliceLen: map[string]int{"pay": n}, Setup: deepSetup})
			ok, d := sum.Failed == "", sum.Failed
			if ok {
				want := headerCells(false, true, 0x7f)
				for j := 0; j < n && j < 184; j++ {
					want[4+j] = cellBV("pay", j)
				}
				ok, d = c.packetCells(sum, sum.RetN(0), want)
			}
			agg.n++
			if !ok {
				agg.bad++
				if agg.first == "" {
					agg.first = fmt.Sprintf("%d payload bytes: %s", n, d)
				}
			}
		}
		c.check("C02.create", "packet:CreatePacketWithPayload", "sync byte, PID, counter, payload flag; bytes 4.. hold the first min(n,184) payload bytes", agg.bad == 0, fmt.Sprintf("%d of %d lengths fail; first: %s", agg.bad, agg.n, agg.first))
	}
	// free SetPayload: writes pay[j] at payloadStart+j, returns the count
	if fn, err := c.P.Func("packet:SetPayload"); err != nil {
		c.undecided("C02.create", "packet:SetPayload", "anchor", err.Error())
	} else {
		c.analysed[fn.String()] = true
		agg := &stepAgg{}
		for _, hdr := range []struct{ afc, L int }{{1, 0}, {3, 0}, {3, 1}, {3, 100}, {3, 182}, {3, 183}, {2, 183}} {
			for _, n := range []int{0, 1, 5, 184, 200} {
				hdr, n := hdr, n
				pre := func(in *Interp, st *State, ps []Val) {
					seedAFC(hdr.afc, 0)(in, st, ps)
					in.setCell(st, ps[0].(*Ptr).Obj, "4", constByte(hdr.L))
				}
				if hdr.afc == 1 {
					pre = seedAFC(1, 0)
				}
				sum := Analyze(c.P, fn, &AnalyzeOpts{Sess: sess, Pre: pre, SliceLen: map[string]int{"pay": n}, Setup: deepSetup})
				agg.n++
				fail := func(d string) {
					agg.bad++
					if agg.first == "" {
						agg.first = fmt.Sprintf("adaptation_field_control=%d length=%d, %d bytes: %s", hdr.afc, hdr.L, n, d)
					}
				}
				if sum.Failed != "" {
					fail(sum.Failed)
					continue
				}
				start := 4
				if hdr.afc&2 != 0 {
					start = 5 + hdr.L
				}
				k := n
				if k > 188-start {
					k = 188 - start
				}
				if v, ok := sum.RetN(0).(*BV); !ok || !sameBV(v, constInt(int64(k), 64, true)) {
					fail(fmt.Sprintf("returns %s, %d bytes fit", showVal(sum.RetN(0)), k))
					continue
				}
				o := paramObj(sum, 0)
				for i := 0; i < 188; i++ {
					got, _ := sum.Cell(o, fmt.Sprint(i), byteT).(*BV)
					exp, _ := sum.in.loadPath(sum.Init, o, fmt.Sprint(i), byteT).(*BV)
					if i >= start && i < start+k {
						exp = cellBV("pay", i-start)
					}
					if got == nil || exp == nil || !sameBV(got, exp) {
						fail(fmt.Sprintf("byte %d", i))
						break
					}
				}
			}
		}
		c.check("C02.create", "packet:SetPayload", "copies the first min(n, 188 − payload start) bytes to the payload start, returns that count, touches nothing else", agg.bad == 0, fmt.Sprintf("%d of %d cases fail; first: %s", agg.bad, agg.n, agg.first))
	}
}

// ------------------------------------------------- SetAdaptationFieldControl

func (c *Checker) runAFControl(thorough bool) {
	fn, err := c.P.Func("packet:(*Packet).SetAdaptationFieldControl")
	if err != nil {
		c.undecided("C02.afcontrol", "packet:(*Packet).SetAdaptationFieldControl", "anchor", err.Error())
		return
	}
	c.analysed[fn.String()] = true
	type from struct {
		afc   int
		shape *afShape
	}
	froms := []from{{afc: 1}}
	for i, s := range afShapes(thorough) {
		if i%7 != 0 && s.L < 182 {
			continue
		}
		s := s
		if s.L <= 182 {
			froms = append(froms, from{3, &s})
		}
		if s.L == 183 {
			froms = append(froms, from{2, &s})
		}
	}
	agg := map[int]*stepAgg{1: {}, 2: {}, 3: {}}
	for _, f := range froms {
		for v := 1; v <= 3; v++ {
			f, v := f, v
			pre := func(in *Interp, st *State, ps []Val) {
				if f.shape != nil {
					seedAF(*f.shape, 0)(in, st, ps)
				}
				seedAFC(f.afc, 0)(in, st, ps)
			}
			sum := Analyze(c.P, fn, &AnalyzeOpts{Pre: pre, Args: map[string]Val{"value": constInt(int64(v), 8, false)}, Setup: deepSetup})
			a := agg[v]
			a.n++
			fail := func(d string) {
				a.bad++
				if a.first == "" {
					desc := "payload-only packet"
					if f.shape != nil {
						desc = fmt.Sprintf("adaptation_field_control=%d, field %s", f.afc, *f.shape)
					}
					a.first = desc + ": " + d
				}
			}
			if sum.Failed != "" {
				fail("analysis: " + sum.Failed)
				continue
			}
			o := paramObj(sum, 0)
			if sum.Out.havoc[o] > 0 {
				fail("store through a non-constant index")
				continue
			}
			want := make([]*BV, 188)
			for i := range want {
				want[i], _ = sum.in.loadPath(sum.Init, o, fmt.Sprint(i), byteT).(*BV)
			}
			b3 := &BV{W: 8, Bits: append([]Bit(nil), want[3].Bits...)}
			b3.Bits[5], b3.Bits[4] = bconst(v&2 != 0), bconst(v&1 != 0)
			want[3] = b3
			wantErr := false
			var m *afModel
			L := 0
			if f.shape != nil {
				m, L = modelOf(o.Name, *f.shape), f.shape.L
			} else if v&2 != 0 {
				// a field is created: 183 bytes, no flags
				m, L = &afModel{top: [3]Bit{U.B0, U.B0, U.B0}}, 183
			}
			if v == 3 && m != nil && L == 183 {
				// payload needs room: the field gives up its last byte
				if f.shape != nil && f.shape.content() == 183 {
					wantErr = true
				} else {
					L = 182
				}
			}
			if m != nil && !wantErr {
				m.L = L
				ser, ok := m.serialize()
				if !ok {
					fail("internal: content does not fit")
					continue
				}
				want[4] = constByte(L)
				copy(want[5:], ser)
				if L == 182 {
					want[187] = nil // the byte handed to the payload: any value
				}
			}
			if eq, dec, det := equivBits(sum.in.nilBit(sum.RetN(0)), bconst(!wantErr), 16); !eq || !dec {
				fail("error result: " + det)
				continue
			}
			if wantErr {
				continue
			}
			for i := 0; i < 188; i++ {
				if want[i] == nil {
					continue
				}
				got, _ := sum.Cell(o, fmt.Sprint(i), byteT).(*BV)
				if got == nil {
					fail(fmt.Sprintf("byte %d unreadable", i))
					break
				}
				if ok, d := matchBits(got, want[i].Bits); !ok {
					fail(fmt.Sprintf("byte %d: %s", i, d))
					break
				}
			}
		}
	}
	names := map[int]string{1: "PayloadFlag", 2: "AdaptationFieldFlag", 3: "PayloadAndAdaptationFieldFlag"}
	for v := 1; v <= 3; v++ {
		a := agg[v]
		c.check("C02.afcontrol", "packet:(*Packet).SetAdaptationFieldControl", names[v]+": control bits set; a new field is 183 bytes of stuffing without flags; an existing field keeps its content; a 183-byte field shrinks to 182 when payload is added",
			a.bad == 0, fmt.Sprintf("%d of %d start states fail; first: %s", a.bad, a.n, a.first))
	}
	c.floorCheck("C02.afcontrol analyses", agg[1].n+agg[2].n+agg[3].n, 150)
}

func runC02(c *Checker) {
	c.Level = "other"
	c.explain = "Abstract interpretation (SSA, bit-provenance domain) of Header, both Payload accessors, (*Packet).SetPayload, SetAdaptationFieldControl and the creation helpers on packets whose adaptation_field_control bits, adaptation_field_length and adaptation-field layout are constants while every other bit is symbolic. Partition: all 369 combinations of control bits and length 0..183. SetPayload: payload-only packets, a family of adaptation-field layouts (c03.go) including the zero-length field, and data lengths around the capacity 188 − 4 − non-stuffing field content; the count, all 188 bytes (header, preserved field content, 0xFF stuffing, payload = the data prefix) and the refusal on field-only packets are compared with the statement's formula and the reference serialiser."
	c.trust("go/ssa + go/types (x/tools v0.29.0)", "E1 abstract interpreter", "reference serialiser in c03.go")
	thorough := c.Tier == "thorough"
	c.runPartition()
	c.runSetPayload(thorough)
	c.runCreate()
	c.runAFControl(thorough)
}
