package main

import (
	"fmt"
	"go/constant"
	"go/token"
	"go/types"
	"math/big"
	"strings"

	"golang.org/x/tools/go/ssa"
)

func (f *frame) val(v ssa.Value) Val {
	switch x := v.(type) {
	case *ssa.Const:
		return f.in.constVal(x)
	case *ssa.Global:
		return &Ptr{Obj: f.in.globalObj(x), T: x.Type().(*types.Pointer).Elem()}
	case *ssa.Function:
		return &FuncV{Fn: x}
	case *ssa.Builtin:
		return &FuncV{Fn: x}
	}
	if r, ok := f.env[v]; ok {
		if f.cur != nil {
			if rf := f.refs[f.cur.Index]; len(rf) > 0 {
				r = refineVal(r, rf)
			}
			if fs := f.facts[f.cur.Index]; fs != nil {
				r = fs.val(r)
			}
		}
		return r
	}
	f.in.fail("internal: no value for %s (%T)", v.Name(), v)
	return &OpaqueV{Why: "missing " + v.Name(), T: v.Type()}
}

func (in *Interp) constVal(c *ssa.Const) Val {
	t := c.Type()
	if c.Value == nil {
		if isAggregate(t) {
			return zeroVal(t)
		}
		if _, _, ok := intWidth(t); ok {
			return zeroVal(t)
		}
		if b, ok := t.Underlying().(*types.Basic); ok && b.Info()&types.IsString != 0 {
			return zeroVal(t)
		}
		return NilV{}
	}
	if w, sg, ok := intWidth(t); ok {
		if c.Value.Kind() == constant.Bool {
			if constant.BoolVal(c.Value) {
				return constInt(1, 1, false)
			}
			return constInt(0, 1, false)
		}
		iv := constant.ToInt(c.Value)
		bi, ok := new(big.Int).SetString(iv.ExactString(), 10)
		if !ok {
			in.fail("bad integer constant %s", c)
			return topBV(w, sg)
		}
		return constBV(bi, w, sg)
	}
	if c.Value.Kind() == constant.String {
		s := constant.StringVal(c.Value)
		return &StrV{Const: &s}
	}
	return &OpaqueV{Why: "const " + c.String(), T: t}
}

func (in *Interp) globalObj(g *ssa.Global) *Obj {
	if o, ok := in.globals[g]; ok {
		return o
	}
	name := g.Name()
	if g.Pkg != nil {
		name = g.Pkg.Pkg.Name() + "." + g.Name()
	}
	o := in.newObj(name, "global", g.Type().(*types.Pointer).Elem(), true)
	in.globals[g] = o
	return o
}

func (f *frame) execBlock(b *ssa.BasicBlock, st *State) {
	in := f.in
	f.cur = b
	in.condStk = append(in.condStk, f.chain(b, f.fn.Blocks[0]))
	defer func() { in.condStk = in.condStk[:len(in.condStk)-1] }()
	for _, ins := range b.Instrs {
		if in.Fail != "" {
			return
		}
		in.steps++
		if in.steps > in.MaxSteps {
			in.fail("step bound exceeded")
			return
		}
		if p := ins.Pos(); p.IsValid() {
			in.curPos = p
		}
		in.curFn = f.fn
		switch x := ins.(type) {
		case *ssa.Phi:
			// assigned in joinAt
			if _, ok := f.env[x]; !ok {
				in.fail("internal: phi %s unassigned", x.Name())
			}
		case *ssa.DebugRef:
		case *ssa.If:
			c := f.val(x.Cond)
			cb, ok := c.(*BV)
			if !ok || cb.W != 1 {
				in.fail("non-boolean branch condition")
				return
			}
			f.bc[edgeKey{b.Index, b.Succs[0].Index}] = cb.Bits[0]
			f.bc[edgeKey{b.Index, b.Succs[1].Index}] = bnot(cb.Bits[0])
			if b.Succs[0] == b.Succs[1] {
				f.bc[edgeKey{b.Index, b.Succs[0].Index}] = U.B1
			}
		case *ssa.Jump:
			f.bc[edgeKey{b.Index, b.Succs[0].Index}] = U.B1
		case *ssa.Return:
			vals := make([]Val, len(x.Results))
			for i, r := range x.Results {
				vals[i] = f.val(r)
			}
			f.rets = append(f.rets, retArrival{blk: b, vals: vals, st: st, w: f.chain(b, f.fn.Blocks[0])})
		case *ssa.Panic:
			in.event(Event{Kind: "panic", Val: f.val(x.X)})
			f.panicIf = bor(f.panicIf, in.curCond())
		case *ssa.RunDefers:
		case *ssa.Store:
			a := f.val(x.Addr)
			v := f.val(x.Val)
			in.storeVia(st, a, v)
		case *ssa.MapUpdate:
			in.mapUpdate(st, f.val(x.Map), f.val(x.Key), f.val(x.Value))
		case *ssa.Defer, *ssa.Go, *ssa.Send, *ssa.Select:
			in.fail("unsupported instruction %T", ins)
			return
		case ssa.Value:
			v := f.evalValue(x, st)
			if v != nil {
				f.env[x] = v
			}
		default:
			in.fail("unsupported instruction %T", ins)
			return
		}
	}
	f.out[b.Index] = st
}

// storeVia stores through a (possibly conditional) pointer.
func (in *Interp) storeVia(st *State, a Val, v Val) {
	switch p := a.(type) {
	case *Ptr:
		in.store(st, p, v)
	case *MuxV:
		// conditional pointer: write both sides conditionally
		in.storeCond(st, p.C, p.T, v)
		in.storeCond(st, bnot(p.C), p.F, v)
	case NilV:
		in.event(Event{Kind: "panic", Note: "nil dereference"})
	default:
		in.fail("store through unsupported address %T", a)
	}
}

func (in *Interp) storeCond(st *State, c Bit, a Val, v Val) {
	if isConst(c) && !c.c {
		return
	}
	switch p := a.(type) {
	case *Ptr:
		if p.Dyn != nil {
			in.store(st, p, v)
			return
		}
		old := in.load(st, p)
		in.store(st, p, in.muxVal(c, v, old))
	case *MuxV:
		in.storeCond(st, band(c, p.C), p.T, v)
		in.storeCond(st, band(c, bnot(p.C)), p.F, v)
	case NilV:
	default:
		in.fail("conditional store through unsupported address %T", a)
	}
}

func (in *Interp) loadVia(st *State, a Val, t types.Type) Val {
	switch p := a.(type) {
	case *Ptr:
		return in.load(st, p)
	case *MuxV:
		return in.muxVal(p.C, in.loadVia(st, p.T, t), in.loadVia(st, p.F, t))
	case NilV:
		in.event(Event{Kind: "panic", Note: "nil dereference"})
		return in.freshOf(t, "nilderef")
	case *OpaqueV:
		in.epoch++
		return in.freshOf(t, fmt.Sprintf("load(%s)@%d", p.Why, in.epoch))
	}
	in.fail("load through unsupported address %T", a)
	return in.freshOf(t, "badload")
}

func asBV(v Val) (*BV, bool) {
	b, ok := v.(*BV)
	return b, ok
}

func (f *frame) evalValue(x ssa.Value, st *State) Val {
	in := f.in
	switch x := x.(type) {
	case *ssa.Alloc:
		t := x.Type().(*types.Pointer).Elem()
		name := x.Comment
		if name == "" {
			name = "alloc"
		}
		o := in.newObj(fmt.Sprintf("%s#%d", name, in.nobj+1), "alloc", t, false)
		st.born[o] = true
		return &Ptr{Obj: o, T: t}
	case *ssa.BinOp:
		return in.binop(x.Op, f.val(x.X), f.val(x.Y), x.Type(), x.X.Type())
	case *ssa.UnOp:
		a := f.val(x.X)
		switch x.Op {
		case token.MUL:
			lv := in.loadVia(st, a, x.Type())
			if fs := f.facts[f.cur.Index]; fs != nil {
				lv = fs.val(lv)
			}
			return lv
		case token.NOT, token.XOR:
			if b, ok := asBV(a); ok {
				return bvNot(b)
			}
		case token.SUB:
			if b, ok := asBV(a); ok {
				return bvAdd(constInt(0, b.W, b.Signed), b, true)
			}
		}
		if m, ok := a.(*MuxV); ok && x.Op == token.NOT {
			_ = m
		}
		return in.opaque(x.Type(), "unop "+x.Op.String())
	case *ssa.Call:
		return f.call(x, st)
	case *ssa.ChangeType:
		return f.val(x.X)
	case *ssa.ChangeInterface:
		return f.val(x.X)
	case *ssa.Convert:
		return in.convert(f.val(x.X), x.X.Type(), x.Type())
	case *ssa.MultiConvert:
		return in.convert(f.val(x.X), x.X.Type(), x.Type())
	case *ssa.Extract:
		t := f.val(x.Tuple)
		return in.extract(t, x.Index, x.Type())
	case *ssa.Field:
		return in.extract(f.val(x.X), x.Field, x.Type())
	case *ssa.FieldAddr:
		return in.fieldAddr(f.val(x.X), x.Field, x.Type().(*types.Pointer).Elem())
	case *ssa.Index:
		a := f.val(x.X)
		idx, _ := asBV(f.val(x.Index))
		if sv, ok := a.(*StructV); ok && idx != nil {
			if k, ok := idx.ConstInt(); ok && k >= 0 && int(k) < len(sv.Fields) {
				return sv.Fields[k]
			}
		}
		if s, ok := a.(*StrV); ok && s.Const != nil && idx != nil {
			if k, ok := idx.ConstInt(); ok && k >= 0 && int(k) < len(*s.Const) {
				return constInt(int64((*s.Const)[k]), 8, false)
			}
		}
		return in.opaque(x.Type(), "index")
	case *ssa.IndexAddr:
		idx, ok := asBV(f.val(x.Index))
		if !ok {
			in.fail("non-integer index")
			return nil
		}
		return in.indexAddr(f.val(x.X), idx, x.Type().(*types.Pointer).Elem())
	case *ssa.Lookup:
		f.val(x.X)
		if s, ok := f.val(x.X).(*StrV); ok && s.Const != nil {
			if idx, ok := asBV(f.val(x.Index)); ok {
				if k, ok := idx.ConstInt(); ok && k >= 0 && int(k) < len(*s.Const) {
					return constInt(int64((*s.Const)[k]), 8, false)
				}
			}
		}
		if in.MapLookup != nil {
			if v := in.MapLookup(f, x, st); v != nil {
				return v
			}
		}
		if v := in.mapLookup(st, f.val(x.X), f.val(x.Index), x); v != nil {
			return v
		}
		return in.opaqueNamed(x.Type(), "lookup", f.val(x.X), f.val(x.Index))
	case *ssa.MakeInterface:
		v := f.val(x.X)
		return &IfaceV{T: x.X.Type(), V: v}
	case *ssa.MakeSlice:
		ln, _ := asBV(f.val(x.Len))
		if ln == nil {
			in.fail("make with non-integer length")
			return nil
		}
		et := x.Type().Underlying().(*types.Slice).Elem()
		o := in.newObj(fmt.Sprintf("make#%d", in.nobj+1), "make", et, false)
		o.Seq = true
		o.Len = extendBV(ln, 64, true)
		if k, ok := ln.ConstInt(); ok {
			o.N = int(k)
		}
		st.born[o] = true
		in.event(Event{Kind: "make", Obj: o, Idx: o.Len})
		var cp *BV
		if c, ok := asBV(f.val(x.Cap)); ok {
			cp = extendBV(c, 64, true)
		}
		return &SliceV{Obj: o, Lo: constInt(0, 64, true), Len: o.Len, Cap: cp, Elem: et}
	case *ssa.MakeMap:
		mt := x.Type().Underlying().(*types.Map)
		o := in.newObj(fmt.Sprintf("map#%d", in.nobj+1), "map", mt.Elem(), false)
		st.born[o] = true
		return &MapV{Obj: o, Elem: mt.Elem()}
	case *ssa.MakeChan:
		in.fail("channels unsupported")
		return nil
	case *ssa.MakeClosure:
		fv := &FuncV{Fn: x.Fn.(*ssa.Function)}
		for _, b := range x.Bindings {
			fv.Bindings = append(fv.Bindings, f.val(b))
		}
		return fv
	case *ssa.Slice:
		return f.slice(x, st)
	case *ssa.SliceToArrayPointer:
		if s, ok := f.val(x.X).(*SliceV); ok {
			if lo, ok := s.Lo.ConstInt(); ok {
				at := x.Type().(*types.Pointer).Elem()
				return &Ptr{Obj: s.Obj, Path: s.Prefix, Base: int(lo), T: at}
			}
		}
		return in.opaque(x.Type(), "slice-to-array")
	case *ssa.TypeAssert:
		return in.typeAssert(f.val(x.X), x)
	case *ssa.Range:
		return in.rangeOf(st, f.val(x.X))
	case *ssa.Next:
		rv, ok := f.val(x.Iter).(*RangeV)
		if !ok {
			in.fail("range over string unsupported")
			return nil
		}
		tup := x.Type().(*types.Tuple)
		i := *rv.pos
		*rv.pos = i + 1
		if i < len(rv.Items) {
			it := rv.Items[i]
			return &StructV{T: tup, Fields: []Val{boolBV(it.OK), it.K, it.V}}
		}
		return &StructV{T: tup, Fields: []Val{boolBV(U.B0), zeroVal(tup.At(1).Type()), zeroVal(tup.At(2).Type())}}
	}
	in.fail("unsupported value instruction %T", x)
	return nil
}

func (in *Interp) opaque(t types.Type, why string) Val {
	in.epoch++
	return in.opaqueOf(t, fmt.Sprintf("%s@%d", why, in.epoch))
}

func (in *Interp) opaqueOf(t types.Type, name string) Val {
	if w, sg, ok := intWidth(t); ok {
		return srcBV(U.source("opaque", name, w), sg)
	}
	if tup, ok := t.(*types.Tuple); ok {
		sv := &StructV{T: t}
		for i := 0; i < tup.Len(); i++ {
			sv.Fields = append(sv.Fields, in.opaqueOf(tup.At(i).Type(), fmt.Sprintf("%s.%d", name, i)))
		}
		return sv
	}
	return &OpaqueV{Why: name, T: t}
}

// opaqueNamed builds an opaque result that is a function of its operands'
// terms (same operands → same result); used for pure operations.
func (in *Interp) opaqueNamed(t types.Type, op string, args ...Val) Val {
	name := op + "("
	for i, a := range args {
		if i > 0 {
			name += ","
		}
		name += valKey(a)
	}
	name += ")"
	return in.opaqueOf(t, name)
}

func valKey(v Val) string {
	switch x := v.(type) {
	case *BV:
		return x.Term().key
	case NilV:
		return "nil"
	case SymConst:
		return x.Name
	case *Ptr:
		s := "&" + x.Obj.Name
		if x.Path != "" {
			s += "." + x.Path
		}
		if x.Base != 0 {
			s += fmt.Sprintf("+%d", x.Base)
		}
		if x.Dyn != nil {
			s += "[" + x.Dyn.Term().key + "]"
		}
		return s
	case *SliceV:
		return fmt.Sprintf("%s%s[%s:+%s]", x.Obj.Name, x.Prefix, x.Lo.Term().key, x.Len.Term().key)
	case *StrV:
		if x.Const != nil {
			return fmt.Sprintf("%q", *x.Const)
		}
		return x.Opaque.key
	case *IfaceV:
		return "iface(" + valKey(x.V) + ")"
	case *MuxV:
		return fmt.Sprintf("mux(%s,%s,%s)", x.C, valKey(x.T), valKey(x.F))
	case *StructV:
		s := "{"
		for i, f := range x.Fields {
			if i > 0 {
				s += ","
			}
			s += valKey(f)
		}
		return s + "}"
	case *OpaqueV:
		return "?" + x.Why
	case *FuncV:
		if fn, ok := x.Fn.(*ssa.Function); ok {
			return "func:" + fn.String()
		}
		return "func"
	}
	return fmt.Sprintf("%T", v)
}

func (in *Interp) extract(t Val, i int, typ types.Type) Val {
	switch x := t.(type) {
	case *StructV:
		if i < len(x.Fields) {
			return x.Fields[i]
		}
	case *MuxV:
		return in.muxVal(x.C, in.extract(x.T, i, typ), in.extract(x.F, i, typ))
	case *OpaqueV:
		return in.opaqueOf(typ, fmt.Sprintf("%s.%d", x.Why, i))
	}
	in.fail("extract from %T", t)
	return nil
}

func (in *Interp) fieldAddr(a Val, field int, ft types.Type) Val {
	switch p := a.(type) {
	case *Ptr:
		if p.Dyn != nil {
			in.fail("field of dynamically indexed element")
			return nil
		}
		path := p.Path
		if p.Base != 0 {
			in.fail("field address with base offset")
			return nil
		}
		return &Ptr{Obj: p.Obj, Path: joinPath(path, field), T: ft}
	case *MuxV:
		return in.muxVal(p.C, in.fieldAddr(p.T, field, ft), in.fieldAddr(p.F, field, ft))
	case NilV:
		in.event(Event{Kind: "panic", Note: "nil dereference"})
		return NilV{}
	case *OpaqueV:
		return &OpaqueV{Why: fmt.Sprintf("%s.f%d", p.Why, field), T: types.NewPointer(ft)}
	}
	in.fail("field address of %T", a)
	return nil
}

func (in *Interp) indexAddr(a Val, idx *BV, et types.Type) Val {
	idx = extendBV(idx, 64, true)
	switch p := a.(type) {
	case *Ptr: // pointer to array
		if k, ok := idx.ConstInt(); ok && p.Dyn == nil {
			if at, ok := p.T.Underlying().(*types.Array); ok && p.Base == 0 {
				if k < 0 || k >= at.Len() {
					in.event(Event{Kind: "panic", Note: fmt.Sprintf("constant index %d out of range [0,%d)", k, at.Len())})
				}
			}
			return &Ptr{Obj: p.Obj, Path: joinPath(p.Path, p.Base+int(k)), T: et}
		}
		if p.Dyn != nil {
			in.fail("nested dynamic index")
			return nil
		}
		in.event(Event{Kind: "index", Obj: p.Obj, Path: p.Path, Idx: idx})
		return &Ptr{Obj: p.Obj, Path: p.Path, Dyn: idx, Base: p.Base, T: et}
	case *SliceV:
		in.event(Event{Kind: "index", Obj: p.Obj, Path: p.Prefix, Idx: idx, Args: []Val{p}})
		lo, lok := p.Lo.ConstInt()
		k, kok := idx.ConstInt()
		if lok && kok {
			return &Ptr{Obj: p.Obj, Path: joinPath(p.Prefix, int(lo+k)), T: et}
		}
		if lok {
			return &Ptr{Obj: p.Obj, Path: p.Prefix, Dyn: idx, Base: int(lo), T: et}
		}
		return &Ptr{Obj: p.Obj, Path: p.Prefix, Dyn: bvAdd(p.Lo, idx, false), T: et}
	case *MuxV:
		return in.muxVal(p.C, in.indexAddr(p.T, idx, et), in.indexAddr(p.F, idx, et))
	case NilV:
		in.event(Event{Kind: "panic", Note: "index of nil"})
		return NilV{}
	case *OpaqueV:
		return &OpaqueV{Why: p.Why + "[i]", T: types.NewPointer(et)}
	}
	in.fail("index address of %T", a)
	return nil
}

func (f *frame) slice(x *ssa.Slice, st *State) Val {
	in := f.in
	a := f.val(x.X)
	var lo, hi *BV
	if x.Low != nil {
		if b, ok := asBV(f.val(x.Low)); ok {
			lo = extendBV(b, 64, true)
		}
	}
	if x.High != nil {
		if b, ok := asBV(f.val(x.High)); ok {
			hi = extendBV(b, 64, true)
		}
	}
	return in.sliceOf(a, lo, hi, x.Type())
}

func (in *Interp) sliceOf(a Val, lo, hi *BV, rt types.Type) Val {
	if lo == nil {
		lo = constInt(0, 64, true)
	}
	switch p := a.(type) {
	case *Ptr: // *array
		at, ok := p.T.Underlying().(*types.Array)
		if !ok || p.Dyn != nil {
			in.fail("slice of non-array pointer")
			return nil
		}
		n := constInt(at.Len(), 64, true)
		if hi == nil {
			hi = n
		}
		base := constInt(int64(p.Base), 64, true)
		in.event(Event{Kind: "slice", Obj: p.Obj, Path: p.Path, Idx: lo, Args: []Val{hi, n}})
		return &SliceV{Obj: p.Obj, Prefix: p.Path, Lo: bvAdd(base, lo, false), Len: bvAdd(hi, lo, true),
			Cap: bvAdd(n, lo, true), Elem: at.Elem()}
	case *SliceV:
		if hi == nil {
			hi = p.Len
		}
		in.event(Event{Kind: "slice", Obj: p.Obj, Path: p.Prefix, Idx: lo, Args: []Val{hi, p.Len, p}})
		var cp *BV
		if p.Cap != nil {
			cp = bvAdd(p.Cap, lo, true)
		}
		return &SliceV{Obj: p.Obj, Prefix: p.Prefix, Lo: bvAdd(p.Lo, lo, false), Len: bvAdd(hi, lo, true), Cap: cp, Elem: p.Elem}
	case *StrV:
		if p.Const != nil {
			l, lok := lo.ConstInt()
			h := int64(len(*p.Const))
			hok := true
			if hi != nil {
				h, hok = hi.ConstInt()
			}
			if lok && hok && l >= 0 && h <= int64(len(*p.Const)) && l <= h {
				s := (*p.Const)[l:h]
				return &StrV{Const: &s}
			}
		}
		return in.opaque(rt, "strslice")
	case *MuxV:
		return in.muxVal(p.C, in.sliceOf(p.T, lo, hi, rt), in.sliceOf(p.F, lo, hi, rt))
	case NilV:
		return NilV{}
	case *OpaqueV:
		return &OpaqueV{Why: p.Why + "[:]", T: rt}
	}
	in.fail("slice of %T", a)
	return nil
}

func (in *Interp) typeAssert(v Val, x *ssa.TypeAssert) Val {
	res := func(val Val, ok Bit) Val {
		if x.CommaOk {
			return &StructV{Fields: []Val{val, boolBV(ok)}, T: x.Type()}
		}
		return val
	}
	switch p := v.(type) {
	case *IfaceV:
		if types.IsInterface(x.AssertedType) {
			if types.Implements(p.T, x.AssertedType.Underlying().(*types.Interface)) {
				return res(p, U.B1)
			}
			return res(NilV{}, U.B0)
		}
		if types.Identical(p.T, x.AssertedType) {
			return res(p.V, U.B1)
		}
		if !x.CommaOk {
			in.event(Event{Kind: "panic", Note: "type assertion fails"})
		}
		return res(zeroVal(x.AssertedType), U.B0)
	case *MuxV:
		return in.muxVal(p.C, in.typeAssert(p.T, x), in.typeAssert(p.F, x))
	}
	return in.opaque(x.Type(), "typeassert")
}

func (in *Interp) convert(v Val, from, to types.Type) Val {
	if b, ok := asBV(v); ok {
		if w, sg, ok := intWidth(to); ok {
			return extendBV(b, w, sg)
		}
		return in.opaqueNamed(to, "conv:"+to.String(), v)
	}
	switch v.(type) {
	case *Ptr, NilV, *SliceV:
		// pointer/slice conversions between named types keep the value;
		// string(bytes)/[]byte(string) are opaque
		if _, ok := to.Underlying().(*types.Basic); ok {
			return in.opaqueNamed(to, "conv:"+to.String(), v)
		}
		if _, ok := from.Underlying().(*types.Basic); ok {
			return in.opaque(to, "conv")
		}
		return v
	case *StrV:
		if _, ok := to.Underlying().(*types.Basic); ok {
			return v
		}
	case *MuxV:
		m := v.(*MuxV)
		return in.muxVal(m.C, in.convert(m.T, from, to), in.convert(m.F, from, to))
	}
	return in.opaque(to, "conv")
}

// nilBit is the abstract bit "v is nil".
func (in *Interp) nilBit(v Val) Bit {
	switch p := v.(type) {
	case NilV:
		return U.B1
	case *Ptr:
		if (p.Obj.Kind == "lazy" || p.Obj.Kind == "param") && !p.Obj.NonNil {
			if p.Path == "" && p.Dyn == nil {
				return U.srcBit(U.source("nil", "nil("+p.Obj.Name+")", 1), 0)
			}
		}
		return U.B0
	case *SliceV:
		if (p.Obj.Kind == "lazy" || p.Obj.Kind == "param") && p.Obj.Seq {
			if k, ok := p.Lo.ConstInt(); ok && k == 0 && sameBV(p.Len, p.Obj.Len) {
				return U.srcBit(U.source("nil", "nil("+p.Obj.Name+")", 1), 0)
			}
		}
		return U.B0
	case *IfaceV, SymConst, *FuncV, *StrV, *MapV:
		return U.B0
	case *MuxV:
		return bmux(p.C, in.nilBit(p.T), in.nilBit(p.F))
	case *OpaqueV:
		if strings.HasPrefix(p.Why, "errors.New@") || strings.HasPrefix(p.Why, "fmt.Errorf@") {
			return U.B0 // these constructors never return nil
		}
		return U.srcBit(U.source("nil", "nil("+p.Why+")", 1), 0)
	}
	return U.BTop
}

// eqBit is the abstract bit "a == b" for non-integer values.
func (in *Interp) eqBit(a, b Val) Bit {
	if _, ok := a.(NilV); ok {
		return in.nilBit(b)
	}
	if _, ok := b.(NilV); ok {
		return in.nilBit(a)
	}
	if m, ok := a.(*MuxV); ok {
		return bmux(m.C, in.eqBit(m.T, b), in.eqBit(m.F, b))
	}
	if m, ok := b.(*MuxV); ok {
		return bmux(m.C, in.eqBit(a, m.T), in.eqBit(a, m.F))
	}
	switch x := a.(type) {
	case *BV:
		if y, ok := b.(*BV); ok {
			return bvEq(x, y)
		}
	case SymConst:
		if y, ok := b.(SymConst); ok {
			return bconst(x.Name == y.Name)
		}
		return in.eqAtom(a, b)
	case *Ptr:
		y, ok := b.(*Ptr)
		if !ok {
			return U.BTop
		}
		if x.Obj == y.Obj {
			if x.Path == y.Path && x.Dyn == nil && y.Dyn == nil && x.Base == y.Base {
				return U.B1
			}
			return in.eqAtom(a, b)
		}
		inputLike := func(o *Obj) bool { return o.Kind == "lazy" || o.Kind == "param" }
		if inputLike(x.Obj) && inputLike(y.Obj) {
			return in.eqAtom(a, b) // two inputs may alias
		}
		return U.B0
	case *IfaceV:
		if y, ok := b.(*IfaceV); ok {
			if !types.Identical(x.T, y.T) {
				return U.B0
			}
			return in.eqBit(x.V, y.V)
		}
		if _, ok := b.(SymConst); ok {
			return in.eqAtom(a, b)
		}
	case *StrV:
		if y, ok := b.(*StrV); ok {
			if x.Const != nil && y.Const != nil {
				return bconst(*x.Const == *y.Const)
			}
			return in.eqAtom(a, b)
		}
	case *StructV:
		if y, ok := b.(*StructV); ok && len(x.Fields) == len(y.Fields) {
			r := U.B1
			for i := range x.Fields {
				r = band(r, in.eqBit(x.Fields[i], y.Fields[i]))
			}
			if len(x.Fields) > 8 {
				return wrapDef(r)
			}
			return r
		}
	case *OpaqueV:
		return in.eqAtom(a, b)
	}
	if _, ok := b.(*OpaqueV); ok {
		return in.eqAtom(a, b)
	}
	return U.BTop
}

func (in *Interp) eqAtom(a, b Val) Bit {
	ka, kb := valKey(a), valKey(b)
	if ka > kb {
		ka, kb = kb, ka
	}
	return U.srcBit(U.source("eq", "eq("+ka+","+kb+")", 1), 0)
}

func (in *Interp) binop(op token.Token, a, b Val, rt, ot types.Type) Val {
	x, xok := asBV(a)
	y, yok := asBV(b)
	if xok && yok {
		switch op {
		case token.SHL, token.SHR:
			if k, ok := y.ConstVal(); ok {
				n := x.W
				if k.IsInt64() && k.Int64() < int64(x.W) && k.Sign() >= 0 {
					n = int(k.Int64())
				}
				if op == token.SHL {
					return bvShl(x, n)
				}
				return bvShr(x, n)
			}
			nm := "shl"
			if op == token.SHR {
				nm = "shr"
			}
			return termBV(mkTerm(nm, x.W, x.Term(), y.Term()), x.W, x.Signed)
		}
		if x.W != y.W {
			in.fail("width mismatch in %s: %d vs %d", op, x.W, y.W)
			return nil
		}
		switch op {
		case token.AND:
			return bvBitwise("&", x, y)
		case token.OR:
			return bvBitwise("|", x, y)
		case token.XOR:
			return bvBitwise("^", x, y)
		case token.AND_NOT:
			return bvBitwise("&^", x, y)
		case token.ADD:
			return bvAdd(x, y, false)
		case token.SUB:
			return bvAdd(x, y, true)
		case token.MUL:
			return bvArith("mul", x, y)
		case token.QUO:
			if yk, ok := y.ConstVal(); !ok || yk.Sign() == 0 {
				in.event(Event{Kind: "divide", Idx: y})
			}
			return bvArith("quo", x, y)
		case token.REM:
			if yk, ok := y.ConstVal(); !ok || yk.Sign() == 0 {
				in.event(Event{Kind: "divide", Idx: y})
			}
			return bvArith("rem", x, y)
		case token.EQL, token.NEQ:
			e := bvEq(x, y)
			if in.TermEq && x.W > 8 && !isConst(e) {
				ta, tb := x.Term(), y.Term()
				if ta.id > tb.id {
					ta, tb = tb, ta
				}
				e = termBV(mkTerm("eq", 1, ta, tb), 1, false).Bits[0]
			}
			if in.WrapEq && x.W > 4 {
				e = wrapDef(e)
			}
			if op == token.NEQ {
				e = bnot(e)
			}
			return boolBV(e)
		case token.LSS:
			return boolBV(bvLt(x, y))
		case token.GTR:
			return boolBV(bvLt(y, x))
		case token.LEQ:
			return boolBV(bnot(bvLt(y, x)))
		case token.GEQ:
			return boolBV(bnot(bvLt(x, y)))
		}
		in.fail("unsupported integer operator %s", op)
		return nil
	}
	switch op {
	case token.EQL:
		return boolBV(in.eqBit(a, b))
	case token.NEQ:
		return boolBV(bnot(in.eqBit(a, b)))
	case token.ADD:
		if s, ok := a.(*StrV); ok {
			if t, ok := b.(*StrV); ok && s.Const != nil && t.Const != nil {
				r := *s.Const + *t.Const
				return &StrV{Const: &r}
			}
		}
	}
	return in.opaque(rt, "binop "+op.String())
}

// constKey renders a constant map key, or "" if the key is not constant.
func constKey(k Val) string {
	switch x := k.(type) {
	case *BV:
		if v, ok := x.ConstVal(); ok {
			return "k:" + v.String()
		}
	case *StrV:
		if x.Const != nil {
			return "k:" + *x.Const
		}
	}
	return ""
}

func (in *Interp) mapUpdate(st *State, m, k, v Val) {
	in.event(Event{Kind: "mapupdate", Val: v, Args: []Val{m, k}})
	mv, ok := m.(*MapV)
	if !ok {
		return
	}
	key := constKey(k)
	if key == "" {
		// symbolic key: remember the update (in order, with its condition)
		st.ment[mv.Obj] = append(st.ment[mv.Obj], mapEntry{K: k, V: v, Cond: in.curCond()})
		st.dirty[mv.Obj] = true
		return
	}
	st.dirty[mv.Obj] = true
	in.setCell(st, mv.Obj, key, v)
}

func (in *Interp) mapLookup(st *State, m, k Val, x *ssa.Lookup) Val {
	mv, ok := m.(*MapV)
	if !ok {
		return nil
	}
	key := constKey(k)
	if key == "" || st.havoc[mv.Obj] > 0 || len(st.ment[mv.Obj]) > 0 {
		return nil
	}
	v, present := st.cells[mv.Obj][key]
	if !present {
		v = zeroVal(mv.Elem)
	}
	if x.CommaOk {
		return &StructV{Fields: []Val{v, boolBV(bconst(present))}, T: x.Type()}
	}
	return v
}

// rangeOf builds the iteration sequence of a map value: a locally built map
// with at most one (conditional) symbolic entry, or an opaque map whose
// assumed size is Interp.MapLen (elements are named inputs).
func (in *Interp) rangeOf(st *State, m Val) Val {
	pos := 0
	switch mv := m.(type) {
	case *MapV:
		if st.havoc[mv.Obj] > 0 || len(st.cells[mv.Obj]) > 0 || len(st.ment[mv.Obj]) > 1 {
			in.fail("range over a map with more than one possible entry")
			return nil
		}
		rv := &RangeV{pos: &pos}
		for _, e := range st.ment[mv.Obj] {
			rv.Items = append(rv.Items, rangeItem{OK: e.Cond, K: e.K, V: e.V})
		}
		return rv
	case *OpaqueV:
		mt, ok := mv.T.Underlying().(*types.Map)
		if !ok || in.MapLen < 0 {
			in.fail("range over an opaque map of unknown size")
			return nil
		}
		rv := &RangeV{pos: &pos}
		for i := 0; i < in.MapLen; i++ {
			rv.Items = append(rv.Items, rangeItem{OK: U.B1,
				K: in.opaqueOf(mt.Key(), fmt.Sprintf("%s.key%d", mv.Why, i)),
				V: in.opaqueOf(mt.Elem(), fmt.Sprintf("%s.val%d", mv.Why, i))})
		}
		return rv
	}
	in.fail("range over %T unsupported", m)
	return nil
}
