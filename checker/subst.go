package main

// Substitution of known literal facts into abstract values. When a block is
// entered through a single live edge whose condition is a conjunction of
// literals, those literals hold in every block it dominates; values read there
// are simplified accordingly (this is ordinary conditional constant
// propagation on the bit domain — no path condition beyond dominating branch
// literals is used).

import (
	"math/big"
)

type factSet struct {
	atoms map[int32]bool // atom id -> known value
	memoB map[int32]Bit
	memoT map[*Term]*Term
}

func newFactSet(parent *factSet) *factSet {
	fs := &factSet{atoms: map[int32]bool{}, memoB: map[int32]Bit{}, memoT: map[*Term]*Term{}}
	if parent != nil {
		for k, v := range parent.atoms {
			fs.atoms[k] = v
		}
	}
	return fs
}

// assume records the literals implied by "b is true". Returns false if
// nothing could be learnt.
func (fs *factSet) assume(b Bit) bool {
	if b == nil || b.top || isConst(b) {
		return false
	}
	if len(b.atoms) != 1 {
		return false
	}
	a := U.atoms[b.atoms[0]]
	if !b.c {
		// positive: atom is true
		if a.kind == aAnd {
			learnt := false
			for _, o := range a.ops {
				if fs.assume(o) {
					learnt = true
				}
			}
			fs.atoms[a.id] = true
			return learnt || true
		}
		fs.atoms[a.id] = true
		return true
	}
	// ¬atom is true
	fs.atoms[a.id] = false
	return true
}

func (fs *factSet) bit(b Bit) Bit {
	if b == nil || b.top || len(b.atoms) == 0 || len(fs.atoms) == 0 {
		return b
	}
	if r, ok := fs.memoB[b.id]; ok {
		return r
	}
	r := bconst(b.c)
	for _, id := range b.atoms {
		if v, ok := fs.atoms[id]; ok {
			if v {
				r = bnot(r)
			}
			continue
		}
		a := U.atoms[id]
		var x Bit
		switch {
		case a.kind == aAnd:
			x = U.B1
			for _, o := range a.ops {
				x = band(x, fs.bit(o))
				if isConst(x) && !x.c {
					break
				}
			}
		case a.src.Term != nil:
			nt := fs.term(a.src.Term)
			if nt == a.src.Term {
				x = U.mk(false, []int32{id})
			} else {
				nb := termBV(nt, a.src.Width, false)
				if a.bit < nb.W {
					x = nb.Bits[a.bit]
				} else {
					x = U.B0
				}
			}
		case a.src.Def != nil:
			nd := fs.bit(a.src.Def)
			if nd == a.src.Def {
				x = U.mk(false, []int32{id})
			} else {
				x = wrapDef(nd)
			}
		default:
			x = U.mk(false, []int32{id})
		}
		r = bxor(r, x)
	}
	fs.memoB[b.id] = r
	return r
}

func (fs *factSet) bv(v *BV) *BV {
	if v == nil || len(fs.atoms) == 0 {
		return v
	}
	changed := false
	bits := make([]Bit, v.W)
	for i, b := range v.Bits {
		bits[i] = fs.bit(b)
		if bits[i] != b {
			changed = true
		}
	}
	if !changed {
		return v
	}
	return &BV{W: v.W, Signed: v.Signed, Bits: bits}
}

func (fs *factSet) term(t *Term) *Term {
	if r, ok := fs.memoT[t]; ok {
		return r
	}
	r := t
	switch t.Op {
	case "const", "top":
	case "bits":
		nb := fs.bv(t.bv)
		if nb != t.bv {
			r = nb.Term()
		}
	case "ite":
		c := fs.term(t.Args[0])
		if c.Op == "const" {
			if c.K.Sign() != 0 {
				r = fs.term(t.Args[1])
			} else {
				r = fs.term(t.Args[2])
			}
		} else {
			a, b := fs.term(t.Args[1]), fs.term(t.Args[2])
			if c != t.Args[0] || a != t.Args[1] || b != t.Args[2] {
				if a == b {
					r = a
				} else {
					r = mkTerm("ite", t.W, c, a, b)
				}
			}
		}
	case "lin":
		l := linForm{k: new(big.Int).Set(t.K)}
		changed := false
		for i, a := range t.Args {
			na := fs.term(a)
			if na != a {
				changed = true
			}
			l = l.add(linOfBV(termBV(na, t.W, false)).scale(t.Coef[i]), 1)
		}
		if changed {
			r = linBV(l, t.W, false).Term()
		}
	default:
		var args []*Term
		changed := false
		for _, a := range t.Args {
			na := fs.term(a)
			if na != a {
				changed = true
			}
			args = append(args, na)
		}
		if changed {
			r = rebuildTerm(t, args)
		}
	}
	fs.memoT[t] = r
	return r
}

// rebuildTerm re-applies a term's operator to new arguments, folding
// constants through the ordinary constructors.
func rebuildTerm(t *Term, args []*Term) *Term {
	if len(args) == 2 {
		wa := args[0].W
		if args[1].W > wa {
			wa = args[1].W
		}
		w := t.W
		if t.Op == "eq" || t.Op == "lt" || t.Op == "slt" {
			w = 64
		}
		a, b := termBV(args[0], w, t.Op == "slt"), termBV(args[1], w, t.Op == "slt")
		switch t.Op {
		case "eq":
			return boolBV(bvEq(a, b)).Term()
		case "lt", "slt":
			return boolBV(bvLt(a, b)).Term()
		case "mul", "quo", "rem":
			return bvArith(t.Op, a, b).Term()
		}
	}
	return mkTerm(t.Op, t.W, args...)
}

func (fs *factSet) val(v Val) Val {
	if fs == nil || len(fs.atoms) == 0 {
		return v
	}
	switch x := v.(type) {
	case *BV:
		return fs.bv(x)
	case *SliceV:
		lo, ln := fs.bv(x.Lo), fs.bv(x.Len)
		if lo != x.Lo || ln != x.Len {
			return &SliceV{Obj: x.Obj, Prefix: x.Prefix, Lo: lo, Len: ln, Cap: x.Cap, Elem: x.Elem}
		}
	case *MuxV:
		c := fs.bit(x.C)
		if isConst(c) {
			if c.c {
				return fs.val(x.T)
			}
			return fs.val(x.F)
		}
		t, f := fs.val(x.T), fs.val(x.F)
		if c != x.C || t != x.T || f != x.F {
			return &MuxV{C: c, T: t, F: f}
		}
	case *StructV:
		var nf []Val
		changed := false
		for _, fld := range x.Fields {
			n := fs.val(fld)
			if n != fld {
				changed = true
			}
			nf = append(nf, n)
		}
		if changed {
			return &StructV{Fields: nf, T: x.T}
		}
	case *IfaceV:
		n := fs.val(x.V)
		if n != x.V {
			return &IfaceV{T: x.T, V: n}
		}
	case *Ptr:
		if x.Dyn != nil {
			d := fs.bv(x.Dyn)
			if d != x.Dyn {
				if k, ok := d.ConstInt(); ok {
					return &Ptr{Obj: x.Obj, Path: joinPath(x.Path, x.Base+int(k)), T: x.T}
				}
				return &Ptr{Obj: x.Obj, Path: x.Path, Dyn: d, Base: x.Base, T: x.T}
			}
		}
	}
	return v
}
