package main

import (
	"fmt"
	"go/types"
	"sort"
	"strings"

	"golang.org/x/tools/go/ssa"
)

func runC05(c *Checker) {
	c.Level = "other"
	c.explain = "Five structural rules over every function reachable from the decoding entry points (exported functions of packet, packet/adaptationfield, psi, pes, ebp, scte35 taking bytes/packets/readers, every non-setter method of the objects they return, closures): (index) every indexing, slicing, array conversion, byte-order helper contract, make length, unchecked type assertion, division, explicit panic and method call on an interface whose error was discarded must be safe for all inputs — proved by affine forms over len()/loads with interval ranges (wrap-around of narrow integers modelled), dominating branch facts, dominating bounds checks, value numbering of loads and write-free calls, a bytes.Buffer remaining-length typestate and lifting of internal functions' requirements to their call sites; (loop) every loop must match a termination pattern (counter with non-wrapping type, range, shrinking slice, reader-driven); (alloc) make() lengths are bounded by a constant or an affine function of input lengths; (readonly) read-only entry points write through none of their byte-slice / packet parameters (mod summaries to a fixed point). Sites that genuinely panic on the current tree are listed in known_findings.json with a witness input; safe sites the engine cannot prove are listed one by one in assumed_safe.json with the hand argument. (nilfield) interface-typed struct fields on which methods are called without a nil test must have been assigned on every path on which a creating function hands the struct out. Does not decide: time/memory constants, panics inside the standard library not covered by the contract table, other kinds of nil dereference."
	c.trust("go/ssa + go/types (x/tools v0.29.0)", "E2 bounds engine (bounds*.go): int treated as unbounded (64-bit), no unsafe/reflection in gots, interface calls resolved by method name",
		"standard-library contracts: binary.BigEndian.UintN/PutUintN need N/8 bytes, Buffer.Next(n) needs n>=0 and returns min(n, Len()) bytes, Peek(n) returns n bytes or an error, Buffer.Len() is the unread count",
		"hand arguments of assumed_safe.json")
	B := newBounds(c.P)
	for _, line := range B.applyPremises() {
		c.assuming(line)
		if strings.Contains(line, "NOT established") {
			c.undecided("C05.premise", "caller contract", line, "a fact the bounds proofs of the callee rely on no longer follows from its call sites")
		}
	}
	for _, line := range B.applyPostconds() {
		c.assuming(line)
		if strings.Contains(line, "NOT established") {
			c.undecided("C05.premise", "callee contract", line, "a postcondition the bounds proofs of the callers rely on is no longer provable from the callee's body")
		}
	}
	res := B.checkAll()
	fnsSeen := map[string]bool{}
	for _, r := range res {
		fn := shortFn(r.site.fn)
		fnsSeen[r.site.fn.String()] = true
		if r.proved {
			c.check("C05."+r.site.kind, fn, r.site.construct, true, "")
		} else {
			d := strings.Join(r.failed, "; ")
			if r.why != "" {
				d += "; " + r.why
			}
			c.add(Obligation{Rule: "C05." + r.site.kind, Func: fn, Construct: r.site.construct, Status: "violated", Detail: d, Pos: c.P.Pos(r.site.ins.Pos())})
		}
	}
	c.floorCheck("C05 panic-capable sites examined", len(res), 250)
	reach := B.reachable()
	for fn := range reach {
		c.analysed[fn.String()] = true
	}
	c.extra["functions_in_scope"] = len(reach)
	sort.Strings(B.outOfScope)
	c.extra["functions_out_of_scope"] = B.outOfScope
	c.checkNilFields(reach)
	c.checkDoneImpliesParsable()

	// loops
	loops := B.checkLoops()
	pats := map[string]int{}
	for _, l := range loops {
		fn := shortFn(l.fn)
		if l.pattern != "" {
			pats[l.pattern]++
			c.check("C05.loop", fn, l.construct, true, "")
			continue
		}
		why := l.why
		if why == "" {
			why = "matches none of the termination patterns (counter / range / shrinking slice / reader-driven)"
		}
		c.add(Obligation{Rule: "C05.loop", Func: fn, Construct: l.construct, Status: "violated", Detail: why, Pos: c.P.Pos(l.pos)})
	}
	c.floorCheck("C05 loops classified", len(loops), 40)
	c.extra["loop_patterns"] = pats

	// allocations
	nalloc := 0
	for fn := range reach {
		bf := B.of(fn)
		for _, b := range fn.Blocks {
			for _, ins := range b.Instrs {
				ms, ok := ins.(*ssa.MakeSlice)
				if !ok {
					continue
				}
				nalloc++
				a := bf.affOf(ms.Len)
				r := bf.rangeInBlock(a, b)
				bounded := r.hi < 1<<24
				if !bounded {
					// affine over lengths of slices, buffer fill levels and
					// configuration fields with small coefficients; a value
					// widened from input bytes may not scale the allocation
					bounded = true
					for x, cf := range a.t {
						if cf > 16 {
							bounded = false
						}
						switch k := x.(type) {
						case lenKey, symKey:
						case ssa.Value:
							switch kv := k.(type) {
							case *ssa.UnOp: // field load: configuration set through the API
								_ = kv
							case *ssa.Call:
								if calleeName(kv) != "(*bytes.Buffer).Len" {
									bounded = bounded && bf.rangeOfAtom(x).hi < 1<<24
								}
							default:
								bounded = bounded && bf.rangeOfAtom(x).hi < 1<<24
							}
						}
					}
				}
				c.check("C05.alloc", shortFn(fn), "make(len="+sx(ms.Len)+")", bounded, "allocation size "+bf.affString(a)+" is not bounded by a constant or a small multiple of an input length")
			}
		}
	}
	c.extra["make_sites"] = nalloc

	// read-only entry points
	E := newEffects(c.P)
	nro := 0
	for fn := range reach {
		if fn.Parent() != nil || fn.Pkg == nil || fn.Object() == nil || !B.isEntry(fn) {
			continue
		}
		name := fn.Name()
		isMethod := fn.Signature.Recv() != nil
		if strings.HasPrefix(c.P.Pos(fn.Pos()), "packet/create.go") {
			continue // packet construction helpers write the packet they build, by design
		}
		if strings.Contains(fn.String(), "PacketWriterFunc") {
			continue // forwards the packet to a caller-supplied function
		}
		pp := fn.Pkg.Pkg.Path()
		// modifiers of the packet package write their receiver by design
		mutator := strings.HasPrefix(name, "Set") || strings.HasPrefix(name, "Inc") || strings.HasPrefix(name, "Zero") || name == "Reset" || name == "WritePacket" || name == "ReadFrom" || name == "Write" || name == "UpdateData" || name == "String"
		for i, p := range fn.Params {
			if !byteBuffer(p.Type()) {
				continue
			}
			if isMethod && i == 0 && mutator {
				continue
			}
			if isMethod && i == 0 && !strings.HasSuffix(pp, "/packet") && !byteBuffer(p.Type()) {
				continue // receivers of parsed objects are the library's own state
			}
			nro++
			con := fmt.Sprintf("parameter %s not written", p.Name())
			c.check("C05.readonly", shortFn(fn), con, !E.writes[fn][i], "may write through "+p.Name()+" (a caller-supplied buffer)")
		}
	}
	c.floorCheck("C05 read-only parameters checked", nro, 60)
}

// byteBuffer: []byte, *Packet, *AdaptationField, []*Packet.
func byteBuffer(t types.Type) bool {
	switch u := t.Underlying().(type) {
	case *types.Slice:
		if b, ok := u.Elem().Underlying().(*types.Basic); ok && b.Kind() == types.Uint8 {
			return true
		}
		return byteBuffer(u.Elem())
	case *types.Pointer:
		if a, ok := u.Elem().Underlying().(*types.Array); ok {
			if b, ok := a.Elem().Underlying().(*types.Basic); ok && b.Kind() == types.Uint8 {
				return true
			}
		}
	}
	return false
}
