package main

// Engine E3: which parameters a function may write through (mod summary),
// computed bottom-up to a fixed point over static calls; interface calls are
// resolved by method name over the library; standard-library callees use the
// intrinsic effect table of call.go.

import (
	"go/types"
	"strings"

	"golang.org/x/tools/go/ssa"
)

type Effects struct {
	P      *Program
	writes map[*ssa.Function]map[int]bool
	byName map[string][]*ssa.Function
}

func newEffects(P *Program) *Effects {
	E := &Effects{P: P, writes: map[*ssa.Function]map[int]bool{}, byName: map[string][]*ssa.Function{}}
	fns := P.LibFuncs(true)
	for _, fn := range fns {
		if fn.Signature.Recv() != nil {
			E.byName[fn.Name()] = append(E.byName[fn.Name()], fn)
		}
		E.writes[fn] = map[int]bool{}
	}
	for changed := true; changed; {
		changed = false
		for _, fn := range fns {
			for i := range E.compute(fn) {
				if !E.writes[fn][i] {
					E.writes[fn][i] = true
					changed = true
				}
			}
		}
	}
	return E
}

// roots returns the parameter indices whose memory v may point into.
func paramRoots(fn *ssa.Function, v ssa.Value, depth int, seen map[ssa.Value]bool) map[int]bool {
	out := map[int]bool{}
	if depth > 16 || v == nil || seen[v] {
		return out
	}
	seen[v] = true
	add := func(m map[int]bool) {
		for k := range m {
			out[k] = true
		}
	}
	switch x := v.(type) {
	case *ssa.Parameter:
		for i, p := range fn.Params {
			if p == x {
				out[i] = true
			}
		}
	case *ssa.IndexAddr:
		add(paramRoots(fn, x.X, depth+1, seen))
	case *ssa.FieldAddr:
		add(paramRoots(fn, x.X, depth+1, seen))
	case *ssa.Slice:
		add(paramRoots(fn, x.X, depth+1, seen))
	case *ssa.ChangeType:
		add(paramRoots(fn, x.X, depth+1, seen))
	case *ssa.Convert:
		add(paramRoots(fn, x.X, depth+1, seen))
	case *ssa.MakeInterface:
		add(paramRoots(fn, x.X, depth+1, seen))
	case *ssa.UnOp:
		// a pointer/slice loaded from memory reachable from a parameter
		if x.Op.String() == "*" {
			add(paramRoots(fn, x.X, depth+1, seen))
		}
	case *ssa.Phi:
		for _, e := range x.Edges {
			add(paramRoots(fn, e, depth+1, seen))
		}
	case *ssa.Extract:
		add(paramRoots(fn, x.Tuple, depth+1, seen))
	case *ssa.Call:
		// results of library calls may alias their pointer arguments
		// (Payload, Header, AdaptationField…); append aliases its first operand
		if b, ok := x.Call.Value.(*ssa.Builtin); ok {
			if b.Name() == "append" {
				add(paramRoots(fn, x.Call.Args[0], depth+1, seen))
			}
			return out
		}
		if callee := x.Call.StaticCallee(); callee != nil && callee.Pkg != nil && strings.HasPrefix(callee.Pkg.Pkg.Path(), modPath) {
			for _, a := range x.Call.Args {
				switch a.Type().Underlying().(type) {
				case *types.Pointer, *types.Slice:
					add(paramRoots(fn, a, depth+1, seen))
				}
			}
		}
	}
	return out
}

func (E *Effects) compute(fn *ssa.Function) map[int]bool {
	out := map[int]bool{}
	mark := func(v ssa.Value) {
		for i := range paramRoots(fn, v, 0, map[ssa.Value]bool{}) {
			out[i] = true
		}
	}
	for _, b := range fn.Blocks {
		for _, ins := range b.Instrs {
			switch x := ins.(type) {
			case *ssa.Store:
				mark(x.Addr)
			case ssa.CallInstruction:
				cc := x.Common()
				if bi, ok := cc.Value.(*ssa.Builtin); ok {
					if bi.Name() == "copy" {
						mark(cc.Args[0])
					}
					continue
				}
				var callees []*ssa.Function
				switch {
				case cc.IsInvoke():
					if cc.Method.Pkg() != nil && strings.HasPrefix(cc.Method.Pkg().Path(), modPath) {
						callees = nil
						iface, _ := cc.Value.Type().Underlying().(*types.Interface)
						for _, g := range E.byName[cc.Method.Name()] {
							if iface == nil || types.Implements(g.Signature.Recv().Type(), iface) {
								callees = append(callees, g)
							}
						}
						// receiver is argument 0 of the implementations
						for _, g := range callees {
							if E.writes[g][0] {
								mark(cc.Value)
							}
							for i, a := range cc.Args {
								if E.writes[g][i+1] {
									mark(a)
								}
							}
						}
						continue
					}
					// interface from outside the library (io.Reader…): may write its slice arguments
					for _, a := range cc.Args {
						mark(a)
					}
					continue
				case cc.StaticCallee() != nil:
					g := cc.StaticCallee()
					if w, ok := E.writes[g]; ok {
						for i, a := range cc.Args {
							if w[i] {
								mark(a)
							}
						}
						continue
					}
					switch stdEffects[g.String()] {
					case effNone:
					case effRecvOnly:
						if len(cc.Args) > 0 {
							mark(cc.Args[0])
						}
					default:
						if strings.HasPrefix(g.String(), "(encoding/binary.bigEndian).Uint") || strings.HasPrefix(g.String(), "(encoding/binary.littleEndian).Uint") {
							continue
						}
						if strings.HasPrefix(g.String(), "(encoding/binary.bigEndian).PutUint") {
							mark(cc.Args[1])
							continue
						}
						for _, a := range cc.Args {
							mark(a)
						}
					}
				default:
					for _, a := range cc.Args {
						mark(a)
					}
				}
			}
		}
	}
	return out
}
