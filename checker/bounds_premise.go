package main

import (
	"fmt"
	"go/token"
	"strings"

	"golang.org/x/tools/go/ssa"
)

// bounds_premise.go: facts about a function's parameters that hold because of
// how its (only) callers build the arguments. Each premise is *checked* on the
// current tree by a structural rule over the call sites; if the check fails
// the fact is not used and the dependent sites fall back to whatever the
// engine can prove alone. A premise replaces hand arguments of the form "the
// only caller passes …" in assumed_safe.json.

type premise struct {
	callee string // anchor
	what   string
	// establish checks every call site and, if all pass, returns the facts
	// (each ≥ 0) to add to the callee's analysis.
	establish func(B *Bounds, callee *ssa.Function) ([]aff, string)
}

// prefixReader: fn(psi []byte) reads only psi[k] for constants k < n.
func prefixReader(fn *ssa.Function, n int64) bool {
	if fn.Blocks == nil || len(fn.Params) != 1 {
		return false
	}
	for _, b := range fn.Blocks {
		for _, ins := range b.Instrs {
			switch x := ins.(type) {
			case *ssa.IndexAddr:
				k, ok := x.Index.(*ssa.Const)
				if !ok || x.X != fn.Params[0] {
					return false
				}
				if v, ok := constInt64(k); !ok || v < 0 || v >= n {
					return false
				}
			case ssa.CallInstruction, *ssa.Store, *ssa.Slice, *ssa.Lookup:
				return false
			}
		}
	}
	return true
}

var premises = []premise{
	{
		callee: "psi:(*pmt).parsePMTSection",
		what:   "len(pmtBytes) = 3 + sectionLength(pmtBytes): every caller passes S[0 : 3+sectionLength(S)] and sectionLength reads bytes 1 and 2 only, which the prefix shares",
		establish: func(B *Bounds, callee *ssa.Function) ([]aff, string) {
			sl, err := B.P.Func("psi:sectionLength")
			if err != nil || !prefixReader(sl, 3) {
				return nil, "psi.sectionLength is not a reader of the first three bytes"
			}
			sites := B.callers[callee]
			if len(sites) == 0 {
				return nil, "no call site"
			}
			for _, ci := range sites {
				cf := B.of(ci.Parent())
				arg := ci.Common().Args[1]
				s, ok := arg.(*ssa.Slice)
				if !ok || (s.Low != nil && !isZeroConst(s.Low)) || s.High == nil {
					return nil, "argument at " + B.P.Pos(ci.Pos()) + " is not a prefix slice"
				}
				// High must be 3 + sectionLength(base)
				okHigh := false
				want := cf.affOf(s.High).add(affConst(3), -1)
				for _, b := range ci.Parent().Blocks {
					for _, ins := range b.Instrs {
						c, isCall := ins.(*ssa.Call)
						if !isCall || c.Call.StaticCallee() != sl || c.Call.Args[0] != s.X {
							continue
						}
						if !instrDominates(c, ci.(ssa.Instruction)) {
							continue
						}
						d := want.add(cf.affOf(c), -1)
						if d.isConst() && d.k == 0 {
							okHigh = true
						}
					}
				}
				if !okHigh {
					return nil, "slice bound at " + B.P.Pos(ci.Pos()) + " is not 3 + sectionLength(base)"
				}
			}
			// the callee's own sectionLength(pmtBytes) call
			bf := B.of(callee)
			p := callee.Params[1]
			var facts []aff
			for _, b := range callee.Blocks {
				for _, ins := range b.Instrs {
					if c, ok := ins.(*ssa.Call); ok && c.Call.StaticCallee() == sl && c.Call.Args[0] == p {
						d := bf.lenAff(p).add(affConst(3), -1).add(bf.affOf(c), -1)
						facts = append(facts, d, d.scale(-1))
					}
				}
			}
			if len(facts) == 0 {
				return nil, "the callee does not compute sectionLength(pmtBytes)"
			}
			return facts, ""
		},
	},
}

func isZeroConst(v ssa.Value) bool {
	c, ok := v.(*ssa.Const)
	if !ok {
		return false
	}
	k, ok := constInt64(c)
	return ok && k == 0
}

// applyPremises establishes every premise once and adds its facts to the
// callee's global facts. Returns a report line per premise.
func (B *Bounds) applyPremises() []string {
	var out []string
	for _, p := range premises {
		fn, err := B.P.Func(p.callee)
		if err != nil {
			out = append(out, fmt.Sprintf("premise for %s: %v", p.callee, err))
			continue
		}
		facts, why := p.establish(B, fn)
		if why != "" {
			out = append(out, fmt.Sprintf("premise NOT established for %s (%s): %s", p.callee, p.what, why))
			continue
		}
		// rebuild the callee's analysis with the facts present from the start
		if B.premiseFacts == nil {
			B.premiseFacts = map[*ssa.Function][]aff{}
		}
		B.premiseFacts[fn] = append(B.premiseFacts[fn], facts...)
		delete(B.fns, fn)
		out = append(out, fmt.Sprintf("premise established for %s: %s", strings.TrimPrefix(p.callee, "psi:"), p.what))
	}
	return out
}

var _ = token.ADD
