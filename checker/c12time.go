package main

import (
	"fmt"
	"go/constant"
	"go/token"
	"go/types"
	"math/big"
	"strings"
	"sync"
	"time"

	"golang.org/x/tools/go/ssa"
)

// c12time.go: the NTP-style time conversion of the EBP package.
//
//  (narrow)  every integer conversion and unsigned operation of
//            insertUtcTime/extractUtcTime keeps its mathematical value, by
//            interval arithmetic over the SSA with exact (big) bounds, assuming
//            the instant lies inside its era (0 <= nanoseconds < 2^32 s);
//  (era)     both functions use the same two epochs, 2^32 s apart, the
//            threshold of insertUtcTime is the second epoch and extractUtcTime
//            selects by the top bit of the seconds word;
//  (round)   the formulas seconds,fraction = F(nanos) and nanos' = G(seconds,
//            fraction), extracted by abstract interpretation with the time
//            package uninterpreted, satisfy |G(F(n)) - n| <= 1 on a grid of
//            sub-second values (boundaries, a stride, pseudo-random points;
//            the whole 10^9 range in the thorough tier) for era seconds at the
//            boundaries.

type bigIval struct{ lo, hi *big.Int }

func bi(v int64) *big.Int { return big.NewInt(v) }

func typeBigRange(t types.Type) (bigIval, bool) {
	w, signed, ok := intWidth(t)
	if !ok {
		return bigIval{}, false
	}
	if signed {
		lo := new(big.Int).Neg(new(big.Int).Lsh(bi(1), uint(w-1)))
		hi := new(big.Int).Sub(new(big.Int).Lsh(bi(1), uint(w-1)), bi(1))
		return bigIval{lo, hi}, true
	}
	return bigIval{bi(0), new(big.Int).Sub(new(big.Int).Lsh(bi(1), uint(w)), bi(1))}, true
}

func (r bigIval) within(o bigIval) bool { return r.lo.Cmp(o.lo) >= 0 && r.hi.Cmp(o.hi) <= 0 }

type narrowCheck struct {
	P      *Program
	assume map[string]bigIval // callee name -> assumed result range
	// assumeVal gives the assumed range of a specific value (e.g. a load of a
	// field whose invariant is being checked inductively)
	assumeVal func(v ssa.Value) (bigIval, bool)
	memo      map[ssa.Value]*bigIval
	issues    []string
	nConv     int
}

// rng computes the exact mathematical range of v; every operation whose
// mathematical result may leave its type is reported.
func (nc *narrowCheck) rng(v ssa.Value) bigIval {
	if r, ok := nc.memo[v]; ok {
		return *r
	}
	tr, isInt := typeBigRange(v.Type())
	res := tr
	if nc.assumeVal != nil {
		if a, ok := nc.assumeVal(v); ok {
			nc.memo[v] = &a
			return a
		}
	}
	report := func(what string, r bigIval) {
		nc.issues = append(nc.issues, fmt.Sprintf("%s at %s: value range [%s, %s] does not fit %s (witness: the upper bound)", what, nc.P.Pos(v.Pos()), r.lo, r.hi, v.Type()))
	}
	switch x := v.(type) {
	case *ssa.Const:
		if x.Value != nil && x.Value.Kind() == constant.Int {
			if k, ok := new(big.Int).SetString(x.Value.ExactString(), 10); ok {
				res = bigIval{k, k}
			}
		}
	case *ssa.Convert:
		if _, ok := typeBigRange(x.X.Type()); ok && isInt {
			r := nc.rng(x.X)
			nc.nConv++
			if r.within(tr) {
				res = r
			} else {
				report("conversion "+x.X.Type().String()+" -> "+x.Type().String(), r)
			}
		}
	case *ssa.ChangeType:
		res = nc.rng(x.X)
	case *ssa.Phi:
		if !isInt {
			break
		}
		// union of the incoming ranges, each refined by the comparison (against
		// a constant) that decides the incoming edge
		var u *bigIval
		nc.memo[v] = &tr // cycle guard: a loop-carried value has its type's range
		for i, e := range x.Edges {
			r := nc.rng(e)
			p := x.Block().Preds[i]
			if ifi, ok := p.Instrs[len(p.Instrs)-1].(*ssa.If); ok && p.Succs[0] != p.Succs[1] {
				r = nc.refine(r, e, ifi.Cond, p.Succs[0] == x.Block())
			}
			if u == nil {
				c := bigIval{new(big.Int).Set(r.lo), new(big.Int).Set(r.hi)}
				u = &c
			} else {
				if r.lo.Cmp(u.lo) < 0 {
					u.lo = r.lo
				}
				if r.hi.Cmp(u.hi) > 0 {
					u.hi = r.hi
				}
			}
		}
		if u != nil {
			res = *u
		}
	case *ssa.Call:
		if a, ok := nc.assume[calleeName(x)]; ok {
			res = a
		}
	case *ssa.BinOp:
		if !isInt {
			break
		}
		a, b := nc.rng(x.X), nc.rng(x.Y)
		var r bigIval
		ok := true
		switch x.Op {
		case token.ADD:
			r = bigIval{new(big.Int).Add(a.lo, b.lo), new(big.Int).Add(a.hi, b.hi)}
		case token.SUB:
			r = bigIval{new(big.Int).Sub(a.lo, b.hi), new(big.Int).Sub(a.hi, b.lo)}
		case token.MUL:
			if a.lo.Sign() < 0 || b.lo.Sign() < 0 {
				ok = false
				break
			}
			r = bigIval{new(big.Int).Mul(a.lo, b.lo), new(big.Int).Mul(a.hi, b.hi)}
		case token.QUO:
			if a.lo.Sign() < 0 || b.lo.Sign() <= 0 {
				ok = false
				break
			}
			r = bigIval{new(big.Int).Quo(a.lo, b.hi), new(big.Int).Quo(a.hi, b.lo)}
		case token.REM:
			if a.lo.Sign() < 0 || b.lo.Sign() <= 0 {
				ok = false
				break
			}
			hi := new(big.Int).Sub(b.hi, bi(1))
			if a.hi.Cmp(hi) < 0 {
				hi = a.hi
			}
			r = bigIval{bi(0), hi}
		case token.SHL:
			if a.lo.Sign() < 0 || b.lo.Cmp(b.hi) != 0 || !b.lo.IsInt64() || b.lo.Int64() > 128 {
				ok = false
				break
			}
			r = bigIval{new(big.Int).Lsh(a.lo, uint(b.lo.Int64())), new(big.Int).Lsh(a.hi, uint(b.lo.Int64()))}
		case token.SHR:
			if a.lo.Sign() < 0 || b.lo.Cmp(b.hi) != 0 || !b.lo.IsInt64() || b.lo.Int64() > 128 {
				ok = false
				break
			}
			r = bigIval{new(big.Int).Rsh(a.lo, uint(b.lo.Int64())), new(big.Int).Rsh(a.hi, uint(b.lo.Int64()))}
		case token.AND:
			if a.lo.Sign() < 0 || b.lo.Sign() < 0 {
				ok = false
				break
			}
			hi := a.hi
			if b.hi.Cmp(hi) < 0 {
				hi = b.hi
			}
			r = bigIval{bi(0), hi}
		default:
			ok = false
		}
		if ok {
			if r.within(tr) {
				res = r
			} else {
				report("operation "+x.Op.String(), r)
			}
		}
	}
	nc.memo[v] = &res
	return res
}

// refine narrows the range r of value v by the outcome of cond when cond
// compares v with a constant.
func (nc *narrowCheck) refine(r bigIval, v ssa.Value, cond ssa.Value, truth bool) bigIval {
	b, ok := cond.(*ssa.BinOp)
	if !ok || b.X != v {
		return r
	}
	k := nc.rng(b.Y)
	if k.lo.Cmp(k.hi) != 0 {
		return r
	}
	op := b.Op
	if !truth {
		op = map[token.Token]token.Token{token.GTR: token.LEQ, token.GEQ: token.LSS, token.LSS: token.GEQ, token.LEQ: token.GTR}[op]
	}
	out := bigIval{new(big.Int).Set(r.lo), new(big.Int).Set(r.hi)}
	switch op {
	case token.LEQ:
		if k.lo.Cmp(out.hi) < 0 {
			out.hi = k.lo
		}
	case token.LSS:
		if m := new(big.Int).Sub(k.lo, bi(1)); m.Cmp(out.hi) < 0 {
			out.hi = m
		}
	case token.GEQ:
		if k.lo.Cmp(out.lo) > 0 {
			out.lo = k.lo
		}
	case token.GTR:
		if m := new(big.Int).Add(k.lo, bi(1)); m.Cmp(out.lo) > 0 {
			out.lo = m
		}
	}
	return out
}

func (c *Checker) runEBPNarrow() {
	eraNanos := new(big.Int).Sub(new(big.Int).Mul(new(big.Int).Lsh(bi(1), 32), bi(1000000000)), bi(1))
	for _, anchor := range []string{"ebp:insertUtcTime", "ebp:extractUtcTime"} {
		fn, err := c.P.Func(anchor)
		if err != nil {
			c.undecided("C12.narrow", anchor, "anchor", err.Error())
			continue
		}
		c.analysed[fn.String()] = true
		nc := &narrowCheck{P: c.P, memo: map[ssa.Value]*bigIval{}, assume: map[string]bigIval{
			"(time.Duration).Nanoseconds": {bi(0), eraNanos}}}
		for _, b := range fn.Blocks {
			for _, ins := range b.Instrs {
				if v, ok := ins.(ssa.Value); ok {
					if _, isInt := typeBigRange(v.Type()); isInt {
						nc.rng(v)
					}
				}
			}
		}
		c.check("C12.narrow", anchor, "every integer conversion and unsigned operation keeps its mathematical value (instant inside its era assumed)",
			len(nc.issues) == 0, strings.Join(nc.issues, "; "))
		c.floorCheck("C12.narrow conversions examined in "+anchor, nc.nConv, 2)
	}
	c.assuming("the instant passed to SetEBPTime lies inside its NTP era: 0 <= t - epoch < 2^32 s")
}

// ------------------------------------------------------------ formulas

type dateTag struct{ y, mo, d, h, mi, s int64 }

func (d dateTag) String() string {
	return fmt.Sprintf("%04d-%02d-%02dT%02d:%02d:%02dZ", d.y, d.mo, d.d, d.h, d.mi, d.s)
}

func (d dateTag) time() time.Time {
	return time.Date(int(d.y), time.Month(d.mo), int(d.d), int(d.h), int(d.mi), int(d.s), 0, time.UTC)
}

type timeModel struct {
	dates   map[string]dateTag // OpaqueV.Why -> constants
	before  []string           // thresholds passed to Before
	subFrom []string
	adds    []struct {
		base string
		dur  *BV
	}
}

func dateOf(tm *timeModel, v Val) (string, bool) {
	if o, ok := v.(*OpaqueV); ok {
		if _, ok := tm.dates[o.Why]; ok {
			return o.Why, true
		}
	}
	return "", false
}

// useTimeModel: time.Date yields a tagged constant, Before a free bit, Sub and
// Nanoseconds a free 64-bit duration per epoch, Add records its operands.
func useTimeModel(in *Interp, tm *timeModel) {
	tm.dates = map[string]dateTag{}
	in.Intrinsic = func(fn *ssa.Function, args []Val, st *State) (Val, bool) {
		rt := fn.Signature.Results()
		switch fn.String() {
		case "time.Date":
			var k [6]int64
			for i := 0; i < 6; i++ {
				bv, ok := args[i].(*BV)
				if !ok {
					in.fail("time model: non-constant date")
					return nil, true
				}
				v, ok := bv.ConstInt()
				if !ok {
					in.fail("time model: non-constant date")
					return nil, true
				}
				k[i] = v
			}
			d := dateTag{k[0], k[1], k[2], k[3], k[4], k[5]}
			why := "date:" + d.String()
			tm.dates[why] = d
			return &OpaqueV{Why: why, T: rt.At(0).Type()}, true
		case "(time.Time).Before":
			if w, ok := dateOf(tm, args[1]); ok {
				tm.before = append(tm.before, w)
			} else {
				in.fail("time model: Before against a non-constant instant %s", showVal(args[1]))
			}
			return boolArg("before"), true
		case "(time.Time).Sub":
			var sub func(v Val) *BV
			sub = func(v Val) *BV {
				if m, ok := v.(*MuxV); ok {
					a, b := sub(m.T), sub(m.F)
					if a == nil || b == nil {
						return nil
					}
					return bvMux(m.C, a, b)
				}
				if w, ok := dateOf(tm, v); ok {
					tm.subFrom = append(tm.subFrom, w)
					return uintArg("nanos since "+w, 64, 64, true)
				}
				return nil
			}
			r := sub(args[1])
			if r == nil {
				in.fail("time model: Sub of a non-constant instant")
				return nil, true
			}
			return r, true
		case "(time.Duration).Nanoseconds":
			return args[0], true
		case "(time.Time).Add":
			// the epoch may have been chosen first and added to once
			if mv, isMux := args[0].(*MuxV); isMux {
				wt, okT := dateOf(tm, mv.T)
				wf, okF := dateOf(tm, mv.F)
				if d, okD := args[1].(*BV); okT && okF && okD {
					for _, w := range []string{wt, wf} {
						tm.adds = append(tm.adds, struct {
							base string
							dur  *BV
						}{w, d})
					}
					return &MuxV{C: mv.C, T: &OpaqueV{Why: "add:" + wt, T: rt.At(0).Type()}, F: &OpaqueV{Why: "add:" + wf, T: rt.At(0).Type()}}, true
				}
			}
			w, ok := dateOf(tm, args[0])
			d, ok2 := args[1].(*BV)
			if !ok || !ok2 {
				in.fail("time model: Add on a non-constant instant")
				return nil, true
			}
			tm.adds = append(tm.adds, struct {
				base string
				dur  *BV
			}{w, d})
			return &OpaqueV{Why: "add:" + w, T: rt.At(0).Type()}, true
		}
		return nil, false
	}
}

// the epochs may be package-level variables: the package initialiser is
// evaluated under the time model first
var ebpPkg = "ebp"

func (c *Checker) runEBPTime(thorough bool) {
	ins, err1 := c.P.Func("ebp:insertUtcTime")
	ext, err2 := c.P.Func("ebp:extractUtcTime")
	if err1 != nil || err2 != nil {
		c.undecided("C12.time", "ebp:insertUtcTime", "anchors", fmt.Sprint(err1, err2))
		return
	}
	var tmI, tmE timeModel
	sI := Analyze(c.P, ins, &AnalyzeOpts{InitPkg: &ebpPkg, Setup: func(in *Interp) { useTimeModel(in, &tmI) }})
	sE := Analyze(c.P, ext, &AnalyzeOpts{InitPkg: &ebpPkg, Setup: func(in *Interp) { useTimeModel(in, &tmE) }})
	if sI.Failed != "" || sE.Failed != "" {
		c.undecided("C12.time", "ebp:insertUtcTime", "formula extraction", sI.Failed+" "+sE.Failed)
		return
	}
	// ---- era rule
	e1900, e2036 := dateTag{1900, 1, 1, 0, 0, 0}, dateTag{2036, 2, 7, 6, 28, 16}
	bad := ""
	if e2036.time().Sub(e1900.time()) != time.Duration(0) && e2036.time().Unix()-e1900.time().Unix() != 1<<32 {
		bad = "reference epochs are not 2^32 s apart"
	}
	want := map[string]bool{"date:" + e1900.String(): true, "date:" + e2036.String(): true}
	for _, tm := range []*timeModel{&tmI, &tmE} {
		for w := range tm.dates {
			if !want[w] {
				bad = "unexpected epoch constant " + w
			}
		}
	}
	if len(tmI.before) == 0 {
		bad = "insertUtcTime does not compare against an epoch"
	}
	for _, w := range tmI.before {
		if w != "date:"+e2036.String() {
			bad = "insertUtcTime selects the era by " + w + ", the second era starts at " + e2036.String()
		}
	}
	// the epoch used on each side of the selection
	nanos1900 := uintArg("nanos since date:"+e1900.String(), 64, 64, true)
	nanos2036 := uintArg("nanos since date:"+e2036.String(), 64, 64, true)
	before := boolArg("before").Bits[0]
	secI, _ := sI.RetN(0).(*BV)
	fraI, _ := sI.RetN(1).(*BV)
	if secI == nil || fraI == nil {
		c.undecided("C12.time", "ebp:insertUtcTime", "formula extraction", "results are not integers")
		return
	}
	// extract: the result is a choice of two Add results on bit 31 of seconds
	var selBit Bit
	var nanosOut *BV
	nanosBy := map[string]*BV{} // epoch -> nanoseconds formula of that arm (each simplified under its own era bit)
	if mv, ok := sE.Ret.(*MuxV); ok {
		selBit = mv.C
	}
	seconds := sE.Params[0].(*BV)
	if len(tmE.adds) != 2 || selBit == nil {
		bad = "extractUtcTime does not choose between two epochs"
	} else {
		if ok, _ := matchBits(&BV{W: 1, Bits: []Bit{selBit}}, []Bit{seconds.Bits[31]}); !ok {
			if ok2, _ := matchBits(&BV{W: 1, Bits: []Bit{selBit}}, []Bit{bnot(seconds.Bits[31])}); !ok2 {
				bad = "extractUtcTime does not select the era by the top bit of the seconds word"
			}
		}
		for _, a := range tmE.adds {
			nanosOut = a.dur
			nanosBy[a.base] = a.dur
		}
		mv := sE.Ret.(*MuxV)
		tWhy, _ := mv.T.(*OpaqueV)
		fWhy, _ := mv.F.(*OpaqueV)
		// which arm is taken when bit 31 is set
		set, clear := tWhy, fWhy
		if ok, _ := matchBits(&BV{W: 1, Bits: []Bit{selBit}}, []Bit{seconds.Bits[31]}); !ok {
			set, clear = fWhy, tWhy
		}
		if set == nil || clear == nil || set.Why != "add:date:"+e1900.String() || clear.Why != "add:date:"+e2036.String() {
			bad = "extractUtcTime: top bit set must mean the 1900 epoch, clear the 2036 epoch"
		}
	}
	c.check("C12.era", "ebp:extractUtcTime", "both directions use the epochs 1900-01-01T00:00:00Z and 2036-02-07T06:28:16Z (2^32 s apart); insertUtcTime switches at the second epoch, extractUtcTime by the top bit of the seconds word", bad == "", bad)
	if bad != "" || nanosOut == nil {
		return
	}
	// ---- wiring of the two methods that use the conversion
	fraction := sE.Params[1].(*BV)
	{
		bad := ""
		fieldIx := func(t types.Type, name string) int {
			st := structOf(t)
			for i := 0; st != nil && i < st.NumFields(); i++ {
				if st.Field(i).Name() == name {
					return i
				}
			}
			return -1
		}
		if set, err := c.P.Func("ebp:(*baseEbp).SetEBPTime"); err != nil {
			bad = err.Error()
		} else {
			var tm timeModel
			sm := Analyze(c.P, set, &AnalyzeOpts{InitPkg: &ebpPkg, Setup: func(in *Interp) { useTimeModel(in, &tm) }})
			o := paramObj(sm, 0)
			if sm.Failed != "" || o == nil {
				bad = "SetEBPTime: " + sm.Failed
			} else {
				gs, _ := sm.Cell(o, fmt.Sprint(fieldIx(o.T, "TimeSeconds")), types.Typ[types.Uint32]).(*BV)
				gf, _ := sm.Cell(o, fmt.Sprint(fieldIx(o.T, "TimeFraction")), types.Typ[types.Uint32]).(*BV)
				if gs == nil || gf == nil || !sameBV(gs, secI) || !sameBV(gf, fraI) {
					bad = "SetEBPTime does not store insertUtcTime's (seconds, fraction) in (TimeSeconds, TimeFraction)"
				}
				if w := sm.WrittenCells(); len(w) != 2 {
					bad = "SetEBPTime writes " + strings.Join(w, ",")
				}
			}
		}
		if get, err := c.P.Func("ebp:(*baseEbp).EBPTime"); err != nil {
			bad = err.Error()
		} else {
			var tm timeModel
			sm := Analyze(c.P, get, &AnalyzeOpts{InitPkg: &ebpPkg, Setup: func(in *Interp) { useTimeModel(in, &tm) }, Pre: func(in *Interp, st *State, ps []Val) {
				o := ps[0].(*Ptr).Obj
				in.setCell(st, o, fmt.Sprint(fieldIx(o.T, "TimeSeconds")), seconds)
				in.setCell(st, o, fmt.Sprint(fieldIx(o.T, "TimeFraction")), fraction)
			}})
			if sm.Failed != "" {
				bad = "EBPTime: " + sm.Failed
			} else {
				if len(tm.adds) != len(tmE.adds) {
					bad = "EBPTime does not convert through extractUtcTime"
				}
				for i := range tm.adds {
					if i < len(tmE.adds) && (tm.adds[i].base != tmE.adds[i].base || !sameBV(tm.adds[i].dur, tmE.adds[i].dur)) {
						bad = "EBPTime does not pass (TimeSeconds, TimeFraction) to extractUtcTime"
					}
				}
				if w := sm.WrittenCells(); len(w) > 0 {
					bad = "EBPTime writes " + strings.Join(w, ",")
				}
			}
		}
		c.check("C12.time", "ebp:(*baseEbp).SetEBPTime", "SetEBPTime stores insertUtcTime(t) in the two time words, EBPTime returns extractUtcTime of them", bad == "", bad)
	}
	// ---- round trip on the extracted formulas
	srcOf := func(v *BV) *Source { return U.atoms[v.Bits[0].atoms[0]].src }
	type job struct{ era, sec, r uint64 }
	var jobs []job
	addR := func(era, sec uint64, r uint64) { jobs = append(jobs, job{era, sec, r}) }
	rs := []uint64{0, 1, 2, 3, 499999999, 500000000, 500000001, 999999997, 999999998, 999999999}
	for k := uint64(0); k < 1000; k++ {
		rs = append(rs, (k*1000003+12345)%1000000000, k, 999999999-k)
	}
	stride := uint64(50021)
	if thorough {
		stride = 211
	}
	for r := uint64(7); r < 1000000000; r += stride {
		rs = append(rs, r)
	}
	for _, r := range rs {
		for _, sec := range []uint64{1 << 31, 1<<31 + 1, 1<<32 - 1, 3000000000} {
			addR(1900, sec, r)
		}
		for _, sec := range []uint64{0, 1, 1<<31 - 1, 1000000000} {
			addR(2036, sec, r)
		}
	}
	var mu sync.Mutex
	worst := ""
	nBad := 0
	var wg sync.WaitGroup
	chunk := (len(jobs) + 15) / 16
	for w := 0; w < 16; w++ {
		lo, hi := w*chunk, (w+1)*chunk
		if hi > len(jobs) {
			hi = len(jobs)
		}
		if lo >= hi {
			continue
		}
		wg.Add(1)
		go func(js []job) {
			defer wg.Done()
			for _, j := range js {
				n := new(big.Int).SetUint64(j.sec)
				n.Mul(n, bi(1000000000)).Add(n, new(big.Int).SetUint64(j.r))
				e := cenv{srcOf(nanos1900): n, srcOf(nanos2036): n, U.atoms[before.atoms[0]].src: bi(int64(b2i(j.era == 1900)))}
				s, err1 := e.bv(secI)
				f, err2 := e.bv(fraI)
				if err1 != nil || err2 != nil {
					mu.Lock()
					nBad++
					worst = fmt.Sprintf("formula not evaluable: %v %v", err1, err2)
					mu.Unlock()
					return
				}
				e2 := cenv{srcOf(seconds): s, srcOf(fraction): f}
				eraBack, arm := uint64(2036), nanosBy["date:"+e2036.String()]
				if s.Bit(31) == 1 {
					eraBack, arm = 1900, nanosBy["date:"+e1900.String()]
				}
				if arm == nil {
					arm = nanosOut
				}
				back, err := e2.bv(arm)
				d := new(big.Int)
				if err == nil {
					d.Sub(back, n).Abs(d)
				}
				if err != nil || eraBack != j.era || d.Cmp(bi(1)) > 0 {
					mu.Lock()
					nBad++
					if worst == "" {
						worst = fmt.Sprintf("era %d, second %d, nanosecond %d: written as seconds=%#x fraction=%#x, read back as %s ns in era %d (off by %s ns)", j.era, j.sec, j.r, s, f, back, eraBack, d)
					}
					mu.Unlock()
				}
			}
		}(jobs[lo:hi])
	}
	wg.Wait()
	c.check("C12.time", "ebp:insertUtcTime", "extracted formulas: an instant written by insertUtcTime is read back by extractUtcTime within one nanosecond, in the same era (sub-second grid x era boundary seconds)",
		nBad == 0, fmt.Sprintf("%d of %d samples fail; first: %s", nBad, len(jobs), worst))
	c.extra["time_samples"] = len(jobs)
	c.floorCheck("C12.time samples", len(jobs), 100000)
}
