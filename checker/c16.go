package main

import (
	"fmt"
	"go/token"
	"go/types"
	"sort"
	"strings"

	"golang.org/x/tools/go/ssa"
)

// enumPaths enumerates the acyclic block paths that start at `from` and end
// at the first block for which stop returns true (the start block itself may
// be a stop target only as the final element: paths returning to it are
// reported). Bounded by maxPaths.
func enumPaths(from *ssa.BasicBlock, stop func(b *ssa.BasicBlock) bool, maxPaths int) ([][]*ssa.BasicBlock, bool) {
	var out [][]*ssa.BasicBlock
	ok := true
	var dfs func(path []*ssa.BasicBlock, seen map[int]bool)
	dfs = func(path []*ssa.BasicBlock, seen map[int]bool) {
		if len(out) >= maxPaths {
			ok = false
			return
		}
		cur := path[len(path)-1]
		if len(cur.Succs) == 0 {
			out = append(out, append([]*ssa.BasicBlock(nil), path...))
			return
		}
		for _, s := range cur.Succs {
			if s == from || stop(s) {
				out = append(out, append(append([]*ssa.BasicBlock(nil), path...), s))
				continue
			}
			if seen[s.Index] {
				continue // inner cycle: not a simple path
			}
			seen[s.Index] = true
			dfs(append(path, s), seen)
			delete(seen, s.Index)
		}
	}
	dfs([]*ssa.BasicBlock{from}, map[int]bool{from.Index: true})
	return out, ok
}

// callSucceededOn reports whether, on the given path, the call at position
// (block index i in path) is followed by its error-is-nil edge. The accepted
// idiom is: the call's error result e is tested by the block's terminator
// `if e != nil` (or `e == nil`).
func callSucceededOn(path []*ssa.BasicBlock, i int, call *ssa.Call) (bool, bool) {
	b := path[i]
	ifi, ok := b.Instrs[len(b.Instrs)-1].(*ssa.If)
	if !ok || i+1 >= len(path) {
		return false, false
	}
	bo, ok := ifi.Cond.(*ssa.BinOp)
	if !ok || (bo.Op != token.NEQ && bo.Op != token.EQL) {
		return false, false
	}
	isErrOf := func(v ssa.Value) bool {
		switch x := v.(type) {
		case *ssa.Extract:
			return x.Tuple == ssa.Value(call)
		case *ssa.Call:
			return x == call
		}
		return false
	}
	isNil := func(v ssa.Value) bool { c, ok := v.(*ssa.Const); return ok && c.Value == nil }
	if !((isErrOf(bo.X) && isNil(bo.Y)) || (isErrOf(bo.Y) && isNil(bo.X))) {
		return false, false
	}
	next := path[i+1]
	errNonNilSucc := b.Succs[0]
	if bo.Op == token.EQL {
		errNonNilSucc = b.Succs[1]
	}
	return next != errNonNilSucc, true
}

func runC16(c *Checker) {
	c.Level = "other"
	c.explain = "Decides two structural parts. (1) IsSynced: interpreted for each of the 8192 PID values with the rest of the peeked header symbolic; it must answer true exactly under no-peek-error ∧ b0 == 0x47 ∧ adaptation_field_control ≠ 00 ∧ PID ∉ [4,15]. (2) Sync's bookkeeping: on every acyclic path of the scan loop from its header back to it, the increment of the offset variable must equal the number of successful ReadByte calls minus successful UnreadByte calls (≥ 1, so the loop makes progress); on the path to the success return the net consumption since the header must be 0 and the returned offset the loop variable itself, so the reader stands on the sync byte and the offset counts exactly the bytes consumed before it; io.EOF from any read or peek maps to the not-found error, other errors are returned unchanged. Does not decide: 'first such position' for concrete streams (consequence of byte-by-byte monotone scanning, argued) and bufio's behaviour."
	c.trust("go/ssa + go/types (x/tools v0.29.0)", "E1 transfer functions", "Peek(n) consumes nothing; ReadByte consumes one byte iff it returns a nil error; UnreadByte gives one back iff it returns nil (bufio contract)")
	c.checkIsSynced()
	c.checkSyncLoop()
}

func (c *Checker) checkIsSynced() {
	const anchor = "packet:IsSynced"
	fn, err := c.P.Func(anchor)
	if err != nil {
		c.undecided("C16.predicate", anchor, "anchor", err.Error())
		return
	}
	c.analysed[fn.String()] = true
	var fails []string
	n := 0
	for pid := 0; pid < 8192 && len(fails) < 3; pid++ {
		var in0 *Interp
		var peekErr Val
		s := Analyze(c.P, fn, &AnalyzeOpts{Setup: func(in *Interp) {
			in0 = in
			in.InvokeHook = func(recv Val, m *types.Func, args []Val, rt types.Type, st *State) (Val, bool) {
				if m.Name() != "Peek" {
					return nil, false
				}
				if k, ok := args[0].(*BV); !ok {
					return nil, false
				} else if kv, ok := k.ConstInt(); !ok || kv != 4 {
					return nil, false
				}
				o := in.newObj("peek", "lazy", byteT, true)
				o.Seq, o.N, o.Len = true, 4, constInt(4, 64, true)
				b1 := &BV{W: 8, Bits: append([]Bit(nil), cellBV("peek", 1).Bits...)}
				for k := 0; k < 5; k++ {
					b1.Bits[k] = bconst(pid>>(8+uint(k))&1 == 1)
				}
				in.setCell(st, o, "1", b1)
				in.setCell(st, o, "2", constInt(int64(pid&0xff), 8, false))
				peekErr = &OpaqueV{Why: "peek.err", T: rt.(*types.Tuple).At(1).Type()}
				return &StructV{T: rt, Fields: []Val{&SliceV{Obj: o, Lo: constInt(0, 64, true), Len: o.Len, Elem: byteT}, peekErr}}, true
			}
		}})
		n++
		tag := fmt.Sprintf("PID=%#x: ", pid)
		if s.Failed != "" {
			fails = append(fails, tag+s.Failed)
			continue
		}
		if peekErr == nil {
			fails = append(fails, tag+"does not peek 4 bytes")
			continue
		}
		noErr := in0.nilBit(peekErr)
		want := U.B0
		if pid < 4 || pid > 15 {
			want = andAll(noErr, eqConst(cellBV("peek", 0).Bits, 0x47), bnot(eqConst(cellBV("peek", 3).Bits[4:6], 0)))
		}
		ret, _ := s.RetN(0).(*BV)
		if ret == nil || ret.W != 1 {
			fails = append(fails, tag+"non-boolean result")
			continue
		}
		if eq, dec, det := equivBits(ret.Bits[0], want, 14); !(eq && dec) {
			fails = append(fails, tag+"answers "+ret.Bits[0].String()+", expected "+want.String()+" ("+det+")")
		}
		// error result: the peek error when it failed, nil otherwise
		e := s.RetN(1)
		okErr := false
		for _, lf := range muxLeaves(e) {
			if _, isNil := lf.(NilV); isNil || sameVal(lf, peekErr) {
				okErr = true
			} else {
				okErr = false
				break
			}
		}
		if !okErr {
			fails = append(fails, tag+"error result is "+showVal(e))
		} else if eq, dec, _ := equivBits(in0.nilBit(e), noErr, 8); !(eq && dec) {
			// nil error exactly when Peek succeeded
			fails = append(fails, tag+"error result is not the Peek error: "+showVal(e))
		}
	}
	sort.Strings(fails)
	d := ""
	if len(fails) > 0 {
		d = fmt.Sprintf("%d PIDs fail; first: %s", len(fails), fails[0])
	}
	c.check("C16.predicate", anchor, "all 8192 PIDs: true ⇔ Peek(4) ok ∧ b0 == 0x47 ∧ AFC (b3[5:4]) ≠ 00 ∧ PID ∉ [0x4,0xF]; Peek error returned as is", len(fails) == 0, d)
	c.floorCheck("C16.predicate PIDs evaluated", n, 8192)
}

func (c *Checker) checkSyncLoop() {
	const anchor = "packet:Sync"
	fn, err := c.P.Func(anchor)
	if err != nil {
		c.undecided("C16.scan", anchor, "anchor", err.Error())
		return
	}
	c.analysed[fn.String()] = true
	isSynced, _ := c.P.Func("packet:IsSynced")
	// loop header = block with a phi that is returned as result 0
	var H *ssa.BasicBlock
	var off *ssa.Phi
	for _, b := range fn.Blocks {
		for _, ins := range b.Instrs {
			if phi, ok := ins.(*ssa.Phi); ok {
				if w, _, ok := intWidth(phi.Type()); ok && w == 64 {
					for _, p := range b.Preds {
						if b.Dominates(p) {
							H, off = b, phi
						}
					}
				}
			}
		}
	}
	if H == nil {
		c.undecided("C16.scan", anchor, "scan loop", "no loop with a 64-bit offset variable found")
		return
	}
	paths, complete := enumPaths(H, func(b *ssa.BasicBlock) bool { return false }, 4096)
	if !complete {
		c.undecided("C16.scan", anchor, "scan loop", "too many paths")
		return
	}
	// net consumption along a path
	consumption := func(path []*ssa.BasicBlock) (net int, reads int, desc string, ok bool) {
		ok = true
		for i, b := range path[:len(path)-0] {
			if i == len(path)-1 && b == H {
				break
			}
			for _, ins := range b.Instrs {
				call, isCall := ins.(*ssa.Call)
				if !isCall {
					continue
				}
				cc := call.Common()
				switch {
				case cc.IsInvoke() && (cc.Method.Name() == "ReadByte" || cc.Method.Name() == "UnreadByte"):
					succ, rec := callSucceededOn(path, i, call)
					if !rec {
						if i == len(path)-1 {
							continue // last block: the call's outcome does not matter for a return path evaluated before it
						}
						ok = false
						desc += " ?" + cc.Method.Name()
						continue
					}
					if succ {
						if cc.Method.Name() == "ReadByte" {
							net++
							reads++
							desc += " ReadByte"
						} else {
							net--
							desc += " UnreadByte"
						}
					} else {
						desc += " " + cc.Method.Name() + "(err)"
					}
				case cc.IsInvoke() && cc.Method.Name() == "Peek":
					desc += " Peek"
				case cc.StaticCallee() != nil && cc.StaticCallee() == isSynced:
					desc += " IsSynced"
				case cc.IsInvoke():
					ok = false
					desc += " ?" + cc.Method.Name()
				}
			}
		}
		return
	}
	delta := func(v ssa.Value) (int64, bool) {
		v = stripConv(v)
		if v == ssa.Value(off) {
			return 0, true
		}
		if bo, ok := v.(*ssa.BinOp); ok && bo.Op == token.ADD {
			if bo.X == ssa.Value(off) {
				if k, ok := bo.Y.(*ssa.Const); ok {
					return k.Int64(), true
				}
			}
			if bo.Y == ssa.Value(off) {
				if k, ok := bo.X.(*ssa.Const); ok {
					return k.Int64(), true
				}
			}
		}
		return 0, false
	}
	nBack, nSucc := 0, 0
	for _, p := range paths {
		last := p[len(p)-1]
		var names []string
		for _, b := range p {
			names = append(names, fmt.Sprint(b.Index))
		}
		pd := "path " + strings.Join(names, "→")
		if last == H && len(p) > 1 {
			nBack++
			net, _, desc, ok := consumption(p)
			if !ok {
				c.undecided("C16.scan", anchor, "back-edge "+callSeq(desc), "unrecognised reader call on "+pd)
				continue
			}
			pred := p[len(p)-2]
			d, okd := delta(off.Edges[predIndex(H, pred)])
			if !okd {
				c.undecided("C16.scan", anchor, "back-edge "+callSeq(desc), "offset update is not offset+const on "+pd)
				continue
			}
			c.check("C16.scan", anchor, "iteration ["+callSeq(desc)+"]: Δoffset == bytes consumed", int64(net) == d,
				fmt.Sprintf("%s consumes %d byte(s) net but adds %d to the offset", pd, net, d))
			c.check("C16.scan", anchor, "iteration ["+callSeq(desc)+"]: consumes at least one byte (progress)", net >= 1, fmt.Sprintf("%s consumes %d", pd, net))
			continue
		}
		ret, isRet := last.Instrs[len(last.Instrs)-1].(*ssa.Return)
		if !isRet || len(ret.Results) != 2 {
			continue
		}
		if k, isConst := ret.Results[1].(*ssa.Const); isConst && k.Value == nil {
			nSucc++
			net, _, desc, ok := consumption(p)
			d, okd := delta(ret.Results[0])
			c.check("C16.scan", anchor, "success return ["+callSeq(desc)+"]: reader left on the sync byte (net consumption 0) and offset == bytes skipped", ok && okd && net == 0 && d == 0,
				fmt.Sprintf("%s: net consumption %d, returned offset = loop offset %+d", pd, net, d))
			// the success return is guarded by IsSynced's ok result
			guarded := false
			if len(p) >= 2 {
				prev := p[len(p)-2]
				if ifi, ok := prev.Instrs[len(prev.Instrs)-1].(*ssa.If); ok && prev.Succs[0] == last {
					if ex, ok := ifi.Cond.(*ssa.Extract); ok && ex.Index == 0 {
						if call, ok := ex.Tuple.(*ssa.Call); ok && call.Call.StaticCallee() == isSynced {
							guarded = true
						}
					}
				}
			}
			c.check("C16.scan", anchor, "success return is taken exactly on IsSynced == true", guarded, pd)
		} else {
			// error return: propagated error or EOF→not-found
			desc := sx(ret.Results[1])
			switch {
			case strings.HasSuffix(desc, "ErrSyncByteNotFound"):
				ok := false
				if d := last.Idom(); d != nil {
					if ifi, isIf := d.Instrs[len(d.Instrs)-1].(*ssa.If); isIf && d.Succs[0] == last {
						cs := sx(ifi.Cond)
						ok = strings.Contains(cs, "*@EOF") && strings.Contains(cs, "==")
					}
				}
				c.check("C16.scan", anchor, "not-found error only when a read/peek returned io.EOF ["+fmt.Sprint(last.Index)+"]", ok, pd)
			default:
				_, isExtract := ret.Results[1].(*ssa.Extract)
				_, isCall := ret.Results[1].(*ssa.Call)
				c.check("C16.scan", anchor, "other errors are returned unchanged ["+fmt.Sprint(last.Index)+"]", isExtract || isCall, "returns "+desc)
			}
		}
	}
	c.floorCheck("C16.scan back-edge paths", nBack, 2)
	c.floorCheck("C16.scan success returns", nSucc, 1)
	// every `err == io.EOF` true edge returns the not-found error
	for _, b := range fn.Blocks {
		ifi, ok := b.Instrs[len(b.Instrs)-1].(*ssa.If)
		if !ok {
			continue
		}
		cs := sx(ifi.Cond)
		if strings.Contains(cs, "*@EOF") && strings.Contains(cs, "==") {
			t := b.Succs[0]
			ret, isRet := t.Instrs[len(t.Instrs)-1].(*ssa.Return)
			ok := isRet && len(ret.Results) == 2 && strings.HasSuffix(sx(ret.Results[1]), "ErrSyncByteNotFound")
			c.check("C16.scan", anchor, fmt.Sprintf("io.EOF maps to the sync-not-found error [%d]", b.Index), ok, "EOF branch does not return ErrSyncByteNotFound")
		}
	}
}

func callSeq(desc string) string { return strings.TrimSpace(desc) }
