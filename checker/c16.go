package main

import (
	"fmt"
	"go/types"
	"sort"
	"strings"

	"golang.org/x/tools/go/ssa"
)

func runC16(c *Checker) {
	c.Level = "other"
	c.explain = "Decides two structural parts. (1) IsSynced: interpreted for each of the 8192 PID values with the rest of the peeked header symbolic; it must answer true exactly under no-peek-error ∧ b0 == 0x47 ∧ adaptation_field_control ≠ 00 ∧ PID ∉ [4,15]. (2) Sync's step: one abstract iteration of the scan loop from a symbolic offset with the reader's methods and IsSynced uninterpreted, decided by cases on their results: a byte other than 0x47 and a 0x47 that IsSynced refuses continue the search with the offset grown by exactly the bytes consumed (successful ReadByte minus successful UnreadByte among the calls executed in that case, at least one); a 0x47 that IsSynced accepts returns the offset with nothing consumed since the iteration began (the reader stands on the sync byte, and IsSynced looked at this position); the end of the stream, also inside the header IsSynced peeks at, gives the not-found error; the offset starts at 0. Does not decide: 'first such position' for concrete streams (consequence of byte-by-byte monotone scanning, argued) and bufio's behaviour."
	c.trust("go/ssa + go/types (x/tools v0.29.0)", "E1 transfer functions", "Peek(n) consumes nothing; ReadByte consumes one byte iff it returns a nil error; UnreadByte gives one back iff it returns nil (bufio contract)")
	c.checkIsSynced()
	c.checkSyncLoop()
}

func (c *Checker) checkIsSynced() {
	const anchor = "packet:IsSynced"
	fn, err := c.P.Func(anchor)
	if err != nil {
		c.undecided("C16.predicate", anchor, "anchor", err.Error())
		return
	}
	c.analysed[fn.String()] = true
	var fails []string
	n := 0
	for pid := 0; pid < 8192 && len(fails) < 3; pid++ {
		var in0 *Interp
		var peekErr Val
		s := Analyze(c.P, fn, &AnalyzeOpts{Setup: func(in *Interp) {
			in0 = in
			in.InvokeHook = func(recv Val, m *types.Func, args []Val, rt types.Type, st *State) (Val, bool) {
				if m.Name() != "Peek" {
					return nil, false
				}
				if k, ok := args[0].(*BV); !ok {
					return nil, false
				} else if kv, ok := k.ConstInt(); !ok || kv != 4 {
					return nil, false
				}
				o := in.newObj("peek", "lazy", byteT, true)
				o.Seq, o.N, o.Len = true, 4, constInt(4, 64, true)
				b1 := &BV{W: 8, Bits: append([]Bit(nil), cellBV("peek", 1).Bits...)}
				for k := 0; k < 5; k++ {
					b1.Bits[k] = bconst(pid>>(8+uint(k))&1 == 1)
				}
				in.setCell(st, o, "1", b1)
				in.setCell(st, o, "2", constInt(int64(pid&0xff), 8, false))
				peekErr = &OpaqueV{Why: "peek.err", T: rt.(*types.Tuple).At(1).Type()}
				return &StructV{T: rt, Fields: []Val{&SliceV{Obj: o, Lo: constInt(0, 64, true), Len: o.Len, Elem: byteT}, peekErr}}, true
			}
		}})
		n++
		tag := fmt.Sprintf("PID=%#x: ", pid)
		if s.Failed != "" {
			fails = append(fails, tag+s.Failed)
			continue
		}
		if peekErr == nil {
			fails = append(fails, tag+"does not peek 4 bytes")
			continue
		}
		noErr := in0.nilBit(peekErr)
		want := U.B0
		if pid < 4 || pid > 15 {
			want = andAll(noErr, eqConst(cellBV("peek", 0).Bits, 0x47), bnot(eqConst(cellBV("peek", 3).Bits[4:6], 0)))
		}
		ret, _ := s.RetN(0).(*BV)
		if ret == nil || ret.W != 1 {
			fails = append(fails, tag+"non-boolean result")
			continue
		}
		if eq, dec, det := equivBits(ret.Bits[0], want, 14); !(eq && dec) {
			fails = append(fails, tag+"answers "+ret.Bits[0].String()+", expected "+want.String()+" ("+det+")")
		}
		// error result: the peek error when it failed, nil otherwise
		e := s.RetN(1)
		okErr := false
		for _, lf := range muxLeaves(e) {
			if _, isNil := lf.(NilV); isNil || sameVal(lf, peekErr) {
				okErr = true
			} else {
				okErr = false
				break
			}
		}
		if !okErr {
			fails = append(fails, tag+"error result is "+showVal(e))
		} else if eq, dec, _ := equivBits(in0.nilBit(e), noErr, 8); !(eq && dec) {
			// nil error exactly when Peek succeeded
			fails = append(fails, tag+"error result is not the Peek error: "+showVal(e))
		}
	}
	sort.Strings(fails)
	d := ""
	if len(fails) > 0 {
		d = fmt.Sprintf("%d PIDs fail; first: %s", len(fails), fails[0])
	}
	c.check("C16.predicate", anchor, "all 8192 PIDs: true ⇔ Peek(4) ok ∧ b0 == 0x47 ∧ AFC (b3[5:4]) ≠ 00 ∧ PID ∉ [0x4,0xF]; Peek error returned as is", len(fails) == 0, d)
	c.floorCheck("C16.predicate PIDs evaluated", n, 8192)
}

func (c *Checker) checkSyncLoop() {
	const anchor = "packet:Sync"
	const rule = "C16.scan"
	fn, err := c.P.Func(anchor)
	if err != nil {
		c.undecided(rule, anchor, "anchor", err.Error())
		return
	}
	c.analysed[fn.String()] = true
	isSynced, _ := c.P.Func("packet:IsSynced")
	// one abstract iteration of the scan loop from a symbolic offset; the
	// reader's methods and IsSynced (decided above) are uninterpreted
	ls, err := AnalyzeLoop(c.P, fn, &AnalyzeOpts{Setup: func(in *Interp) {
		prev := in.OpaqueFn
		in.OpaqueFn = func(f *ssa.Function) bool { return f == isSynced || (prev != nil && prev(f)) }
	}})
	if err != nil {
		c.undecided(rule, anchor, "loop step", err.Error())
		return
	}
	in := ls.Sum.in
	var offPhi *ssa.Phi
	for _, p := range ls.Phis {
		if w, _, ok := intWidth(p.Type()); ok && w == 64 {
			if offPhi != nil {
				offPhi = nil
				break
			}
			offPhi = p
		}
	}
	var reads, unreads, syncs, others []*Event
	for k := range ls.Sum.Events {
		e := &ls.Sum.Events[k]
		if e.Kind != "call" {
			continue
		}
		switch {
		case strings.HasSuffix(e.Note, ").ReadByte"):
			reads = append(reads, e)
		case strings.HasSuffix(e.Note, ").UnreadByte"):
			unreads = append(unreads, e)
		case strings.HasSuffix(e.Note, "packet.IsSynced"):
			syncs = append(syncs, e)
		default:
			others = append(others, e)
		}
	}
	if offPhi == nil || len(reads) != 2 || len(unreads) != 1 || len(syncs) != 1 || len(others) != 0 {
		c.undecided(rule, anchor, "loop step", fmt.Sprintf("the iteration is not of the form ReadByte, UnreadByte, IsSynced, ReadByte with one 64-bit offset (%d ReadByte, %d UnreadByte, %d IsSynced, %d other calls)", len(reads), len(unreads), len(syncs), len(others)))
		return
	}
	off := ls.Pre[offPhi].(*BV)
	field := func(e *Event, k int) Val {
		if sv, ok := e.Val.(*StructV); ok && k < len(sv.Fields) {
			return sv.Fields[k]
		}
		if k == 0 {
			return e.Val
		}
		return nil
	}
	b1, _ := field(reads[0], 0).(*BV)
	okV, _ := field(syncs[0], 0).(*BV)
	if b1 == nil || b1.W != 8 || okV == nil || okV.W != 1 || field(reads[0], 1) == nil || field(reads[1], 1) == nil || field(syncs[0], 1) == nil {
		c.undecided(rule, anchor, "loop step", "unexpected result shapes of the reader calls")
		return
	}
	e1, e2, e3, e4 := field(reads[0], 1), field(unreads[0], 0), field(syncs[0], 1), field(reads[1], 1)
	n1, n2, n3, n4 := in.nilBit(e1), in.nilBit(e2), in.nilBit(e3), in.nilBit(e4)
	isSync := bvEq(b1, constInt(0x47, 8, false))
	ok := okV.Bits[0]
	eof := func(e Val) Bit { return in.eqBit(e, SymConst{Name: "io.EOF"}) }
	// bytes consumed in the iteration under the facts: successful ReadByte
	// minus successful UnreadByte among the calls that are executed; upTo
	// stops before that event (position of the reader when it is called)
	consumed := func(fs *factSet, upTo *Event) (int, string) {
		net := 0
		for k := range ls.Sum.Events {
			e := &ls.Sum.Events[k]
			if e == upTo {
				break
			}
			if e.Kind != "call" || e == syncs[0] {
				continue
			}
			run := fs.bit(e.Cond)
			if !isConst(run) {
				return 0, "whether " + e.Note + " is called depends on " + run.String()
			}
			if !run.c {
				continue
			}
			var errV Val
			d := 1
			if e == unreads[0] {
				errV, d = field(e, 0), -1
			} else {
				errV = field(e, 1)
			}
			nb := fs.bit(in.nilBit(errV))
			if !isConst(nb) {
				return 0, "the outcome of " + e.Note + " is not fixed by the case"
			}
			if nb.c {
				net += d
			}
		}
		return net, ""
	}
	type cse struct {
		name  string
		facts []Bit
	}
	with := func(cs cse) *factSet {
		fs := newFactSet(nil)
		for _, f := range cs.facts {
			fs.assume(f)
		}
		return fs
	}
	// iterations that go on
	for _, cs := range []cse{
		{"the byte read is not 0x47", []Bit{n1, bnot(isSync)}},
		{"0x47 that IsSynced refuses (false sync byte)", []Bit{n1, isSync, n2, bnot(ok), n3, n4}},
	} {
		fs := with(cs)
		cont := fs.bit(ls.Cond)
		net, why := consumed(fs, nil)
		next, _ := fs.val(ls.Next[offPhi]).(*BV)
		want := bvAdd(off, constInt(int64(net), 64, true), false)
		good := why == "" && isConst(cont) && cont.c && next != nil && sameBV(next, want) && net >= 1
		d := why
		if d == "" {
			d = fmt.Sprintf("continues under %s, consumes %d byte(s), next offset %s", cont, net, showVal(fs.val(ls.Next[offPhi])))
		}
		c.check(rule, anchor, cs.name+": the search goes on, the offset grows by the bytes consumed, at least one", good, d)
		if cs.name == "the byte read is not 0x47" {
			sc := fs.bit(syncs[0].Cond)
			c.check(rule, anchor, cs.name+": the position is not offered to IsSynced", isConst(sc) && !sc.c, "IsSynced called under "+sc.String())
		}
	}
	// success
	{
		cs := cse{"0x47 that IsSynced accepts", []Bit{n1, isSync, n2, ok, n3}}
		fs := with(cs)
		cont := fs.bit(ls.Cond)
		netAtTest, why1 := consumed(fs, syncs[0])
		net, why2 := consumed(fs, nil)
		r0, _ := fs.val(ls.Sum.RetN(0)).(*BV)
		_, nilErr := fs.val(ls.Sum.RetN(1)).(NilV)
		d := why1 + why2
		good := d == "" && isConst(cont) && !cont.c && nilErr && r0 != nil &&
			sameBV(r0, bvAdd(off, constInt(int64(net), 64, true), false)) && netAtTest == net && net == 0
		if d == "" {
			d = fmt.Sprintf("continues under %s; result (%s, %s); %d byte(s) consumed when IsSynced looks, %d at the return", cont, showVal(fs.val(ls.Sum.RetN(0))), showVal(fs.val(ls.Sum.RetN(1))), netAtTest, net)
		}
		c.check(rule, anchor, cs.name+": returned without error, the offset is the number of bytes skipped and the reader stands on that byte (nothing consumed since the iteration began, IsSynced looked at this position)", good, d)
	}
	// end of stream
	for _, cs := range []cse{
		{"the stream ends", []Bit{bnot(n1), eof(e1)}},
		{"the stream ends inside the header IsSynced looks at", []Bit{n1, isSync, n2, bnot(ok), bnot(n3), eof(e3)}},
	} {
		fs := with(cs)
		cont := fs.bit(ls.Cond)
		got := fs.val(ls.Sum.RetN(1))
		c.check(rule, anchor, cs.name+": the sync-not-found error", isConst(cont) && !cont.c && showVal(got) == "gots.ErrSyncByteNotFound", fmt.Sprintf("continues under %s; result error %s", cont, showVal(got)))
	}
	// the search starts at offset 0
	init, _ := ls.Init[offPhi].(*BV)
	k, isK := int64(-1), false
	if init != nil {
		k, isK = init.ConstInt()
	}
	c.check(rule, anchor, "the offset starts at 0", isK && k == 0, "initial offset "+showVal(ls.Init[offPhi]))
}
