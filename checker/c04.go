package main

import (
	"fmt"
	"go/types"
	"sort"
)

// PTS/DTS 5-byte layout, ISO/IEC 13818-1 §2.4.3.7 (Table 2-21): value bits
// 32..30 = b0[3:1], 29..22 = b1, 21..15 = b2[7:1], 14..7 = b3, 6..0 = b4[7:1];
// b0[7:4] is the '0010'/'0011'/'0001' prefix, b0.0, b2.0, b4.0 are markers.
var ptsLayout = []seg{{0, 3, 1}, {1, 7, 0}, {2, 7, 1}, {3, 7, 0}, {4, 7, 1}}

// PCR 6-byte layout, ISO/IEC 13818-1 §2.4.3.5: base[32:0] = b0‖b1‖b2‖b3‖b4.7,
// reserved = b4[6:1], extension[8:0] = b4.0‖b5.
var pcrBaseLayout = []seg{{0, 7, 0}, {1, 7, 0}, {2, 7, 0}, {3, 7, 0}, {4, 7, 7}}
var pcrExtLayout = []seg{{4, 0, 0}, {5, 7, 0}}

var byteT = types.Typ[types.Uint8]

// seedCells stores the given abstract bytes into consecutive cells of o.
func seedCells(in *Interp, st *State, o *Obj, from int, vals []*BV) {
	for i, v := range vals {
		in.setCell(st, o, fmt.Sprint(from+i), v)
	}
}

// expectedPTSBytes is the reference encoder: 5 bytes for a 33-bit value with
// the given 4-bit prefix; marker bits 1.
func expectedPTSBytes(v []Bit, prefix uint) []*BV {
	mk := func(bits ...Bit) *BV { // MSB first
		r := &BV{W: 8, Bits: make([]Bit, 8)}
		for i, b := range bits {
			r.Bits[7-i] = b
		}
		return r
	}
	c := func(k uint) Bit { return bconst(k != 0) }
	return []*BV{
		mk(c(prefix&8), c(prefix&4), c(prefix&2), c(prefix&1), v[32], v[31], v[30], U.B1),
		mk(v[29], v[28], v[27], v[26], v[25], v[24], v[23], v[22]),
		mk(v[21], v[20], v[19], v[18], v[17], v[16], v[15], U.B1),
		mk(v[14], v[13], v[12], v[11], v[10], v[9], v[8], v[7]),
		mk(v[6], v[5], v[4], v[3], v[2], v[1], v[0], U.B1),
	}
}

// pcrTerms builds the reference quotient/remainder of a 64-bit value by 300,
// in the two accepted spellings of the remainder.
func pcrTerms(pcr *BV) (q *BV, rs []*BV) {
	k300 := constInt(300, 64, false)
	q = bvArith("quo", pcr, k300)
	rs = []*BV{
		bvAdd(pcr, bvArith("mul", q, k300), true), // pcr - q*300
		bvArith("rem", pcr, k300),                 // pcr % 300
	}
	return
}

func expectedPCRBytes(q, r *BV) []*BV {
	mk := func(bits ...Bit) *BV {
		x := &BV{W: 8, Bits: make([]Bit, 8)}
		for i, b := range bits {
			x.Bits[7-i] = b
		}
		return x
	}
	b := func(v *BV, hi int) *BV {
		x := &BV{W: 8, Bits: make([]Bit, 8)}
		for i := 0; i < 8; i++ {
			x.Bits[i] = v.Bits[hi-7+i]
		}
		return x
	}
	one := U.B1
	return []*BV{b(q, 32), b(q, 24), b(q, 16), b(q, 8),
		mk(q.Bits[0], one, one, one, one, one, one, r.Bits[8]), b(r, 7)}
}

// checkWindowCells compares cells [from, from+len(want)) of o with want and
// requires every other cell of o to be untouched.
func (c *Checker) checkWindowCells(rule, anchor, what string, s *Summary, o *Obj, from int, want []*BV, ncells int) bool {
	if s.Out.havoc[o] > 0 {
		return c.check(rule, anchor, what, false, "store through a non-constant index")
	}
	for i := 0; i < ncells; i++ {
		got, _ := s.Cell(o, fmt.Sprint(i), byteT).(*BV)
		exp := cellBV(o.Name, i).Bits
		if i >= from && i < from+len(want) {
			exp = want[i-from].Bits
		}
		if ok, d := matchBits(got, exp); !ok {
			return c.check(rule, anchor, what, false, fmt.Sprintf("cell %d: %s", i, d))
		}
	}
	// cells beyond ncells that were written
	for k := range s.Out.cells[o] {
		var idx int
		fmt.Sscan(k, &idx)
		if idx >= ncells {
			got, _ := s.Cell(o, k, byteT).(*BV)
			if ok, _ := matchBits(got, cellBV(o.Name, idx).Bits); !ok {
				return c.check(rule, anchor, what, false, fmt.Sprintf("cell %d beyond the field is written", idx))
			}
		}
	}
	return c.check(rule, anchor, what, true, "")
}

func runC04(c *Checker) {
	c.Level = "proof"
	c.explain = "E1 bit-provenance analysis of the six loop-free codec functions and of their users: decoders must return exactly the value bits of ISO 13818-1 §2.4.3.5/§2.4.3.7 (so no reserved/marker bit can influence the result), encoders must overwrite exactly their 5/6 cells with value bits at the table's positions and reserved/marker bits constant 1, decoder∘encoder is checked by feeding the encoder's abstract output cells to the decoder, and the adaptation-field / PES users must hand the codec the table's window for each of the 32 optional-field flag combinations."
	c.trust("go/ssa + go/types (x/tools v0.29.0)", "E1 transfer functions", "layout tables ptsLayout/pcrBaseLayout/pcrExtLayout transcribed from ISO/IEC 13818-1",
		"lemma: for pcr < 2^33*300, q = pcr div 300 < 2^33 fits the 33 base bits, r = pcr - 300q < 300 < 2^9 fits the extension, 300q + r = pcr")

	// 1. PTS decoders
	for _, a := range []string{":ExtractTime", "pes:ExtractTime"} {
		s, _ := c.summary("C04.decode", a, nil)
		if s == nil {
			continue
		}
		ret, _ := s.RetN(0).(*BV)
		ok, d := matchBits(ret, fieldBits(paramName(s, 0), ptsLayout))
		c.check("C04.decode", a, "result == 33 value bits of the PTS layout; marker/prefix bits absent", ok, d)
		c.check("C04.decode", a, "read-only", len(s.WrittenCells()) == 0, fmt.Sprint(s.WrittenCells()))
	}
	// sibling
	{
		ren := &AnalyzeOpts{Rename: map[string]string{"#0": "B"}}
		a, _ := c.summary("C04.sibling", ":ExtractTime", ren)
		b, _ := c.summary("C04.sibling", "pes:ExtractTime", ren)
		if a != nil && b != nil {
			ok, d := sameResult(a, b)
			c.check("C04.sibling", ":ExtractTime ~ pes:ExtractTime", "identical provenance", ok, d)
		}
	}
	// 2. PCR decoder
	if s, _ := c.summary("C04.decode", ":ExtractPCR", nil); s != nil {
		n := paramName(s, 0)
		base := bitsBV(fieldBits(n, pcrBaseLayout), 64)
		ext := bitsBV(fieldBits(n, pcrExtLayout), 64)
		want := bvAdd(bvArith("mul", base, constInt(300, 64, false)), ext, false)
		ret, _ := s.RetN(0).(*BV)
		ok := ret != nil && sameBV(ret, want)
		d := ""
		if !ok {
			d = fmt.Sprintf("result is %s, expected %s", showVal(s.RetN(0)), want)
		}
		c.check("C04.decode", ":ExtractPCR", "result == base(33 bits)*300 + ext(9 bits); reserved bits absent", ok, d)
		c.check("C04.decode", ":ExtractPCR", "read-only", len(s.WrittenCells()) == 0, fmt.Sprint(s.WrittenCells()))
	}
	// 3. PTS encoder
	var ptsOut []*BV
	if s, _ := c.summary("C04.encode", ":InsertPTS", &AnalyzeOpts{Args: map[string]Val{"pts": uintArg("pts", 33, 64, false)}}); s != nil {
		v := uintArg("pts", 33, 64, false).Bits[:33]
		want := expectedPTSBytes(v, 2)
		if c.checkWindowCells("C04.encode", ":InsertPTS", "cells 0..4 = '0010' prefix, value bits, markers 1; nothing else written", s, paramObj(s, 0), 0, want, 16) {
			ptsOut = want
		}
	}
	// 4. PCR encoder
	var pcrOut []*BV
	if s, _ := c.summary("C04.encode", ":InsertPCR", nil); s != nil {
		pcr := srcBV(U.source("param", "pcr", 64), false)
		q, rs := pcrTerms(pcr)
		o := paramObj(s, 0)
		matched := false
		for _, r := range rs {
			want := expectedPCRBytes(q, r)
			good := s.Out.havoc[o] == 0
			for i := 0; i < 6 && good; i++ {
				got, _ := s.Cell(o, fmt.Sprint(i), byteT).(*BV)
				good = got != nil && sameBV(got, want[i])
			}
			if good {
				matched = c.checkWindowCells("C04.encode", ":InsertPCR", "cells 0..5 = (pcr div 300)[32:0], six reserved 1 bits, (pcr mod 300)[8:0]; nothing else written", s, o, 0, want, 16)
				pcrOut = want
				break
			}
		}
		if !matched && pcrOut == nil {
			want := expectedPCRBytes(q, rs[0])
			c.checkWindowCells("C04.encode", ":InsertPCR", "cells 0..5 = (pcr div 300)[32:0], six reserved 1 bits, (pcr mod 300)[8:0]; nothing else written", s, o, 0, want, 16)
		}
	}
	// 5. decoder ∘ encoder
	if ptsOut != nil {
		for _, a := range []string{":ExtractTime", "pes:ExtractTime"} {
			s, _ := c.summary("C04.roundtrip", a, &AnalyzeOpts{Pre: func(in *Interp, st *State, ps []Val) {
				seedCells(in, st, ps[0].(*SliceV).Obj, 0, ptsOut)
			}})
			if s == nil {
				continue
			}
			ret, _ := s.RetN(0).(*BV)
			ok, d := matchBits(ret, uintArg("pts", 33, 64, false).Bits[:33])
			c.check("C04.roundtrip", a+" ∘ :InsertPTS", "identity on 33-bit values", ok, d)
		}
	}
	if pcrOut != nil {
		s, _ := c.summary("C04.roundtrip", ":ExtractPCR", &AnalyzeOpts{Pre: func(in *Interp, st *State, ps []Val) {
			seedCells(in, st, ps[0].(*SliceV).Obj, 0, pcrOut)
		}})
		if s != nil {
			// result must be 300*q[32:0] + r[8:0] for the encoder's own q, r
			pcr := srcBV(U.source("param", "pcr", 64), false)
			q, rs := pcrTerms(pcr)
			ret, _ := s.RetN(0).(*BV)
			ok := false
			for _, r := range rs {
				want := bvAdd(bvArith("mul", bitsBV(q.Bits[:33], 64), constInt(300, 64, false)), bitsBV(r.Bits[:9], 64), false)
				if ret != nil && sameBV(ret, want) {
					ok = true
				}
			}
			c.check("C04.roundtrip", ":ExtractPCR ∘ :InsertPCR", "result == 300*(pcr div 300)[32:0] + (pcr mod 300)[8:0] (= pcr by the div/mod lemma for pcr < 2^33*300)", ok, "result is "+showVal(s.RetN(0)))
		}
	}
	c.checkPCRWindows()
	c.checkPESTimestamps()
}

// checkPESTimestamps: the end-to-end clause for PES headers. NewPESHeader is
// interpreted on headers that end exactly at the last timestamp byte, one byte
// later and well beyond, for three stream ids with an optional header; the
// getters of the returned object must report the 33 value bits of the windows
// 9..13 (PTS) and 14..18 (DTS) and the presence flags.
func (c *Checker) checkPESTimestamps() {
	const anchor = "pes:NewPESHeader"
	fn, err := c.P.Func(anchor)
	if err != nil {
		c.undecided("C04.pes", anchor, "anchor", err.Error())
		return
	}
	c.analysed[fn.String()] = true
	var fails []string
	runs := 0
	for _, id := range []int{0xE0, 0xC0, 0xBD} {
		for _, flags := range []int{2, 3} {
			min := 14
			if flags == 3 {
				min = 19
			}
			for _, n := range []int{min, min + 1, 64} {
				s := Analyze(c.P, fn, &AnalyzeOpts{SliceLen: map[string]int{"pesBytes": n}, Pre: func(in *Interp, st *State, ps []Val) {
					o := ps[0].(*SliceV).Obj
					in.setCell(st, o, "3", constInt(int64(id), 8, false))
					b7 := &BV{W: 8, Bits: append([]Bit(nil), cellBV(o.Name, 7).Bits...)}
					b7.Bits[7], b7.Bits[6] = bconst(flags&2 != 0), bconst(flags&1 != 0)
					in.setCell(st, o, "7", b7)
				}})
				runs++
				tag := fmt.Sprintf("stream_id=%#x PTS_DTS_flags=%02b len=%d: ", id, flags, n)
				if s.Failed != "" {
					fails = append(fails, tag+s.Failed)
					continue
				}
				if nb := s.in.nilBit(s.RetN(1)); !isConst(nb) || !nb.c {
					fails = append(fails, tag+"returns an error for a complete header")
					continue
				}
				nv := &nav{s.in, s.Out}
				name := paramName(s, 0)
				get := func(m string, w int, want []Bit) {
					got, _ := nv.call(s.RetN(0), m).(*BV)
					if got == nil || got.W != w {
						fails = append(fails, tag+m+"() is "+showVal(got))
						return
					}
					if ok, d := matchBits(got, want); !ok {
						fails = append(fails, tag+m+"(): "+d)
					}
				}
				get("HasPTS", 1, []Bit{U.B1})
				get("HasDTS", 1, []Bit{bconst(flags == 3)})
				get("PTS", 64, fieldBitsAt(name, ptsLayout, 9))
				if flags == 3 {
					get("DTS", 64, fieldBitsAt(name, ptsLayout, 14))
				} else {
					get("DTS", 64, nil)
				}
				if w := s.WrittenCells(); len(w) > 0 {
					fails = append(fails, tag+fmt.Sprintf("input modified: %v", w))
				}
			}
		}
	}
	sort.Strings(fails)
	d := ""
	if len(fails) > 0 {
		d = fmt.Sprintf("%d mismatches; first: %s", len(fails), fails[0])
	}
	c.check("C04.pes", anchor, "a PTS/DTS carried in a PES header is read back: for headers ending exactly at the last timestamp byte, one byte later and 64 bytes long, PTS()/DTS() are the 33 value bits of windows 9..13 / 14..18 and HasPTS/HasDTS follow PTS_DTS_flags", len(fails) == 0, d)
	c.floorCheck("C04.pes analyses", runs, 18)
}

// afSeed seeds an AdaptationField receiver: AF flag set, the five presence
// flags of byte 5 constant (mask bits 4..0 = PCR, OPCR, splice, private,
// extension), every other bit symbolic.
func afSeed(flags uint) func(in *Interp, st *State, ps []Val) {
	return func(in *Interp, st *State, ps []Val) {
		o := ps[0].(*Ptr).Obj
		b3 := cellBV(o.Name, 3)
		b3 = &BV{W: 8, Bits: append([]Bit(nil), b3.Bits...)}
		b3.Bits[5] = U.B1
		in.setCell(st, o, "3", b3)
		b5 := cellBV(o.Name, 5)
		b5 = &BV{W: 8, Bits: append([]Bit(nil), b5.Bits...)}
		for k := 0; k < 5; k++ {
			b5.Bits[k] = bconst(flags>>uint(k)&1 == 1)
		}
		in.setCell(st, o, "5", b5)
	}
}

// checkPCRWindows: SetPCR/PCR/SetOPCR/OPCR use the 6-byte window at
// 6 (PCR) resp. 6+6·[PCR] (OPCR) under every combination of the five
// presence flags, guarded by adaptation_field_length ≠ 0 and the field's flag.
func (c *Checker) checkPCRWindows() {
	n := 0
	for flags := uint(0); flags < 32; flags++ {
		hasPCR, hasOPCR := flags&0x10 != 0, flags&0x08 != 0
		for _, m := range []struct {
			anchor  string
			present bool
			start   int
			set     bool
		}{
			{"packet:(*AdaptationField).SetPCR", hasPCR, 6, true},
			{"packet:(*AdaptationField).PCR", hasPCR, 6, false},
			{"packet:(*AdaptationField).SetOPCR", hasOPCR, 6 + b2i(hasPCR)*6, true},
			{"packet:(*AdaptationField).OPCR", hasOPCR, 6 + b2i(hasPCR)*6, false},
		} {
			con := fmt.Sprintf("flags=%05b: ", flags)
			s, _ := c.summary("C04.window", m.anchor, &AnalyzeOpts{Pre: afSeed(flags)})
			if s == nil {
				continue
			}
			n++
			o := paramObj(s, 0)
			lenNZ := bnot(eqConst(cellBV(o.Name, 4).Bits, 0))
			errV := s.RetN(0)
			if !m.set {
				errV = s.RetN(1)
			}
			okBit := s.in.nilBit(errV) // success condition
			wantOK := U.B0
			if m.present {
				wantOK = lenNZ
			}
			eq, dec, det := equivBits(okBit, wantOK, 16)
			c.check("C04.window", m.anchor, con+"succeeds ⇔ field present ∧ adaptation_field_length ≠ 0", eq && dec, det)
			if !m.present {
				if m.set {
					c.check("C04.window", m.anchor, con+"absent field: packet unchanged", len(s.WrittenCells()) == 0, fmt.Sprint(s.WrittenCells()))
				}
				continue
			}
			if m.set {
				pcr := srcBV(U.source("param", "PCR", 64), false)
				q, rs := pcrTerms(pcr)
				good := false
				for _, r := range rs {
					want := expectedPCRBytes(q, r)
					// under success the window holds the encoding; otherwise unchanged
					allok := s.Out.havoc[o] == 0
					for i := 0; i < 188 && allok; i++ {
						got, _ := s.Cell(o, fmt.Sprint(i), byteT).(*BV)
						var exp *BV
						switch {
						case i == 3:
							exp = &BV{W: 8, Bits: append([]Bit(nil), cellBV(o.Name, 3).Bits...)}
							exp.Bits[5] = U.B1
						case i == 5:
							exp = &BV{W: 8, Bits: append([]Bit(nil), cellBV(o.Name, 5).Bits...)}
							for k := 0; k < 5; k++ {
								exp.Bits[k] = bconst(flags>>uint(k)&1 == 1)
							}
						case i >= m.start && i < m.start+6:
							exp = bvMux(lenNZ, want[i-m.start], cellBV(o.Name, i))
						default:
							exp = cellBV(o.Name, i)
						}
						if got == nil {
							allok = false
							break
						}
						if ok, _ := matchBits(got, exp.Bits); !ok {
							allok = false
						}
					}
					if allok {
						good = true
						break
					}
				}
				c.check("C04.window", m.anchor, con+fmt.Sprintf("writes the PCR encoding to cells %d..%d and nothing else", m.start, m.start+5), good, "window or frame mismatch")
			} else {
				base := bitsBV(fieldBitsAt(o.Name, pcrBaseLayout, m.start), 64)
				ext := bitsBV(fieldBitsAt(o.Name, pcrExtLayout, m.start), 64)
				want := bvAdd(bvArith("mul", base, constInt(300, 64, false)), ext, false)
				ret, _ := s.RetN(0).(*BV)
				// under success the value is the decode of the window
				ok := false
				if ret != nil {
					exp := bvMux(lenNZ, want, constInt(0, 64, false))
					ok = sameBV(ret, exp) || sameBV(ret, want)
				}
				c.check("C04.window", m.anchor, con+fmt.Sprintf("decodes cells %d..%d", m.start, m.start+5), ok, "result is "+showVal(s.RetN(0)))
				c.check("C04.window", m.anchor, con+"read-only", len(s.WrittenCells()) == 0, fmt.Sprint(s.WrittenCells()))
			}
		}
	}
	c.floorCheck("C04.window analyses (4 accessors x 32 flag combinations)", n, 128)
}

func b2i(b bool) int {
	if b {
		return 1
	}
	return 0
}

func fieldBitsAt(obj string, segs []seg, off int) []Bit {
	s2 := make([]seg, len(segs))
	for i, s := range segs {
		s2[i] = seg{s.Cell + off, s.Hi, s.Lo}
	}
	return fieldBits(obj, s2)
}
