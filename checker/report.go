package main

import (
	"encoding/json"
	"fmt"
	"os"
	"path/filepath"
	"sort"
	"strconv"
	"strings"
	"time"
)

// Obligation is one unit of proof work, keyed by rule/function/construct
// (never by line).
type Obligation struct {
	Rule      string `json:"rule"`
	Func      string `json:"function"`
	Construct string `json:"construct"`
	Status    string `json:"status"` // proved | violated | undecided | known
	Detail    string `json:"detail,omitempty"`
	Pos       string `json:"pos,omitempty"`
}

func (o Obligation) Key() string { return o.Rule + " / " + o.Func + " / " + o.Construct }

// Finding is an entry of /verif/known_findings.json.
type Finding struct {
	Property  string `json:"property"`
	Rule      string `json:"rule"`
	Func      string `json:"function"`
	Construct string `json:"construct"`
	WhatFails string `json:"what_fails"`
	Witness   string `json:"witness_input"`
}

type findingsFile struct {
	Findings []Finding `json:"findings"`
	Fixed    []string  `json:"fixed"`
}

type Checker struct {
	P        *Program
	Prop     string
	Tier     string
	VerifDir string
	Level    string
	start    time.Time
	obs      []Obligation
	seen     map[string]bool
	floors   []floor
	trusted  []string
	assume   []string
	explain  string
	analysed map[string]bool // functions analysed
	extra    map[string]interface{}
}

type floor struct {
	name      string
	got, want int
}

func newChecker(P *Program, prop, tier, verif string) *Checker {
	return &Checker{P: P, Prop: prop, Tier: tier, VerifDir: verif, start: time.Now(), seen: map[string]bool{},
		analysed: map[string]bool{}, extra: map[string]interface{}{}, Level: "other", trusted: []string{}, assume: []string{}}
}

func (c *Checker) add(o Obligation) {
	k := o.Key()
	if c.seen[k] {
		// same construct reached twice (e.g. two contexts): keep the worst
		for i := range c.obs {
			if c.obs[i].Key() == k {
				if rank(o.Status) > rank(c.obs[i].Status) {
					c.obs[i] = o
				}
				return
			}
		}
	}
	c.seen[k] = true
	c.obs = append(c.obs, o)
}

func rank(s string) int {
	switch s {
	case "proved":
		return 0
	case "undecided":
		return 1
	}
	return 2
}

// check records an obligation that is proved iff ok.
func (c *Checker) check(rule, fn, construct string, ok bool, detail string) bool {
	st := "proved"
	if !ok {
		st = "violated"
	} else {
		detail = ""
	}
	c.add(Obligation{Rule: rule, Func: fn, Construct: construct, Status: st, Detail: detail})
	return ok
}

func (c *Checker) undecided(rule, fn, construct, detail string) {
	c.add(Obligation{Rule: rule, Func: fn, Construct: construct, Status: "undecided", Detail: detail})
}

func (c *Checker) floorCheck(name string, got, want int) {
	c.floors = append(c.floors, floor{name, got, want})
}

func (c *Checker) trust(s ...string)    { c.trusted = append(c.trusted, s...) }
func (c *Checker) assuming(s ...string) { c.assume = append(c.assume, s...) }

func loadFindings(verif string) (*findingsFile, error) {
	var ff findingsFile
	b, err := os.ReadFile(filepath.Join(verif, "known_findings.json"))
	if err != nil {
		if os.IsNotExist(err) {
			return &ff, nil
		}
		return nil, err
	}
	if err := json.Unmarshal(b, &ff); err != nil {
		return nil, fmt.Errorf("known_findings.json: %v", err)
	}
	return &ff, nil
}

// finish prints the verdict, writes evidence and returns the exit code.
func (c *Checker) finish(evidPath string) int {
	ff, err := loadFindings(c.VerifDir)
	if err != nil {
		fmt.Println("ERROR:", err)
		return 2
	}
	known := map[string]Finding{}
	for _, f := range ff.Findings {
		if f.Property == c.Prop {
			known[f.Rule+" / "+f.Func+" / "+f.Construct] = f
		}
	}
	assumed := map[string]string{}
	if b, err := os.ReadFile(filepath.Join(c.VerifDir, "assumed_safe.json")); err == nil {
		var af struct {
			AssumedSafe []struct {
				Property, Rule, Function, Construct, Argument string
			} `json:"assumed_safe"`
		}
		if err := json.Unmarshal(b, &af); err != nil {
			fmt.Println("ERROR: assumed_safe.json:", err)
			return 2
		}
		for _, a := range af.AssumedSafe {
			if a.Property == c.Prop {
				assumed[a.Rule+" / "+a.Function+" / "+a.Construct] = a.Argument
			}
		}
	}
	nAssumed := 0
	usedAssumed := map[string]bool{}
	sort.SliceStable(c.obs, func(i, j int) bool { return c.obs[i].Key() < c.obs[j].Key() })
	var bad []Obligation
	nProved, nKnown := 0, 0
	usedKnown := map[string]bool{}
	for i := range c.obs {
		o := &c.obs[i]
		switch o.Status {
		case "proved":
			nProved++
		default:
			if arg, ok := assumed[o.Key()]; ok && o.Status == "violated" {
				o.Status = "assumed-safe"
				o.Detail = "hand argument: " + arg
				nAssumed++
				usedAssumed[o.Key()] = true
			} else if f, ok := known[o.Key()]; ok && o.Status == "violated" {
				o.Status = "known"
				nKnown++
				usedKnown[o.Key()] = true
				fmt.Printf("KNOWN-FINDING: property=%s %s :: %s\n", c.Prop, o.Key(), f.WhatFails)
			} else {
				bad = append(bad, *o)
			}
		}
	}
	// a listed finding that no longer fires is reported (not an error): the
	// file is never modified at run time
	for k := range assumed {
		if !usedAssumed[k] {
			fmt.Printf("NOTE: assumed-safe entry not needed (site proved or gone): %s\n", k)
		}
	}
	for k := range known {
		if !usedKnown[k] {
			fmt.Printf("NOTE: listed finding no longer reproduced: %s\n", k)
		}
	}
	for _, fl := range c.floors {
		if fl.got < fl.want {
			bad = append(bad, Obligation{Rule: "floor", Func: fl.name, Construct: fmt.Sprintf("matched %d < expected %d", fl.got, fl.want),
				Status: "undecided", Detail: "rule instance count fell below the hand-confirmed floor: the rule would pass vacuously"})
		}
	}
	replay := ""
	if len(bad) > 0 {
		replay = filepath.Join(c.VerifDir, "evidence", c.Prop+".violation.json")
		if evidPath != "" {
			replay = strings.TrimSuffix(evidPath, ".json") + ".violation.json"
		}
		for _, o := range bad {
			fmt.Printf("  %s: %s\n      %s %s\n", strings.ToUpper(o.Status), o.Key(), o.Detail, o.Pos)
		}
		b, _ := json.MarshalIndent(map[string]interface{}{"property": c.Prop, "tier": c.Tier, "violations": bad}, "", " ")
		os.MkdirAll(filepath.Dir(replay), 0o755)
		os.WriteFile(replay, b, 0o644)
		fmt.Printf("VIOLATION property=%s replay=%s\n", c.Prop, replay)
	}
	// evidence
	seed := 0
	if s := os.Getenv("VERIF_SEED"); s != "" {
		seed, _ = strconv.Atoi(s)
	}
	ruleCounts := map[string]map[string]int{}
	for _, o := range c.obs {
		m := ruleCounts[o.Rule]
		if m == nil {
			m = map[string]int{}
			ruleCounts[o.Rule] = m
		}
		m[o.Status]++
	}
	var samples []interface{}
	perRule := map[string]int{}
	for _, o := range c.obs {
		if perRule[o.Rule] < 2 && len(samples) < 40 {
			perRule[o.Rule]++
			samples = append(samples, o)
		}
	}
	for _, o := range bad {
		samples = append(samples, o)
	}
	var fns []string
	for f := range c.analysed {
		fns = append(fns, f)
	}
	sort.Strings(fns)
	var floors []map[string]interface{}
	for _, fl := range c.floors {
		floors = append(floors, map[string]interface{}{"rule_instance": fl.name, "matched": fl.got, "floor": fl.want})
	}
	cov := map[string]interface{}{
		"obligations":         len(c.obs),
		"discharged":          nProved,
		"known_findings":      nKnown,
		"checker_cmd":         fmt.Sprintf("/verif/run.sh %s %s", c.Prop, c.Tier),
		"trusted_base":        c.trusted,
		"explanation":         c.explain,
		"samples":             samples,
		"rule_counts":         ruleCounts,
		"floors":              floors,
		"functions_analysed":  fns,
		"packages_loaded":     len(c.P.Pkgs),
		"ssa_functions":       c.P.NFunc,
		"evaluations":         len(c.obs),
		"distinct_nontrivial": len(c.seen),
		"rule":                "one obligation per rule/function/construct; distinct by that key; every obligation is a non-trivial proof task on the current source",
		// exhaustive: the obligations of a proof-level check cover the statement
		// itself; for level other the enumerated family is complete but the
		// property's space is not finite, so the flag stays false
		"exhaustive": c.Level == "proof",
	}
	for k, v := range c.extra {
		cov[k] = v
	}
	ev := map[string]interface{}{
		"property_id": c.Prop,
		"tier":        c.Tier,
		"seed":        seed,
		"level":       c.Level,
		"coverage":    cov,
		"assumptions": c.assume,
		"wall_s":      time.Since(c.start).Seconds(),
		"violations":  len(bad),
	}
	if dump := os.Getenv("VERIF_DUMP_OBS"); dump != "" {
		b, _ := json.MarshalIndent(c.obs, "", " ")
		os.WriteFile(dump, b, 0o644)
	}
	if evidPath != "" {
		b, _ := json.MarshalIndent(ev, "", " ")
		os.MkdirAll(filepath.Dir(evidPath), 0o755)
		if err := os.WriteFile(evidPath, b, 0o644); err != nil {
			fmt.Println("ERROR writing evidence:", err)
			return 2
		}
	}
	fmt.Printf("%s %s: %d obligations, %d proved, %d known findings, %d assumed safe, %d failing; %d functions analysed; %.1fs\n",
		c.Prop, c.Tier, len(c.obs), nProved, nKnown, nAssumed, len(bad), len(c.analysed), time.Since(c.start).Seconds())
	if len(bad) > 0 {
		return 1
	}
	return 0
}
