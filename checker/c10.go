package main

import (
	"encoding/json"
	"fmt"
	"go/token"
	"sort"
	"strings"

	"golang.org/x/tools/go/ssa"
)

// C10: SCTE-35 state tracker. The statement quantifies over call histories;
// what is decided are value-flow, ordering and invariant-maintenance facts
// about the three methods, each a necessary condition.

func isFieldLoad(v ssa.Value, name string) bool {
	u, ok := v.(*ssa.UnOp)
	if !ok || u.Op != token.MUL {
		return false
	}
	fa, ok := u.X.(*ssa.FieldAddr)
	return ok && fieldName(fa.X.Type(), fa.Field) == name
}

// mentionsField: the expression of v contains a load of the named field.
func mentionsField(v ssa.Value, name string) bool {
	var fn *ssa.Function
	if ins, ok := v.(ssa.Instruction); ok {
		fn = ins.Parent()
	}
	// the receiver by position, whatever it is called
	return strings.Contains(canonConstruct(fn, sx(v)), "*&$p0."+name)
}

func runC10(c *Checker) {
	c.Level = "other"
	c.explain = "Step semantics of the state tracker decided by abstract interpretation from seeded abstract states (open list of 0..3 opaque stored descriptors, constant blackout fields, CanClose/Equal answers per scenario): ProcessDescriptor returns the maximal closable suffix last-opened-first, keeps the order of the rest and appends only the processed descriptor, for exactly the documented out types plus breakaway/resumption (all 256 types), with the blackout fields following; Close removes exactly the last opened equal descriptor; Open returns a fresh copy without the pending breakaway; no-PTS descriptors are rejected without any change; duplicate detection over seeded received rings. Structural rules: the blackout invariant inBlackout ⇒ 0 ≤ blackoutIdx < len(open) by induction over the two storing methods (path execution + Fourier–Motzkin), single owners of the fields, the received ring invariant, and the bounds of all index/slice sites. Does not decide: the composition over whole histories (induction over these step facts, argued), that blackoutIdx designates the breakaway element beyond the scenarios."
	c.trust("go/ssa + go/types (x/tools v0.29.0)", "bounds engine", "struct invariant inBlackout ⇒ 0 ≤ blackoutIdx < len(open) holds at every method entry (it is what rule C10.invariant maintains)")
	proc, err1 := c.P.Func("scte35:(*state).ProcessDescriptor")
	cls, err2 := c.P.Func("scte35:(*state).Close")
	opn, err3 := c.P.Func("scte35:(*state).Open")
	if err1 != nil || err2 != nil || err3 != nil {
		c.undecided("C10.provenance", "scte35:(*state)", "anchors", fmt.Sprint(err1, err2, err3))
		return
	}
	for _, f := range []*ssa.Function{proc, cls, opn} {
		c.analysed[f.String()] = true
	}

	// ---- step semantics from seeded abstract states (c10sem.go)
	c.runStateSemantics()

	// ---- blackout invariant maintenance (induction step per method)
	spec := fiSpec{S: "open", I: "blackoutIdx", B: "inBlackout"}
	useProof := map[*ssa.Function]*fiExec{} // path-sensitive proofs of the uses of the open list
	if _, _, _, st := checkFieldInvariant(c.P, opn, spec, true); st == "" {
		useProof[opn] = lastFiExec
	}
	// the owners of the invariant are read off the code: every function that
	// stores one of the three fields through its own receiver. Each of them is
	// entered with the invariant (no owner is called by another owner or after
	// a store of the caller's own, see below) and must re-establish it.
	tracked := map[string]bool{"open": true, "blackoutIdx": true, "inBlackout": true}
	storesTracked := func(fn *ssa.Function) (own, foreign bool) {
		for _, b := range fn.Blocks {
			for _, ins := range b.Instrs {
				st, ok := ins.(*ssa.Store)
				if !ok {
					continue
				}
				fa, ok := st.Addr.(*ssa.FieldAddr)
				if !ok || !strings.HasSuffix(fa.X.Type().String(), "scte35.state") || !tracked[fieldName(fa.X.Type(), fa.Field)] {
					continue
				}
				if p, isParam := fa.X.(*ssa.Parameter); isParam && len(fn.Params) > 0 && p == fn.Params[0] {
					own = true
				} else {
					foreign = true
				}
			}
		}
		return
	}
	var owners []*ssa.Function
	isOwner := map[*ssa.Function]bool{}
	bad := ""
	libs := c.P.LibFuncs(false)
	sort.Slice(libs, func(i, j int) bool { return libs[i].String() < libs[j].String() })
	for _, fn := range libs {
		own, foreign := storesTracked(fn)
		if foreign {
			bad = shortFn(fn) + " stores a tracked field of a tracker that is not its receiver"
		}
		if own {
			owners = append(owners, fn)
			isOwner[fn] = true
		}
	}
	totalPaths := 0
	for _, fn := range owners {
		c.analysed[fn.String()] = true
		paths, unch, fails, structural := checkFieldInvariant(c.P, fn, spec, true)
		useProof[fn] = lastFiExec
		totalPaths += paths
		con := "assuming inBlackout ⇒ 0 ≤ blackoutIdx < len(open) at entry, it holds again at every return"
		switch {
		case structural != "":
			c.undecided("C10.invariant", shortFn(fn), con, structural)
		case len(fails) > 0:
			c.check("C10.invariant", shortFn(fn), con, false, fmt.Sprintf("%d of %d paths fail; first: %s", len(fails), paths, fails[0]))
		default:
			c.check("C10.invariant", shortFn(fn), con, paths > unch, fmt.Sprintf("no path stores the fields (%d paths)", paths))
		}
	}
	c.floorCheck("C10.invariant functions that store the tracked fields", len(owners), 2)
	c.floorCheck("C10.invariant paths walked", totalPaths, 100)
	// the non-storing methods get their uses of the open list proved the same way
	for _, fn := range []*ssa.Function{proc, cls} {
		if !isOwner[fn] {
			if _, _, _, st := checkFieldInvariant(c.P, fn, spec, true); st == "" {
				useProof[fn] = lastFiExec
			}
		}
	}
	// every owner is entered with the invariant: an owner is never called by an
	// owner (whose own stores may be half done), nothing outside the tracker's
	// methods stores the fields, and nothing calls back into the tracker
	for _, fn := range libs {
		for _, b := range fn.Blocks {
			for _, ins := range b.Instrs {
				ci, ok := ins.(ssa.CallInstruction)
				if !ok {
					continue
				}
				if cal := ci.Common().StaticCallee(); cal != nil && isOwner[cal] && isOwner[fn] {
					bad = shortFn(fn) + " stores the tracked fields itself and calls " + shortFn(cal) + " at " + c.P.Pos(ins.Pos())
				}
				if ci.Common().IsInvoke() && strings.HasSuffix(ci.Common().Value.Type().String(), "scte35.State") {
					bad = shortFn(fn) + " invokes State." + ci.Common().Method.Name() + " at " + c.P.Pos(ins.Pos())
				}
			}
		}
	}
	c.check("C10.invariant", "scte35:(*state)", "open/blackoutIdx/inBlackout are stored only by methods through their own receiver, none of which calls another; no library code calls back into the tracker", bad == "", bad)

	// ---- duplicate detection over the received ring
	c.runStateDuplicates()

	// ---- the received ring: received is made once with a constant length K
	// and never reassigned; receivedHead stays in [0, K-1] (zero value at
	// creation; every store keeps the range, assuming it held before)
	ringOK := map[ssa.Instruction]bool{}
	{
		bad := ""
		var K int64 = -1
		nRecv, nHead := 0, 0
		for _, fn := range c.P.LibFuncs(false) {
			for _, b := range fn.Blocks {
				for _, ins := range b.Instrs {
					st, ok := ins.(*ssa.Store)
					if !ok {
						continue
					}
					fa, ok := st.Addr.(*ssa.FieldAddr)
					if !ok || !strings.HasSuffix(fa.X.Type().String(), "scte35.state") {
						continue
					}
					switch fieldName(fa.X.Type(), fa.Field) {
					case "received":
						nRecv++
						// make([]T, K) with constant K: a MakeSlice, or new [K]T sliced in full
						kv, ok := int64(0), false
						switch mk := st.Val.(type) {
						case *ssa.MakeSlice:
							if k, isConst := mk.Len.(*ssa.Const); isConst {
								kv, ok = constInt64(k)
							}
						case *ssa.Slice:
							if al, isAlloc := mk.X.(*ssa.Alloc); isAlloc && mk.Low == nil {
								if n, isArr := arrayLen(al.Type()); isArr {
									kv, ok = n, true
									if mk.High != nil {
										h, isConst := mk.High.(*ssa.Const)
										hv, hok := int64(0), false
										if isConst {
											hv, hok = constInt64(h)
										}
										ok = hok && hv == n
									}
								}
							}
						}
						if !ok {
							bad = "received is assigned something else than a make of constant length at " + c.P.Pos(st.Pos())
							break
						}
						if kv <= 0 || (K >= 0 && K != kv) {
							bad = "received is not made with one constant length"
						}
						K = kv
					}
				}
			}
		}
		if K > 0 && bad == "" {
			for _, fn := range c.P.LibFuncs(false) {
				for _, b := range fn.Blocks {
					for _, ins := range b.Instrs {
						st, ok := ins.(*ssa.Store)
						if !ok {
							continue
						}
						fa, ok := st.Addr.(*ssa.FieldAddr)
						if !ok || !strings.HasSuffix(fa.X.Type().String(), "scte35.state") || fieldName(fa.X.Type(), fa.Field) != "receivedHead" {
							continue
						}
						nHead++
						nc := &narrowCheck{P: c.P, memo: map[ssa.Value]*bigIval{}, assume: map[string]bigIval{}, assumeVal: func(v ssa.Value) (bigIval, bool) {
							if isFieldLoad(v, "receivedHead") {
								return bigIval{bi(0), bi(K - 1)}, true
							}
							return bigIval{}, false
						}}
						r := nc.rng(st.Val)
						if len(nc.issues) > 0 || !r.within(bigIval{bi(0), bi(K - 1)}) {
							bad = fmt.Sprintf("receivedHead = %s at %s may leave [0,%d]", sx(st.Val), c.P.Pos(st.Pos()), K-1)
						}
					}
				}
			}
		}
		if nRecv == 0 || nHead == 0 {
			bad = "no store to received / receivedHead found"
		}
		c.check("C10.ring", "scte35:(*state)", "received is made once with a constant length K and receivedHead stays in [0, K-1]", bad == "", bad)
		if bad == "" {
			for _, fn := range []*ssa.Function{proc, cls, opn} {
				for _, b := range fn.Blocks {
					for _, ins := range b.Instrs {
						if ia, ok := ins.(*ssa.IndexAddr); ok && isFieldLoad(ia.X, "received") && isFieldLoad(ia.Index, "receivedHead") {
							ringOK[ia] = true
						}
					}
				}
			}
		}
	}

	// ---- bounds of the three methods (Open under the struct invariant)
	B := newBounds(c.P)
	for _, fn := range []*ssa.Function{opn, proc, cls} {
		bf := B.of(fn)
		if fn == opn {
			// invariant facts in the blocks dominated by `if s.inBlackout`
			for _, b := range fn.Blocks {
				if len(b.Preds) != 1 {
					continue
				}
				p := b.Preds[0]
				ifi, ok := p.Instrs[len(p.Instrs)-1].(*ssa.If)
				if !ok || p.Succs[0] != b || !mentionsField(ifi.Cond, "inBlackout") {
					continue
				}
				for _, bb := range fn.Blocks {
					for _, ins := range bb.Instrs {
						if u, ok := ins.(*ssa.UnOp); ok && isFieldLoad(u, "blackoutIdx") {
							idx := bf.affOf(u)
							for _, b2 := range fn.Blocks {
								for _, i2 := range b2.Instrs {
									if o, ok := i2.(*ssa.UnOp); ok && isFieldLoad(o, "open") {
										ln := bf.lenAff(o)
										var walk func(x *ssa.BasicBlock)
										walk = func(x *ssa.BasicBlock) {
											bf.facts[x] = append(bf.facts[x], idx, ln.add(idx, -1).add(affConst(1), -1))
											for _, d := range x.Dominees() {
												walk(d)
											}
										}
										walk(b)
									}
								}
							}
						}
					}
				}
			}
		}
		for _, s := range B.sites(fn) {
			okAll := true
			var failed []string
			for _, q := range s.reqs {
				if ok, _ := B.proveReqAt(bf, q.e, s.ins.Block(), s.ins, 0); !ok {
					okAll = false
					failed = append(failed, q.what+": need "+bf.affString(q.e)+" ≥ 0")
				}
			}
			if !okAll {
				// sites over the open list: path-sensitive proof from the struct
				// invariant and the branch conditions of each path (fieldinv.go)
				if ringOK[s.ins] {
					okAll = true
				}
				if up := useProof[fn]; !okAll && up != nil && up.useSeen[s.ins] && !up.over {
					if _, bad := up.useBad[s.ins]; !bad {
						okAll = true
					}
				}
			}
			if okAll {
				c.check("C10."+s.kind, shortFn(fn), s.construct, true, "")
			} else {
				c.add(Obligation{Rule: "C10." + s.kind, Func: shortFn(fn), Construct: s.construct, Status: "violated", Detail: strings.Join(failed, "; "), Pos: c.P.Pos(s.ins.Pos())})
			}
		}
	}
}

func jsonUnmarshal(b []byte, v interface{}) error { return json.Unmarshal(b, v) }
