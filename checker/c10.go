package main

import (
	"encoding/json"
	"fmt"
	"go/token"
	"sort"
	"strings"

	"golang.org/x/tools/go/ssa"
)

// C10: SCTE-35 state tracker. The statement quantifies over call histories;
// what is decided are value-flow, ordering and invariant-maintenance facts
// about the three methods, each a necessary condition.

// fieldStores lists the Store instructions of fn whose address is field
// `name` of the receiver.
func fieldStores(fn *ssa.Function, name string) []*ssa.Store {
	var out []*ssa.Store
	for _, b := range fn.Blocks {
		for _, ins := range b.Instrs {
			if st, ok := ins.(*ssa.Store); ok {
				if fa, ok := st.Addr.(*ssa.FieldAddr); ok && fieldName(fa.X.Type(), fa.Field) == name {
					if _, isParam := fa.X.(*ssa.Parameter); isParam {
						out = append(out, st)
					}
				}
			}
		}
	}
	return out
}

func isFieldLoad(v ssa.Value, name string) bool {
	u, ok := v.(*ssa.UnOp)
	if !ok || u.Op != token.MUL {
		return false
	}
	fa, ok := u.X.(*ssa.FieldAddr)
	return ok && fieldName(fa.X.Type(), fa.Field) == name
}

// mentionsField: the expression of v contains a load of the named field.
func mentionsField(v ssa.Value, name string) bool {
	return strings.Contains(sx(v), "*&$s."+name)
}

func runC10(c *Checker) {
	c.Level = "other"
	c.explain = "Structural necessary conditions of the state tracker's contract, decided on the SSA of Open, ProcessDescriptor and Close: (provenance) only the processed descriptor is ever appended to the open list, closed lists are built from elements loaded from the open list under CanClose / Equal, Open() returns a fresh copy; (order) the close loop walks from the last element downwards and stops at the first element that cannot be closed, the open list is truncated by exactly the number closed, Close removes exactly the matched index; (rejections) no store to the open list or the blackout fields can precede the no-PTS and duplicate returns; (blackout invariant inBlackout ⇒ blackoutIdx < len(open)) every statement that shortens the open list is followed on all paths to the function exit by a re-validation of the blackout fields, and every use of blackoutIdx is dominated by a test of inBlackout; (dispatch) the set of segmentation types appended to the open list is the documented out-types plus program breakaway; (bounds) the index/slice sites of the three methods are discharged by the bounds engine, Open()'s under the struct invariant. Does not decide: the history-level clauses (never twice, returned at most once, ring-buffer duplicate detection for arbitrary sequences)."
	c.trust("go/ssa + go/types (x/tools v0.29.0)", "bounds engine", "struct invariant inBlackout ⇒ 0 ≤ blackoutIdx < len(open) holds at every method entry (it is what rule C10.invariant maintains)")
	proc, err1 := c.P.Func("scte35:(*state).ProcessDescriptor")
	cls, err2 := c.P.Func("scte35:(*state).Close")
	opn, err3 := c.P.Func("scte35:(*state).Open")
	if err1 != nil || err2 != nil || err3 != nil {
		c.undecided("C10.provenance", "scte35:(*state)", "anchors", fmt.Sprint(err1, err2, err3))
		return
	}
	for _, f := range []*ssa.Function{proc, cls, opn} {
		c.analysed[f.String()] = true
	}

	// ---- step semantics from seeded abstract states (c10sem.go)
	c.runStateSemantics()

	// ---- blackout invariant maintenance (induction step per method)
	spec := fiSpec{S: "open", I: "blackoutIdx", B: "inBlackout"}
	useProof := map[*ssa.Function]*fiExec{} // path-sensitive proofs of the uses of the open list
	if _, _, _, st := checkFieldInvariant(c.P, opn, spec, true); st == "" {
		useProof[opn] = lastFiExec
	}
	for _, fn := range []*ssa.Function{proc, cls} {
		paths, unch, fails, structural := checkFieldInvariant(c.P, fn, spec, true)
		useProof[fn] = lastFiExec
		con := "assuming inBlackout ⇒ 0 ≤ blackoutIdx < len(open) at entry, it holds again at every return"
		switch {
		case structural != "":
			c.undecided("C10.invariant", shortFn(fn), con, structural)
		case len(fails) > 0:
			c.check("C10.invariant", shortFn(fn), con, false, fmt.Sprintf("%d of %d paths fail; first: %s", len(fails), paths, fails[0]))
		default:
			c.check("C10.invariant", shortFn(fn), con, paths > unch, fmt.Sprintf("no path stores the fields (%d paths)", paths))
			c.floorCheck("C10.invariant paths walked in "+shortFn(fn), paths, 3)
		}
	}
	// the invariant's other owners: only these methods store the three fields,
	// nothing re-enters them, and a fresh state starts outside a blackout
	{
		owners := map[*ssa.Function]bool{proc: true, cls: true}
		bad := ""
		for _, fn := range c.P.LibFuncs(false) {
			for _, b := range fn.Blocks {
				for _, ins := range b.Instrs {
					if st, ok := ins.(*ssa.Store); ok {
						if fa, ok := st.Addr.(*ssa.FieldAddr); ok && strings.HasSuffix(fa.X.Type().String(), "scte35.state") {
							switch fieldName(fa.X.Type(), fa.Field) {
							case "open", "blackoutIdx", "inBlackout":
								if !owners[fn] {
									bad = shortFn(fn) + " stores " + fieldName(fa.X.Type(), fa.Field) + " at " + c.P.Pos(st.Pos())
								}
							}
						}
					}
					if ci, ok := ins.(ssa.CallInstruction); ok {
						if cal := ci.Common().StaticCallee(); cal != nil && owners[cal] {
							bad = shortFn(fn) + " calls " + shortFn(cal) + " at " + c.P.Pos(ins.Pos())
						}
						if ci.Common().IsInvoke() && strings.HasSuffix(ci.Common().Value.Type().String(), "scte35.State") {
							bad = shortFn(fn) + " invokes State." + ci.Common().Method.Name() + " at " + c.P.Pos(ins.Pos())
						}
					}
				}
			}
		}
		c.check("C10.invariant", "scte35:(*state)", "only ProcessDescriptor and Close store open/blackoutIdx/inBlackout, and no library code calls back into the tracker", bad == "", bad)
	}

	// ---- duplicate detection over the received ring
	c.runStateDuplicates()

	// ---- the received ring: received is made once with a constant length K
	// and never reassigned; receivedHead stays in [0, K-1] (zero value at
	// creation; every store keeps the range, assuming it held before)
	ringOK := map[ssa.Instruction]bool{}
	{
		bad := ""
		var K int64 = -1
		nRecv, nHead := 0, 0
		for _, fn := range c.P.LibFuncs(false) {
			for _, b := range fn.Blocks {
				for _, ins := range b.Instrs {
					st, ok := ins.(*ssa.Store)
					if !ok {
						continue
					}
					fa, ok := st.Addr.(*ssa.FieldAddr)
					if !ok || !strings.HasSuffix(fa.X.Type().String(), "scte35.state") {
						continue
					}
					switch fieldName(fa.X.Type(), fa.Field) {
					case "received":
						nRecv++
						// make([]T, K) with constant K: a MakeSlice, or new [K]T sliced in full
						kv, ok := int64(0), false
						switch mk := st.Val.(type) {
						case *ssa.MakeSlice:
							if k, isConst := mk.Len.(*ssa.Const); isConst {
								kv, ok = constInt64(k)
							}
						case *ssa.Slice:
							if al, isAlloc := mk.X.(*ssa.Alloc); isAlloc && mk.Low == nil {
								if n, isArr := arrayLen(al.Type()); isArr {
									kv, ok = n, true
									if mk.High != nil {
										h, isConst := mk.High.(*ssa.Const)
										hv, hok := int64(0), false
										if isConst {
											hv, hok = constInt64(h)
										}
										ok = hok && hv == n
									}
								}
							}
						}
						if !ok {
							bad = "received is assigned something else than a make of constant length at " + c.P.Pos(st.Pos())
							break
						}
						if kv <= 0 || (K >= 0 && K != kv) {
							bad = "received is not made with one constant length"
						}
						K = kv
					}
				}
			}
		}
		if K > 0 && bad == "" {
			for _, fn := range c.P.LibFuncs(false) {
				for _, b := range fn.Blocks {
					for _, ins := range b.Instrs {
						st, ok := ins.(*ssa.Store)
						if !ok {
							continue
						}
						fa, ok := st.Addr.(*ssa.FieldAddr)
						if !ok || !strings.HasSuffix(fa.X.Type().String(), "scte35.state") || fieldName(fa.X.Type(), fa.Field) != "receivedHead" {
							continue
						}
						nHead++
						nc := &narrowCheck{P: c.P, memo: map[ssa.Value]*bigIval{}, assume: map[string]bigIval{}, assumeVal: func(v ssa.Value) (bigIval, bool) {
							if isFieldLoad(v, "receivedHead") {
								return bigIval{bi(0), bi(K - 1)}, true
							}
							return bigIval{}, false
						}}
						r := nc.rng(st.Val)
						if len(nc.issues) > 0 || !r.within(bigIval{bi(0), bi(K - 1)}) {
							bad = fmt.Sprintf("receivedHead = %s at %s may leave [0,%d]", sx(st.Val), c.P.Pos(st.Pos()), K-1)
						}
					}
				}
			}
		}
		if nRecv == 0 || nHead == 0 {
			bad = "no store to received / receivedHead found"
		}
		c.check("C10.ring", "scte35:(*state)", "received is made once with a constant length K and receivedHead stays in [0, K-1]", bad == "", bad)
		if bad == "" {
			for _, fn := range []*ssa.Function{proc, cls, opn} {
				for _, b := range fn.Blocks {
					for _, ins := range b.Instrs {
						if ia, ok := ins.(*ssa.IndexAddr); ok && isFieldLoad(ia.X, "received") && isFieldLoad(ia.Index, "receivedHead") {
							ringOK[ia] = true
						}
					}
				}
			}
		}
	}

	// ---- bounds of the three methods (Open under the struct invariant)
	B := newBounds(c.P)
	for _, fn := range []*ssa.Function{opn, proc, cls} {
		bf := B.of(fn)
		if fn == opn {
			// invariant facts in the blocks dominated by `if s.inBlackout`
			for _, b := range fn.Blocks {
				if len(b.Preds) != 1 {
					continue
				}
				p := b.Preds[0]
				ifi, ok := p.Instrs[len(p.Instrs)-1].(*ssa.If)
				if !ok || p.Succs[0] != b || !mentionsField(ifi.Cond, "inBlackout") {
					continue
				}
				for _, bb := range fn.Blocks {
					for _, ins := range bb.Instrs {
						if u, ok := ins.(*ssa.UnOp); ok && isFieldLoad(u, "blackoutIdx") {
							idx := bf.affOf(u)
							for _, b2 := range fn.Blocks {
								for _, i2 := range b2.Instrs {
									if o, ok := i2.(*ssa.UnOp); ok && isFieldLoad(o, "open") {
										ln := bf.lenAff(o)
										var walk func(x *ssa.BasicBlock)
										walk = func(x *ssa.BasicBlock) {
											bf.facts[x] = append(bf.facts[x], idx, ln.add(idx, -1).add(affConst(1), -1))
											for _, d := range x.Dominees() {
												walk(d)
											}
										}
										walk(b)
									}
								}
							}
						}
					}
				}
			}
		}
		for _, s := range B.sites(fn) {
			okAll := true
			var failed []string
			for _, q := range s.reqs {
				if ok, _ := B.proveReqAt(bf, q.e, s.ins.Block(), s.ins, 0); !ok {
					okAll = false
					failed = append(failed, q.what+": need "+bf.affString(q.e)+" ≥ 0")
				}
			}
			if !okAll {
				// sites over the open list: path-sensitive proof from the struct
				// invariant and the branch conditions of each path (fieldinv.go)
				if ringOK[s.ins] {
					okAll = true
				}
				if up := useProof[fn]; !okAll && up != nil && up.useSeen[s.ins] && !up.over {
					if _, bad := up.useBad[s.ins]; !bad {
						okAll = true
					}
				}
			}
			if okAll {
				c.check("C10."+s.kind, shortFn(fn), s.construct, true, "")
			} else {
				c.add(Obligation{Rule: "C10." + s.kind, Func: shortFn(fn), Construct: s.construct, Status: "violated", Detail: strings.Join(failed, "; "), Pos: c.P.Pos(s.ins.Pos())})
			}
		}
	}
}

func phiName(v ssa.Value) string { return "" }

// appendedIs: v = append(x, elems...) where the single appended element
// renders as want.
func appendedIs(v ssa.Value, want string) bool {
	call, ok := v.(*ssa.Call)
	if !ok || len(call.Call.Args) != 2 {
		return false
	}
	el := appendedElem(call.Call.Args[1])
	return el != nil && sx(el) == want
}

// appendedElem: the variadic slice `new [1]T; store elem; slice` → elem.
func appendedElem(v ssa.Value) ssa.Value {
	sl, ok := v.(*ssa.Slice)
	if !ok {
		return nil
	}
	al, ok := sl.X.(*ssa.Alloc)
	if !ok {
		return nil
	}
	var elem ssa.Value
	n := 0
	for _, ref := range *al.Referrers() {
		if ia, ok := ref.(*ssa.IndexAddr); ok {
			for _, r2 := range *ia.Referrers() {
				if st, ok := r2.(*ssa.Store); ok {
					elem = st.Val
					n++
				}
			}
		}
	}
	if n != 1 {
		return nil
	}
	return elem
}

func blockReaches(a, b *ssa.BasicBlock) bool {
	if a == b {
		return true
	}
	seen := map[int]bool{}
	stack := []*ssa.BasicBlock{a}
	for len(stack) > 0 {
		x := stack[len(stack)-1]
		stack = stack[:len(stack)-1]
		if seen[x.Index] {
			continue
		}
		seen[x.Index] = true
		if x == b {
			return true
		}
		stack = append(stack, x.Succs...)
	}
	return false
}

// checkCloseLoop: the loop that scans the open list starts at len-1, steps
// by -1, and (for ProcessDescriptor) leaves at the first non-closable element.
func (c *Checker) checkCloseLoop(fn *ssa.Function, mustBreak bool) {
	found := false
	for _, li := range findLoopsSSA(fn) {
		for _, ins := range li.header.Instrs {
			phi, ok := ins.(*ssa.Phi)
			if !ok {
				break
			}
			if phi.Comment != "i" {
				continue
			}
			init, step := "", ""
			for k, e := range phi.Edges {
				if li.body[li.header.Preds[k]] {
					step = sx(e)
				} else {
					init = sx(e)
				}
			}
			// the loop that indexes s.open with i
			uses := false
			for b := range li.body {
				for _, in2 := range b.Instrs {
					if ia, ok := in2.(*ssa.IndexAddr); ok && ia.Index == ssa.Value(phi) && strings.Contains(sx(ia.X), "$s.open") {
						uses = true
					}
				}
			}
			if !uses {
				continue
			}
			found = true
			c.check("C10.order", shortFn(fn), "scan of the open list starts at the last element", init == "(len(*&$s.open)-1)", "starts at "+init)
			c.check("C10.order", shortFn(fn), "scan of the open list moves towards the first element one at a time", strings.HasSuffix(step, "-1)") && strings.Contains(step, "phi["), "step "+step)
			if mustBreak {
				// the else-branch of the CanClose test leaves the loop
				okBreak := false
				for b := range li.body {
					ifi, ok := b.Instrs[len(b.Instrs)-1].(*ssa.If)
					if ok && strings.Contains(sx(ifi.Cond), ".CanClose(") {
						okBreak = !li.body[b.Succs[1]] || leadsOut(b.Succs[1], li)
					}
				}
				c.check("C10.order", shortFn(fn), "scan stops at the first element that cannot be closed (closed = a suffix of open, last-opened first)", okBreak, "the loop continues past a non-closable element")
			}
		}
	}
	c.check("C10.order", shortFn(fn), "has a scan loop over the open list", found, "no loop indexing s.open with its counter")
}

// revalidatedOnAllPaths: every path from the store to a return passes an
// instruction that stores inBlackout/blackoutIdx or branches on blackoutIdx.
func revalidatedOnAllPaths(st *ssa.Store) (bool, string) {
	isReval := func(ins ssa.Instruction) bool {
		switch x := ins.(type) {
		case *ssa.Store:
			if fa, ok := x.Addr.(*ssa.FieldAddr); ok {
				n := fieldName(fa.X.Type(), fa.Field)
				return n == "inBlackout" || n == "blackoutIdx"
			}
		case *ssa.If:
			// a test of inBlackout counts: when it is false the invariant is vacuous
			return mentionsField(x.Cond, "blackoutIdx") || mentionsField(x.Cond, "inBlackout")
		}
		return false
	}
	// the store's own block: a store to the blackout fields next to it (before
	// or after) counts — clearing inBlackout first makes the invariant vacuous
	for _, ins := range st.Block().Instrs {
		if ins != ssa.Instruction(st) && isReval(ins) {
			if _, isIf := ins.(*ssa.If); !isIf {
				return true, ""
			}
		}
	}
	if last, ok := st.Block().Instrs[len(st.Block().Instrs)-1].(*ssa.If); ok && isReval(last) {
		return true, ""
	}
	seen := map[int]bool{}
	var dfs func(b *ssa.BasicBlock) (bool, string)
	dfs = func(b *ssa.BasicBlock) (bool, string) {
		if seen[b.Index] {
			return true, ""
		}
		seen[b.Index] = true
		for _, ins := range b.Instrs {
			if isReval(ins) {
				return true, ""
			}
		}
		if len(b.Succs) == 0 {
			return false, fmt.Sprintf("path reaches the exit in block %d without touching the blackout fields", b.Index)
		}
		for _, s := range b.Succs {
			if ok, why := dfs(s); !ok {
				return false, why
			}
		}
		return true, ""
	}
	for _, s := range st.Block().Succs {
		if ok, why := dfs(s); !ok {
			return false, why
		}
	}
	if len(st.Block().Succs) == 0 {
		return false, "the function returns right after shortening the list"
	}
	return true, ""
}

// checkStateDispatch: the set of TypeID constants on the paths to
// `open = append(open, desc)` equals the documented out types + breakaway.
func (c *Checker) checkStateDispatch(fn *ssa.Function) {
	got := map[int]bool{}
	var appends []*ssa.BasicBlock
	for _, st := range fieldStores(fn, "open") {
		if strings.HasPrefix(sx(st.Val), "append(*&$s.open,") {
			appends = append(appends, st.Block())
		}
	}
	// constants compared with desc.TypeID(): `t == K` true edge reaching an append block
	for _, b := range fn.Blocks {
		ifi, ok := b.Instrs[len(b.Instrs)-1].(*ssa.If)
		if !ok {
			continue
		}
		bo, ok := ifi.Cond.(*ssa.BinOp)
		if !ok || bo.Op != token.EQL || !strings.Contains(sx(bo), ".TypeID(") || !strings.Contains(sx(bo), "$desc") {
			continue
		}
		var k *ssa.Const
		if kk, ok := bo.Y.(*ssa.Const); ok {
			k = kk
		} else if kk, ok := bo.X.(*ssa.Const); ok {
			k = kk
		}
		if k == nil {
			continue
		}
		// does the true successor reach an append without passing another TypeID comparison?
		for _, ab := range appends {
			if reachesWithoutTest(b.Succs[0], ab, map[int]bool{}) {
				got[int(k.Int64())] = true
			}
		}
	}
	want := map[int]bool{0x13: true}
	var spec segcloseSpec
	if jsonUnmarshal(segcloseJSON, &spec) == nil {
		for _, s := range spec.OutTypes {
			want[hexInt(s)] = true
		}
	}
	var diff []string
	for k := range want {
		if !got[k] {
			diff = append(diff, fmt.Sprintf("type %#x is an out type but is never opened", k))
		}
	}
	for k := range got {
		if !want[k] {
			diff = append(diff, fmt.Sprintf("type %#x is opened but is not a documented out type", k))
		}
	}
	sort.Strings(diff)
	c.check("C10.dispatch", shortFn(fn), "types appended to the open list == documented out types + program breakaway", len(diff) == 0, strings.Join(diff, "; "))
	c.extra["opened_types"] = len(got)
}

// reachesWithoutTest: from b to target without crossing another comparison of
// desc.TypeID() (i.e. within the same switch arm, including fallthrough).
func reachesWithoutTest(b, target *ssa.BasicBlock, seen map[int]bool) bool {
	if b == target {
		return true
	}
	if seen[b.Index] {
		return false
	}
	seen[b.Index] = true
	if ifi, ok := b.Instrs[len(b.Instrs)-1].(*ssa.If); ok {
		if strings.Contains(sx(ifi.Cond), ".TypeID(") && strings.Contains(sx(ifi.Cond), "$desc") {
			return false
		}
	}
	for _, s := range b.Succs {
		if reachesWithoutTest(s, target, seen) {
			return true
		}
	}
	return false
}

func jsonUnmarshal(b []byte, v interface{}) error { return json.Unmarshal(b, v) }
