package main

import (
	"fmt"
	"go/token"
	"go/types"
	"sort"
	"strings"

	"golang.org/x/tools/go/ssa"
)

// fieldinv.go: inductive check of a struct invariant of the shape
//
//	B ⇒ 0 ≤ I < len(S)
//
// over the fields B (bool), I (int) and S (slice) of a method receiver. The
// method is executed abstractly along every back-edge-free path from its entry
// to each return: the three fields start as symbols (B0, I0, len(S)=L0 with the
// invariant assumed), stores update them, and at the return the invariant is
// proved for the final values from the facts collected on the path (branch
// conditions, bounds checks that were passed, the entry invariant) by
// Fourier–Motzkin refutation over the rationals.
//
// Soundness of walking simple paths only: the rule first checks that no block
// that stores one of the fields lies on a cycle, so every such block executes
// at most once per call and a real execution visits them in the order of the
// simple path obtained by cutting the execution at the last occurrence of each
// block; the branch conditions on that path were evaluated the last time their
// block ran over SSA values whose definitions dominate it and therefore have
// not been recomputed since. Phi values are resolved from the path only in
// blocks outside every loop; inside loops they are opaque atoms.

type fiSpec struct {
	S, I, B string // field names
}

type fiState struct {
	lenS, idx aff
	inB       int // 0 false, 1 true, 2 entry value B0
	b0        int // what the path assumes about B0: -1 nothing, 0 false, 1 true
	facts     []aff
	neqs      []aff
	sliceLen  map[ssa.Value]aff
	vals      map[ssa.Value]aff
	boolv     map[ssa.Value]int
	trace     []string
	stored    bool
}

func (s *fiState) clone() *fiState {
	n := *s
	n.facts = append([]aff(nil), s.facts...)
	n.neqs = append([]aff(nil), s.neqs...)
	n.trace = append([]string(nil), s.trace...)
	n.sliceLen = make(map[ssa.Value]aff, len(s.sliceLen))
	for k, v := range s.sliceLen {
		n.sliceLen[k] = v
	}
	n.vals = make(map[ssa.Value]aff, len(s.vals))
	for k, v := range s.vals {
		n.vals[k] = v
	}
	n.boolv = make(map[ssa.Value]int, len(s.boolv))
	for k, v := range s.boolv {
		n.boolv[k] = v
	}
	return &n
}

type fiExec struct {
	P      *Program
	fn     *ssa.Function
	spec   fiSpec
	inLoop map[*ssa.BasicBlock]bool
	reachS map[*ssa.BasicBlock]bool // a tracked store is reachable from the block
	paths  int
	unch   int
	failed []string
	// uses: index/slice sites over the tracked slice, keyed by construct;
	// true once some path could not prove the site in range
	useBad   map[ssa.Instruction]string
	useSeen  map[ssa.Instruction]bool
	checkUse bool
	walkAll  bool // do not cut paths that cannot store (needed to see every use)
	limit    int
	over     bool
}

type fiSym struct{ name string }

func (x *fiExec) recvField(addr ssa.Value) string {
	fa, ok := addr.(*ssa.FieldAddr)
	if !ok {
		return ""
	}
	if p, isParam := fa.X.(*ssa.Parameter); !isParam || p != x.fn.Params[0] {
		return ""
	}
	return fieldName(fa.X.Type(), fa.Field)
}

func (x *fiExec) tracked(name string) bool {
	return name != "" && (name == x.spec.S || name == x.spec.I || name == x.spec.B)
}

// blockReach: b can reach t through at least one edge.
func blockReachAll(fn *ssa.Function) map[*ssa.BasicBlock]map[*ssa.BasicBlock]bool {
	out := map[*ssa.BasicBlock]map[*ssa.BasicBlock]bool{}
	for _, b := range fn.Blocks {
		seen := map[*ssa.BasicBlock]bool{}
		var st []*ssa.BasicBlock
		st = append(st, b.Succs...)
		for len(st) > 0 {
			n := st[len(st)-1]
			st = st[:len(st)-1]
			if seen[n] {
				continue
			}
			seen[n] = true
			st = append(st, n.Succs...)
		}
		out[b] = seen
	}
	return out
}

func (x *fiExec) ev(st *fiState, v ssa.Value) aff {
	if a, ok := st.vals[v]; ok {
		return a
	}
	switch t := v.(type) {
	case *ssa.Const:
		if k, ok := constInt64(t); ok {
			return affConst(k)
		}
	case *ssa.BinOp:
		switch t.Op {
		case token.ADD:
			return x.ev(st, t.X).add(x.ev(st, t.Y), 1)
		case token.SUB:
			return x.ev(st, t.X).add(x.ev(st, t.Y), -1)
		case token.MUL:
			if c, ok := t.Y.(*ssa.Const); ok {
				if k, ok := constInt64(c); ok && k > -1024 && k < 1024 {
					return x.ev(st, t.X).scale(k)
				}
			}
		}
	case *ssa.Call:
		if b, ok := t.Call.Value.(*ssa.Builtin); ok && b.Name() == "len" {
			return x.lenOf(st, t.Call.Args[0])
		}
	case *ssa.ChangeType:
		return x.ev(st, t.X)
	}
	return affAtom(v)
}

func (x *fiExec) lenOf(st *fiState, v ssa.Value) aff {
	if a, ok := st.sliceLen[v]; ok {
		return a
	}
	if n, ok := arrayLen(v.Type()); ok {
		return affConst(n)
	}
	switch t := v.(type) {
	case *ssa.Const:
		if t.Value == nil {
			return affConst(0)
		}
	case *ssa.ChangeType:
		return x.lenOf(st, t.X)
	}
	a := affAtom(lenKey{v})
	st.facts = append(st.facts, a) // a length is never negative
	st.sliceLen[v] = a
	return a
}

// step executes one non-terminator instruction.
func (x *fiExec) step(st *fiState, ins ssa.Instruction) {
	switch t := ins.(type) {
	case *ssa.UnOp:
		if t.Op != token.MUL {
			return
		}
		switch f := x.recvField(t.X); {
		case f == "":
		case f == x.spec.S:
			st.sliceLen[t] = st.lenS
		case f == x.spec.I:
			st.vals[t] = st.idx
		case f == x.spec.B:
			st.boolv[t] = st.inB
		}
	case *ssa.Slice:
		if _, isSlice := t.X.Type().Underlying().(*types.Slice); !isSlice {
			if n, ok := arrayLen(t.X.Type()); ok && t.Low == nil && t.High == nil {
				st.sliceLen[t] = affConst(n)
			}
			return
		}
		lo := affConst(0)
		if t.Low != nil {
			lo = x.ev(st, t.Low)
		}
		var hi aff
		if t.High != nil {
			hi = x.ev(st, t.High)
		} else {
			hi = x.lenOf(st, t.X)
		}
		st.sliceLen[t] = hi.add(lo, -1)
		if x.checkUse && x.isTrackedSlice(t.X) {
			x.proveUse(st, t, []aff{lo, hi.add(lo, -1), x.lenOf(st, t.X).add(hi, -1)})
		}
		// the slice expression did not panic: 0 ≤ lo ≤ hi
		st.facts = append(st.facts, lo, hi.add(lo, -1))
	case *ssa.IndexAddr:
		if _, isSlice := t.X.Type().Underlying().(*types.Slice); isSlice {
			i := x.ev(st, t.Index)
			if x.checkUse && x.isTrackedSlice(t.X) {
				x.proveUse(st, t, []aff{i, x.lenOf(st, t.X).add(i, -1).add(affConst(1), -1)})
			}
			st.facts = append(st.facts, i, x.lenOf(st, t.X).add(i, -1).add(affConst(1), -1))
		}
	case *ssa.Call:
		if b, ok := t.Call.Value.(*ssa.Builtin); ok && b.Name() == "append" && len(t.Call.Args) == 2 {
			st.sliceLen[t] = x.lenOf(st, t.Call.Args[0]).add(x.lenOf(st, t.Call.Args[1]), 1)
		}
		// an index computed by a write-free helper method of the same receiver
		// whose every result is below the length of the tracked slice
		if g := t.Call.StaticCallee(); g != nil && !t.Call.IsInvoke() && len(t.Call.Args) > 0 && isIntType(t.Type()) {
			if p, isParam := t.Call.Args[0].(*ssa.Parameter); isParam && p == x.fn.Params[0] && resultBelowLenField(x.P, g, x.spec.S) {
				st.facts = append(st.facts, st.lenS.add(x.ev(st, t), -1).add(affConst(1), -1))
			}
		}
	case *ssa.Store:
		f := x.recvField(t.Addr)
		if !x.tracked(f) {
			return
		}
		st.stored = true
		switch f {
		case x.spec.S:
			st.lenS = x.lenOf(st, t.Val)
			st.trace = append(st.trace, x.spec.S+" = "+sx(t.Val))
		case x.spec.I:
			st.idx = x.ev(st, t.Val)
			st.trace = append(st.trace, x.spec.I+" = "+sx(t.Val))
		case x.spec.B:
			if c, ok := t.Val.(*ssa.Const); ok && c.Value != nil {
				if c.Value.String() == "true" {
					st.inB = 1
				} else {
					st.inB = 0
				}
			} else if bv, ok := st.boolv[t.Val]; ok {
				st.inB = bv
			} else {
				st.inB = 1 // unknown value: must satisfy the invariant
			}
			st.trace = append(st.trace, x.spec.B+" = "+sx(t.Val))
		}
	}
}

// isTrackedSlice: v is a load of the tracked slice field of the receiver.
func (x *fiExec) isTrackedSlice(v ssa.Value) bool {
	u, ok := v.(*ssa.UnOp)
	return ok && u.Op == token.MUL && x.recvField(u.X) == x.spec.S
}

// proveUse: every requirement (each ≥ 0) of an index/slice site over the
// tracked slice must follow from the facts of the path, where the entry
// invariant may be used if the path established that B held at entry.
func (x *fiExec) proveUse(st *fiState, key ssa.Instruction, reqs []aff) {
	x.useSeen[key] = true
	facts := append([]aff(nil), st.facts...)
	I0, L0 := affAtom(fiSym{"I0"}), affAtom(fiSym{"L0"})
	facts = append(facts, L0)
	if st.b0 == 1 {
		facts = append(facts, I0, L0.add(I0, -1).add(affConst(1), -1))
	}
	for round := 0; round < 2; round++ {
		for _, d := range st.neqs {
			if fmProve(facts, d) {
				facts = append(facts, d.add(affConst(1), -1))
			} else if fmProve(facts, d.scale(-1)) {
				facts = append(facts, d.scale(-1).add(affConst(1), -1))
			}
		}
	}
	if fmUnsat(facts) {
		return
	}
	for _, r := range reqs {
		if !fmProve(facts, r) {
			if _, dup := x.useBad[key]; !dup {
				x.useBad[key] = fmt.Sprintf("need %s ≥ 0 on the path: %s", fiAffString(r), strings.Join(st.trace, "; "))
			}
			return
		}
	}
}

// assume adds the consequences of cond == truth; false result: infeasible.
func (x *fiExec) assume(st *fiState, c ssa.Value, truth bool) bool {
	switch t := c.(type) {
	case *ssa.UnOp:
		if t.Op == token.NOT {
			return x.assume(st, t.X, !truth)
		}
		if bv, ok := st.boolv[t]; ok {
			if bv == 2 && st.b0 >= 0 {
				bv = st.b0
			}
			want := 0
			if truth {
				want = 1
			}
			if bv == 2 {
				st.b0 = want
				if st.inB == 2 {
					st.inB = want
				}
				for k, v := range st.boolv {
					if v == 2 {
						st.boolv[k] = want
					}
				}
				st.trace = append(st.trace, fmt.Sprintf("entry %s=%v", x.spec.B, truth))
				return true
			}
			return bv == want
		}
	case *ssa.BinOp:
		if !isIntType(t.X.Type()) {
			return true
		}
		a, b := x.ev(st, t.X), x.ev(st, t.Y)
		op := t.Op
		if !truth {
			switch op {
			case token.LSS:
				op = token.GEQ
			case token.LEQ:
				op = token.GTR
			case token.GTR:
				op = token.LEQ
			case token.GEQ:
				op = token.LSS
			case token.EQL:
				op = token.NEQ
			case token.NEQ:
				op = token.EQL
			}
		}
		one := affConst(1)
		switch op {
		case token.LSS:
			st.facts = append(st.facts, b.add(a, -1).add(one, -1))
		case token.LEQ:
			st.facts = append(st.facts, b.add(a, -1))
		case token.GTR:
			st.facts = append(st.facts, a.add(b, -1).add(one, -1))
		case token.GEQ:
			st.facts = append(st.facts, a.add(b, -1))
		case token.EQL:
			st.facts = append(st.facts, a.add(b, -1), b.add(a, -1))
		case token.NEQ:
			st.neqs = append(st.neqs, a.add(b, -1))
		}
		st.trace = append(st.trace, fmt.Sprintf("%s is %v", sx(c), truth))
	}
	return true
}

// fmUnsat: the conjunction of cs[i] ≥ 0 has no rational solution.
func fmUnsat(cs []aff) bool {
	for iter := 0; iter < 40; iter++ {
		var pick interface{}
		cnt := map[interface{}]int{}
		for _, c := range cs {
			if len(c.t) == 0 && c.k < 0 {
				return true
			}
			for v := range c.t {
				cnt[v]++
			}
		}
		if len(cnt) == 0 {
			return false
		}
		// deterministic choice: the variable in the fewest constraints
		best := -1
		var names []string
		byName := map[string]interface{}{}
		for v := range cnt {
			n := fmt.Sprintf("%p%v", v, v)
			names = append(names, n)
			byName[n] = v
		}
		sort.Strings(names)
		for _, n := range names {
			if v := byName[n]; best < 0 || cnt[v] < best {
				best, pick = cnt[v], v
			}
		}
		var pos, neg, rest []aff
		for _, c := range cs {
			switch k := c.t[pick]; {
			case k > 0:
				pos = append(pos, c)
			case k < 0:
				neg = append(neg, c)
			default:
				if len(c.t) > 0 {
					rest = append(rest, c)
				}
			}
		}
		for _, p := range pos {
			for _, n := range neg {
				a, b := p.t[pick], -n.t[pick]
				if a > 1<<20 || b > 1<<20 {
					return false
				}
				r := p.scale(b).add(n, a)
				if len(r.t) == 0 {
					if r.k < 0 {
						return true
					}
					continue
				}
				rest = append(rest, r)
			}
		}
		if len(rest) > 4000 {
			return false
		}
		cs = rest
	}
	return false
}

func fmProve(facts []aff, goal aff) bool {
	cs := append([]aff(nil), facts...)
	cs = append(cs, goal.scale(-1).add(affConst(1), -1)) // goal ≤ -1
	return fmUnsat(cs)
}

func (x *fiExec) atReturn(st *fiState) {
	x.paths++
	if !st.stored {
		x.unch++
		return
	}
	if st.inB == 0 {
		return
	}
	I0, L0 := affAtom(fiSym{"I0"}), affAtom(fiSym{"L0"})
	facts := append([]aff(nil), st.facts...)
	facts = append(facts, L0)
	if st.b0 == 1 || st.inB == 2 {
		facts = append(facts, I0, L0.add(I0, -1).add(affConst(1), -1))
	}
	for round := 0; round < 2; round++ {
		for _, d := range st.neqs {
			if fmProve(facts, d) {
				facts = append(facts, d.add(affConst(1), -1))
			} else if fmProve(facts, d.scale(-1)) {
				facts = append(facts, d.scale(-1).add(affConst(1), -1))
			}
		}
	}
	if fmUnsat(facts) {
		return // infeasible path
	}
	lo := fmProve(facts, st.idx)
	hi := fmProve(facts, st.lenS.add(st.idx, -1).add(affConst(1), -1))
	if lo && hi {
		return
	}
	what := "0 ≤ " + x.spec.I
	if lo {
		what = x.spec.I + " < len(" + x.spec.S + ")"
	}
	if len(x.failed) < 4 {
		x.failed = append(x.failed, fmt.Sprintf("%s not re-established (final %s=%s, len(%s)=%s) on the path: %s",
			what, x.spec.I, fiAffString(st.idx), x.spec.S, fiAffString(st.lenS), strings.Join(st.trace, "; ")))
	} else {
		x.failed = append(x.failed, "")
	}
}

func fiAffString(a aff) string {
	var parts []string
	for v, c := range a.t {
		var n string
		switch k := v.(type) {
		case fiSym:
			n = k.name
		case lenKey:
			n = "len(" + sx(k.v) + ")"
		case ssa.Value:
			n = sx(k)
		default:
			n = fmt.Sprint(v)
		}
		if c == 1 {
			parts = append(parts, n)
		} else {
			parts = append(parts, fmt.Sprintf("%d*%s", c, n))
		}
	}
	sort.Strings(parts)
	s := strings.Join(parts, " + ")
	if a.k != 0 || s == "" {
		s += fmt.Sprintf(" %+d", a.k)
	}
	return strings.TrimSpace(s)
}

func (x *fiExec) walk(b *ssa.BasicBlock, pred *ssa.BasicBlock, st *fiState, onPath map[*ssa.BasicBlock]bool) {
	if x.over {
		return
	}
	if !x.walkAll && !st.stored && !x.reachS[b] && !x.blockStores(b) {
		// nothing stored so far and nothing can be: the fields are unchanged
		x.paths++
		x.unch++
		return
	}
	if x.paths > x.limit {
		x.over = true
		return
	}
	onPath[b] = true
	defer delete(onPath, b)
	for _, ins := range b.Instrs {
		if phi, ok := ins.(*ssa.Phi); ok {
			if pred != nil && !x.inLoop[b] {
				for i, p := range b.Preds {
					if p == pred {
						e := phi.Edges[i]
						if isIntType(phi.Type()) {
							st.vals[phi] = x.ev(st, e)
						} else if _, isSl := phi.Type().Underlying().(*types.Slice); isSl {
							st.sliceLen[phi] = x.lenOf(st, e)
						} else if bv, ok := st.boolv[e]; ok {
							st.boolv[phi] = bv
						}
					}
				}
			}
			continue
		}
		switch t := ins.(type) {
		case *ssa.If:
			for k, succ := range b.Succs {
				if onPath[succ] {
					continue // back edge
				}
				n := st.clone()
				if !x.assume(n, t.Cond, k == 0) {
					continue
				}
				x.walk(succ, b, n, onPath)
			}
			return
		case *ssa.Jump:
			if !onPath[b.Succs[0]] {
				x.walk(b.Succs[0], b, st, onPath)
			}
			return
		case *ssa.Return:
			x.atReturn(st)
			return
		case *ssa.Panic:
			return
		default:
			x.step(st, ins)
		}
	}
}

func (x *fiExec) blockStores(b *ssa.BasicBlock) bool {
	for _, ins := range b.Instrs {
		if s, ok := ins.(*ssa.Store); ok && x.tracked(x.recvField(s.Addr)) {
			return true
		}
	}
	return false
}

// lastFiExec keeps the executor of the latest checkFieldInvariant call so that
// the caller can read the use obligations collected on the way.
var lastFiExec *fiExec

// checkFieldInvariant runs the induction step for one method. It returns the
// number of paths walked, how many leave the fields untouched, and the failures.
func checkFieldInvariant(P *Program, fn *ssa.Function, spec fiSpec, walkAll bool) (paths, unchanged int, failures []string, structural string) {
	x := &fiExec{P: P, fn: fn, spec: spec, inLoop: map[*ssa.BasicBlock]bool{}, reachS: map[*ssa.BasicBlock]bool{}, limit: 400000,
		useBad: map[ssa.Instruction]string{}, useSeen: map[ssa.Instruction]bool{}, checkUse: true, walkAll: walkAll}
	lastFiExec = x
	reach := blockReachAll(fn)
	for _, b := range fn.Blocks {
		x.inLoop[b] = reach[b][b]
	}
	for _, b := range fn.Blocks {
		if x.blockStores(b) {
			if x.inLoop[b] {
				return 0, 0, nil, fmt.Sprintf("block %d stores a tracked field inside a loop (%s)", b.Index, P.Pos(b.Instrs[0].Pos()))
			}
			for _, a := range fn.Blocks {
				if reach[a][b] {
					x.reachS[a] = true
				}
			}
		}
	}
	st := &fiState{lenS: affAtom(fiSym{"L0"}), idx: affAtom(fiSym{"I0"}), inB: 2, b0: -1,
		sliceLen: map[ssa.Value]aff{}, vals: map[ssa.Value]aff{}, boolv: map[ssa.Value]int{}}
	x.walk(fn.Blocks[0], nil, st, map[*ssa.BasicBlock]bool{})
	if x.over {
		return x.paths, x.unch, nil, "more than 400000 paths"
	}
	return x.paths, x.unch, x.failed, ""
}

var fiBounds *Bounds
var fiBelowMemo = map[string]bool{}

// resultBelowLenField: g is a write-free method with one integer result r and
// every return satisfies r ≤ len(recv.field) − 1 (proved by the bounds engine
// from a load of that field that dominates the return).
func resultBelowLenField(P *Program, g *ssa.Function, field string) bool {
	key := g.String() + "#" + field
	if v, ok := fiBelowMemo[key]; ok {
		return v
	}
	fiBelowMemo[key] = false
	if g.Blocks == nil || len(g.Params) == 0 || g.Signature.Results().Len() != 1 {
		return false
	}
	if fiBounds == nil || fiBounds.P != P {
		fiBounds = newBounds(P)
	}
	B := fiBounds
	if !B.writeFree(g) {
		return false
	}
	bf := B.of(g)
	var loads []*ssa.UnOp
	for _, b := range g.Blocks {
		for _, ins := range b.Instrs {
			if ld, ok := ins.(*ssa.UnOp); ok && ld.Op == token.MUL {
				if fa, ok := ld.X.(*ssa.FieldAddr); ok && fa.X == ssa.Value(g.Params[0]) && fieldName(fa.X.Type(), fa.Field) == field {
					loads = append(loads, ld)
				}
			}
		}
	}
	n := 0
	for _, b := range g.Blocks {
		r, ok := b.Instrs[len(b.Instrs)-1].(*ssa.Return)
		if !ok {
			continue
		}
		n++
		proved := false
		for _, ld := range loads {
			if ld.Block() != b && !ld.Block().Dominates(b) {
				continue
			}
			if bf.proveAt(bf.lenAff(ld).add(bf.affOf(r.Results[0]), -1).add(affConst(1), -1), b, r) {
				proved = true
				break
			}
		}
		if !proved {
			return false
		}
	}
	fiBelowMemo[key] = n > 0
	return n > 0
}
