package main

import (
	"fmt"
	"os"
	"sort"
	"strings"
)

// C03: adaptation-field edits. The statement quantifies over setter
// histories; what is decided is the induction step: from every state that is
// the ISO 13818-1 serialisation of some logical adaptation field (of one of
// the enumerated layouts, all byte contents symbolic) each setter produces the
// serialisation of the updated logical field, or refuses and leaves all 188
// bytes unchanged, and each getter returns the logical value. The layouts
// make every offset a constant, so the abstract interpreter follows the
// offset chain, resizeAF's shifts and the stuffing loops exactly.

// afShape is one adaptation-field layout: adaptation_field_length, the five
// presence flags (0x10 PCR … 0x01 extension) and the data lengths of the two
// variable fields.
type afShape struct {
	L    int
	P    uint
	n, m int
}

func (s afShape) has(mask uint) bool { return s.P&mask != 0 }

func (s afShape) String() string {
	return fmt.Sprintf("L=%d flags=%05b tpd=%d ext=%d", s.L, s.P, s.n, s.m)
}

// content: bytes used from index 5 on (flags byte included).
func (s afShape) content() int {
	c := 1
	if s.has(0x10) {
		c += 6
	}
	if s.has(0x08) {
		c += 6
	}
	if s.has(0x04) {
		c++
	}
	if s.has(0x02) {
		c += 1 + s.n
	}
	if s.has(0x01) {
		c += 1 + s.m
	}
	return c
}

// afShapes enumerates the layout family of a tier.
func afShapes(thorough bool) []afShape {
	lens := []int{0, 1, 4}
	if thorough {
		lens = []int{0, 1, 4, 9}
	}
	seen := map[afShape]bool{}
	var out []afShape
	for P := uint(0); P < 32; P++ {
		ns, ms := []int{0}, []int{0}
		if P&0x02 != 0 {
			ns = lens
		}
		if P&0x01 != 0 {
			ms = lens
		}
		for _, n := range ns {
			for _, m := range ms {
				base := afShape{0, P, n, m}.content()
				Ls := []int{base, base + 1, base + 6, 183}
				if thorough {
					Ls = append(Ls, base+2, base+7, base+13, 100, 182)
				}
				for _, L := range Ls {
					s := afShape{L, P, n, m}
					if L < 1 || L > 183 || L < base || seen[s] {
						continue
					}
					seen[s] = true
					out = append(out, s)
				}
			}
		}
	}
	// nearly full fields: a large private-data or extension field brings the
	// content to within 0, 1 or 6 bytes of adaptation_field_length
	for _, P := range []uint{0x02, 0x01, 0x13, 0x1e, 0x07, 0x1f} {
		for _, L := range []int{40, 182, 183} {
			for _, slack := range []int{0, 1, 6, 7} {
				s := afShape{L: L, P: P}
				fill := L - slack - s.content()
				if fill < 0 {
					continue
				}
				if P&0x02 != 0 {
					s.n = fill
				} else {
					s.m = fill
				}
				if !seen[s] {
					seen[s] = true
					out = append(out, s)
				}
			}
		}
	}
	sort.Slice(out, func(i, j int) bool {
		a, b := out[i], out[j]
		if a.P != b.P {
			return a.P < b.P
		}
		if a.n != b.n {
			return a.n < b.n
		}
		if a.m != b.m {
			return a.m < b.m
		}
		return a.L < b.L
	})
	return out
}

// afModel is the logical adaptation field: abstract bytes per field; a nil
// byte is "no value was ever set" (any content is acceptable there).
type afModel struct {
	L                       int
	top                     [3]Bit // discontinuity, random access, ES priority (bits 7,6,5)
	pcr, opcr, sc, tpd, ext []*BV  // nil slice: absent; tpd/ext hold the data bytes
	hasTPD, hasExt          bool
}

func constByte(v int) *BV { return constInt(int64(v), 8, false) }

// modelOf reads the logical field off a packet object seeded by seedAF.
func modelOf(obj string, s afShape) *afModel {
	m := &afModel{L: s.L}
	b5 := cellBV(obj, 5)
	m.top = [3]Bit{b5.Bits[7], b5.Bits[6], b5.Bits[5]}
	at := 6
	take := func(k int) []*BV {
		r := make([]*BV, k)
		for i := range r {
			r[i] = cellBV(obj, at+i)
		}
		at += k
		return r
	}
	if s.has(0x10) {
		m.pcr = take(6)
	}
	if s.has(0x08) {
		m.opcr = take(6)
	}
	if s.has(0x04) {
		m.sc = take(1)
	}
	if s.has(0x02) {
		at++
		m.hasTPD, m.tpd = true, take(s.n)
	}
	if s.has(0x01) {
		at++
		m.hasExt, m.ext = true, take(s.m)
	}
	return m
}

// serialize: the bytes at indices 5 … 5+L-1; false if the content does not fit.
func (m *afModel) serialize() ([]*BV, bool) {
	fl := &BV{W: 8, Bits: make([]Bit, 8)}
	fl.Bits[7], fl.Bits[6], fl.Bits[5] = m.top[0], m.top[1], m.top[2]
	fl.Bits[4] = bconst(m.pcr != nil)
	fl.Bits[3] = bconst(m.opcr != nil)
	fl.Bits[2] = bconst(m.sc != nil)
	fl.Bits[1] = bconst(m.hasTPD)
	fl.Bits[0] = bconst(m.hasExt)
	out := []*BV{fl}
	out = append(out, m.pcr...)
	out = append(out, m.opcr...)
	out = append(out, m.sc...)
	if m.hasTPD {
		out = append(out, constByte(len(m.tpd)))
		out = append(out, m.tpd...)
	}
	if m.hasExt {
		out = append(out, constByte(len(m.ext)))
		out = append(out, m.ext...)
	}
	if len(out) > m.L {
		return nil, false
	}
	for len(out) < m.L {
		out = append(out, constByte(0xFF))
	}
	return out, true
}

// seedAF puts a well-formed adaptation field of the given layout into the
// receiver (parameter index pi): AF flag set, length and presence flags and
// the two inner length bytes constant, stuffing 0xFF, everything else symbolic.
func seedAF(s afShape, pi int) func(in *Interp, st *State, ps []Val) {
	return func(in *Interp, st *State, ps []Val) {
		o := ps[pi].(*Ptr).Obj
		b3 := cellBV(o.Name, 3)
		b3 = &BV{W: 8, Bits: append([]Bit(nil), b3.Bits...)}
		b3.Bits[5] = U.B1
		in.setCell(st, o, "3", b3)
		in.setCell(st, o, "4", constByte(s.L))
		b5 := cellBV(o.Name, 5)
		b5 = &BV{W: 8, Bits: append([]Bit(nil), b5.Bits...)}
		for k := 0; k < 5; k++ {
			b5.Bits[k] = bconst(s.P>>uint(k)&1 == 1)
		}
		in.setCell(st, o, "5", b5)
		at := 6
		if s.has(0x10) {
			at += 6
		}
		if s.has(0x08) {
			at += 6
		}
		if s.has(0x04) {
			at++
		}
		if s.has(0x02) {
			in.setCell(st, o, fmt.Sprint(at), constByte(s.n))
			at += 1 + s.n
		}
		if s.has(0x01) {
			in.setCell(st, o, fmt.Sprint(at), constByte(s.m))
			at += 1 + s.m
		}
		for ; at < 5+s.L; at++ {
			in.setCell(st, o, fmt.Sprint(at), constByte(0xFF))
		}
	}
}

// afOp is one setter call with its expected effect on the logical field.
type afOp struct {
	anchor string
	what   string // argument class, part of the obligation key
	args   func() map[string]Val
	slen   map[string]int
	// apply updates m; false: the call must be refused (error, no change)
	apply func(m *afModel, s afShape) bool
}

type stepAgg struct {
	n, bad int
	first  string
}

func boolConst(v bool) Val { return boolBV(bconst(v)) }

func dataCells(name string, k int) []*BV {
	r := make([]*BV, k)
	for i := range r {
		r[i] = cellBV(name, i)
	}
	return r
}

func afOps(thorough bool) []afOp {
	var ops []afOp
	flag := func(anchor string, bit int) {
		ops = append(ops, afOp{anchor: anchor, what: "(value)", args: func() map[string]Val { return map[string]Val{"value": boolArg("value")} },
			apply: func(m *afModel, s afShape) bool { m.top[7-bit] = boolArg("value").Bits[0]; return true }})
	}
	flag("packet:(*AdaptationField).SetDiscontinuity", 7)
	flag("packet:(*AdaptationField).SetRandomAccess", 6)
	flag("packet:(*AdaptationField).SetElementaryStreamPriority", 5)
	unset := func(k int) []*BV { return make([]*BV, k) }
	for _, v := range []bool{true, false} {
		v := v
		arg := func() map[string]Val { return map[string]Val{"value": boolConst(v)} }
		w := fmt.Sprintf("(%v)", v)
		ops = append(ops,
			afOp{anchor: "packet:(*AdaptationField).SetHasPCR", what: w, args: arg, apply: func(m *afModel, s afShape) bool {
				if v && m.pcr == nil {
					m.pcr = unset(6)
				} else if !v {
					m.pcr = nil
				}
				return true
			}},
			afOp{anchor: "packet:(*AdaptationField).SetHasOPCR", what: w, args: arg, apply: func(m *afModel, s afShape) bool {
				if v && m.opcr == nil {
					m.opcr = unset(6)
				} else if !v {
					m.opcr = nil
				}
				return true
			}},
			afOp{anchor: "packet:(*AdaptationField).SetHasSplicingPoint", what: w, args: arg, apply: func(m *afModel, s afShape) bool {
				if v && m.sc == nil {
					m.sc = unset(1)
				} else if !v {
					m.sc = nil
				}
				return true
			}},
			afOp{anchor: "packet:(*AdaptationField).SetHasTransportPrivateData", what: w, args: arg, apply: func(m *afModel, s afShape) bool {
				if v && !m.hasTPD {
					m.hasTPD, m.tpd = true, []*BV{}
				} else if !v {
					m.hasTPD, m.tpd = false, nil
				}
				return true
			}},
			afOp{anchor: "packet:(*AdaptationField).SetHasAdaptationFieldExtension", what: w, args: arg, apply: func(m *afModel, s afShape) bool {
				if v && !m.hasExt {
					m.hasExt, m.ext = true, []*BV{}
				} else if !v {
					m.hasExt, m.ext = false, nil
				}
				return true
			}})
	}
	ops = append(ops, afOp{anchor: "packet:(*AdaptationField).SetSpliceCountdown", what: "(value)",
		args: func() map[string]Val { return map[string]Val{"value": uintArg("value", 8, 8, false)} },
		apply: func(m *afModel, s afShape) bool {
			if m.sc == nil {
				return false
			}
			m.sc = []*BV{uintArg("value", 8, 8, false)}
			return true
		}})
	// the two clock setters: presence guard and frame only (the six bytes of
	// the field's own window may take any value here; the value written is
	// C04's encode/window rules)
	pcrArg := func() map[string]Val { return map[string]Val{"PCR": uintArg("PCR", 64, 64, false)} }
	ops = append(ops,
		afOp{anchor: "packet:(*AdaptationField).SetPCR", what: "(value)", args: pcrArg, apply: func(m *afModel, s afShape) bool {
			if m.pcr == nil {
				return false
			}
			m.pcr = unset(6)
			return true
		}},
		afOp{anchor: "packet:(*AdaptationField).SetOPCR", what: "(value)", args: pcrArg, apply: func(m *afModel, s afShape) bool {
			if m.opcr == nil {
				return false
			}
			m.opcr = unset(6)
			return true
		}})
	// 256 and 259: lengths that do not fit the one-byte inner length field (they
	// can never be honoured; a length computed in a byte would see 0 and 3)
	ks := []int{0, 1, 3, 5, 6, 256, 259}
	if thorough {
		ks = []int{0, 1, 2, 3, 5, 6, 7, 12, 13, 40, 255, 256, 259, 512}
	}
	for _, k := range ks {
		k := k
		ops = append(ops,
			afOp{anchor: "packet:(*AdaptationField).SetTransportPrivateData", what: fmt.Sprintf("(%d bytes)", k), slen: map[string]int{"data": k},
				apply: func(m *afModel, s afShape) bool {
					if !m.hasTPD {
						return false
					}
					m.tpd = dataCells("data", k)
					return true
				}},
			afOp{anchor: "packet:(*AdaptationField).SetAdaptationFieldExtension", what: fmt.Sprintf("(%d bytes)", k), slen: map[string]int{"data": k},
				apply: func(m *afModel, s afShape) bool {
					if !m.hasExt {
						return false
					}
					m.ext = dataCells("data", k)
					return true
				}})
	}
	return ops
}

// checkAFStep analyses one setter on one layout and compares all 188 cells.
func (c *Checker) checkAFStep(op afOp, s afShape) (ok bool, detail string) {
	fn, err := c.P.Func(op.anchor)
	if err != nil {
		return false, err.Error()
	}
	c.analysed[fn.String()] = true
	opts := &AnalyzeOpts{Pre: seedAF(s, 0), SliceLen: op.slen, Setup: func(in *Interp) { in.MaxDepth = 16; in.MaxSteps = 4000000 }}
	if op.args != nil {
		opts.Args = op.args()
	}
	sum := Analyze(c.P, fn, opts)
	if os.Getenv("C03DUMP") != "" {
		fmt.Fprintln(os.Stderr, sum.Dump())
	}
	if sum.Failed != "" {
		return false, "analysis: " + sum.Failed
	}
	o := paramObj(sum, 0)
	if sum.Out.havoc[o] > 0 {
		return false, "store through a non-constant index"
	}
	m := modelOf(o.Name, s)
	honoured := op.apply(m, s)
	var want []*BV
	if honoured {
		want, honoured = m.serialize()
	}
	okBit := sum.in.nilBit(sum.RetN(0))
	if eq, dec, det := equivBits(okBit, bconst(honoured), 16); !eq || !dec {
		if honoured {
			return false, "the call fits in adaptation_field_length but is refused " + det
		}
		return false, "the call cannot be honoured but no error is returned " + det
	}
	for i := 0; i < 188; i++ {
		got, _ := sum.Cell(o, fmt.Sprint(i), byteT).(*BV)
		exp, _ := sum.in.loadPath(sum.Init, o, fmt.Sprint(i), byteT).(*BV)
		if honoured && i >= 5 && i < 5+s.L {
			exp = want[i-5]
			if exp == nil {
				continue // never set: any value
			}
		}
		if got == nil || exp == nil {
			return false, fmt.Sprintf("cell %d unreadable", i)
		}
		if ok, d := matchBits(got, exp.Bits); !ok {
			tag := "after the call"
			if !honoured {
				tag = "although the call is refused"
			}
			return false, fmt.Sprintf("byte %d %s: %s", i, tag, d)
		}
	}
	return true, ""
}

func (c *Checker) runAFSteps(thorough bool) {
	shapes := afShapes(thorough)
	ops := afOps(thorough)
	agg := map[string]*stepAgg{}
	var keys []string
	total := 0
	for _, op := range ops {
		key := op.anchor + "\x00" + op.what
		a := &stepAgg{}
		agg[key] = a
		keys = append(keys, key)
		for _, s := range shapes {
			ok, d := c.checkAFStep(op, s)
			a.n++
			total++
			if !ok {
				a.bad++
				if a.first == "" {
					a.first = s.String() + ": " + d
				}
			}
		}
	}
	for _, k := range keys {
		a := agg[k]
		p := strings.SplitN(k, "\x00", 2)
		c.check("C03.step", p[0], p[1]+": result is the serialisation of the updated field, or an error with all 188 bytes unchanged",
			a.bad == 0, fmt.Sprintf("%d of %d layouts fail; first: %s", a.bad, a.n, a.first))
	}
	c.floorCheck("C03.step analyses (setter x layout)", total, len(ops)*300)
	c.extra["setter_analyses"] = total
}

// ---------------------------------------------------------------- getters

type getExp struct {
	err   bool    // a non-nil error is expected (tuple results only)
	bits  []Bit   // expected integer/bool result, LSB first
	slice *[2]int // expected window of the packet (offset, length)
}

type afGetter struct {
	anchor string
	tuple  bool // (value, error) results
	expect func(obj string, s afShape) getExp
}

func flagBit(obj string, bit int) []Bit { return []Bit{cellBV(obj, 5).Bits[bit]} }

func (s afShape) offsets() (opcr, sc, tpd, ext, stuffing int) {
	at := 6
	if s.has(0x10) {
		at += 6
	}
	opcr = at
	if s.has(0x08) {
		at += 6
	}
	sc = at
	if s.has(0x04) {
		at++
	}
	tpd = at
	if s.has(0x02) {
		at += 1 + s.n
	}
	ext = at
	if s.has(0x01) {
		at += 1 + s.m
	}
	stuffing = at
	return
}

func constBits(v uint64, w int) []Bit {
	r := make([]Bit, w)
	for i := range r {
		r[i] = bconst(v>>uint(i)&1 == 1)
	}
	return r
}

func afGetters() []afGetter {
	var gs []afGetter
	presence := []struct {
		method, fn string
		mask       uint
	}{{"HasPCR", "HasPCR", 0x10}, {"HasOPCR", "HasOPCR", 0x08}, {"HasSplicingPoint", "HasSplicingPoint", 0x04},
		{"HasTransportPrivateData", "HasTransportPrivateData", 0x02}, {"HasAdaptationFieldExtension", "HasAdaptationFieldExtension", 0x01}}
	for _, p := range presence {
		p := p
		e := func(obj string, s afShape) getExp { return getExp{bits: []Bit{bconst(s.has(p.mask))}} }
		gs = append(gs, afGetter{"packet:(*AdaptationField)." + p.method, true, e}, afGetter{"packet/adaptationfield:" + p.fn, false, e})
	}
	for _, f := range []struct {
		method, fn string
		bit        int
	}{{"Discontinuity", "IsDiscontinuous", 7}, {"RandomAccess", "IsRandomAccess", 6}, {"ElementaryStreamPriority", "IsESHigherPriority", 5}} {
		f := f
		e := func(obj string, s afShape) getExp { return getExp{bits: flagBit(obj, f.bit)} }
		gs = append(gs, afGetter{"packet:(*AdaptationField)." + f.method, true, e}, afGetter{"packet/adaptationfield:" + f.fn, false, e})
	}
	gs = append(gs,
		afGetter{"packet:(*AdaptationField).Length", false, func(obj string, s afShape) getExp { return getExp{bits: constBits(uint64(s.L), 64)} }},
		afGetter{"packet/adaptationfield:Length", false, func(obj string, s afShape) getExp { return getExp{bits: constBits(uint64(s.L), 8)} }},
		afGetter{"packet:(*AdaptationField).SpliceCountdown", true, func(obj string, s afShape) getExp {
			if !s.has(0x04) {
				return getExp{err: true}
			}
			_, sc, _, _, _ := s.offsets()
			b := cellBV(obj, sc).Bits
			r := append([]Bit(nil), b...)
			for len(r) < 64 {
				r = append(r, b[7]) // two's complement
			}
			return getExp{bits: r}
		}},
		afGetter{"packet/adaptationfield:SpliceCountdown", true, func(obj string, s afShape) getExp {
			if !s.has(0x04) {
				return getExp{err: true}
			}
			_, sc, _, _, _ := s.offsets()
			return getExp{bits: cellBV(obj, sc).Bits}
		}},
		afGetter{"packet/adaptationfield:PCR", true, func(obj string, s afShape) getExp {
			if !s.has(0x10) {
				return getExp{err: true}
			}
			return getExp{slice: &[2]int{6, 6}}
		}},
		afGetter{"packet/adaptationfield:OPCR", true, func(obj string, s afShape) getExp {
			if !s.has(0x08) {
				return getExp{err: true}
			}
			o, _, _, _, _ := s.offsets()
			return getExp{slice: &[2]int{o, 6}}
		}},
	)
	tpd := func(obj string, s afShape) getExp {
		if !s.has(0x02) {
			return getExp{err: true}
		}
		_, _, t, _, _ := s.offsets()
		return getExp{slice: &[2]int{t + 1, s.n}}
	}
	ext := func(obj string, s afShape) getExp {
		if !s.has(0x01) {
			return getExp{err: true}
		}
		_, _, _, e, _ := s.offsets()
		return getExp{slice: &[2]int{e + 1, s.m}}
	}
	gs = append(gs,
		afGetter{"packet:(*AdaptationField).TransportPrivateData", true, tpd},
		afGetter{"packet/adaptationfield:TransportPrivateData", true, tpd},
		afGetter{"packet/adaptationfield:EncoderBoundaryPoint", true, tpd},
		afGetter{"packet:(*AdaptationField).AdaptationFieldExtension", true, ext})
	return gs
}

func (c *Checker) checkAFGetter(g afGetter, s afShape) (bool, string) {
	fn, err := c.P.Func(g.anchor)
	if err != nil {
		return false, err.Error()
	}
	c.analysed[fn.String()] = true
	sum := Analyze(c.P, fn, &AnalyzeOpts{Pre: seedAF(s, 0), Setup: func(in *Interp) { in.MaxDepth = 16 }})
	if sum.Failed != "" {
		return false, "analysis: " + sum.Failed
	}
	o := paramObj(sum, 0)
	if w := sum.WrittenCells(); len(w) > 0 {
		return false, "the getter writes " + strings.Join(w, ",")
	}
	e := g.expect(o.Name, s)
	if g.tuple {
		okBit := sum.in.nilBit(sum.RetN(1))
		if eq, dec, det := equivBits(okBit, bconst(!e.err), 16); !eq || !dec {
			if e.err {
				return false, "absent field but no error " + det
			}
			return false, "present field but an error is returned " + det
		}
		if e.err {
			return true, ""
		}
	}
	v := sum.RetN(0)
	switch {
	case e.bits != nil:
		bv, ok := v.(*BV)
		if !ok {
			return false, "result is " + showVal(v)
		}
		if bv.W != len(e.bits) {
			return false, fmt.Sprintf("result width %d, expected %d", bv.W, len(e.bits))
		}
		if ok, d := matchBits(bv, e.bits); !ok {
			return false, d
		}
	case e.slice != nil:
		sv, ok := v.(*SliceV)
		if !ok {
			return false, "result is " + showVal(v)
		}
		lo, ok1 := sv.Lo.ConstInt()
		n, ok2 := sv.Len.ConstInt()
		if sv.Obj != o || !ok1 || !ok2 {
			return false, "result is not a constant window of the packet: " + showVal(v)
		}
		if int(lo) != e.slice[0] || int(n) != e.slice[1] {
			return false, fmt.Sprintf("window starts %+d and is %+d long relative to the value's bytes", int(lo)-e.slice[0], int(n)-e.slice[1])
		}
	}
	return true, ""
}

func (c *Checker) runAFGetters(shapes []afShape) {
	total := 0
	for _, g := range afGetters() {
		a := &stepAgg{}
		classes := map[string]bool{}
		for _, s := range shapes {
			ok, d := c.checkAFGetter(g, s)
			a.n++
			total++
			if !ok {
				a.bad++
				classes[d] = true
				if a.first == "" {
					a.first = s.String() + ": " + d
				}
			}
		}
		con := "returns the logical value of a present field, an error for an absent one, and writes nothing"
		if a.bad > 0 {
			// the deviation is part of the key, so that a recorded finding
			// does not cover a different failure of the same getter
			var cl []string
			for k := range classes {
				cl = append(cl, k)
			}
			sort.Strings(cl)
			if len(cl) > 3 {
				cl = append(cl[:3], "…")
			}
			con += " [deviation: " + strings.Join(cl, " | ") + "]"
		}
		c.check("C03.get", g.anchor, con, a.bad == 0, fmt.Sprintf("%d of %d layouts fail; first: %s", a.bad, a.n, a.first))
	}
	c.floorCheck("C03.get analyses (getter x layout)", total, 30*100)
	c.extra["getter_analyses"] = total
}

// ---------------------------------------------------------- whole-field copy

// checkAFCopy: (*Packet).SetAdaptationField(src) on a target of layout t.
func (c *Checker) checkAFCopy(t, src afShape) (bool, string) {
	fn, err := c.P.Func("packet:(*Packet).SetAdaptationField")
	if err != nil {
		return false, err.Error()
	}
	c.analysed[fn.String()] = true
	pre := func(in *Interp, st *State, ps []Val) {
		seedAF(t, 0)(in, st, ps)
		seedAF(src, 1)(in, st, ps)
	}
	sum := Analyze(c.P, fn, &AnalyzeOpts{Pre: pre, Setup: func(in *Interp) { in.MaxDepth = 16; in.MaxSteps = 4000000 }})
	if sum.Failed != "" {
		return false, "analysis: " + sum.Failed
	}
	o, so := paramObj(sum, 0), paramObj(sum, 1)
	if sum.Out.havoc[o] > 0 || sum.Out.havoc[so] > 0 {
		return false, "store through a non-constant index"
	}
	m := modelOf(so.Name, src)
	m.L = t.L
	want, honoured := m.serialize()
	okBit := sum.in.nilBit(sum.RetN(0))
	if eq, dec, det := equivBits(okBit, bconst(honoured), 16); !eq || !dec {
		if honoured {
			return false, "the source content fits but the copy is refused " + det
		}
		return false, "the source content does not fit but no error is returned " + det
	}
	for i := 0; i < 188; i++ {
		got, _ := sum.Cell(o, fmt.Sprint(i), byteT).(*BV)
		exp, _ := sum.in.loadPath(sum.Init, o, fmt.Sprint(i), byteT).(*BV)
		if honoured && i >= 5 && i < 5+t.L {
			exp = want[i-5]
		}
		if got == nil || exp == nil {
			return false, fmt.Sprintf("cell %d unreadable", i)
		}
		if ok, d := matchBits(got, exp.Bits); !ok {
			return false, fmt.Sprintf("target byte %d: %s", i, d)
		}
		sg, _ := sum.Cell(so, fmt.Sprint(i), byteT).(*BV)
		se, _ := sum.in.loadPath(sum.Init, so, fmt.Sprint(i), byteT).(*BV)
		if sg == nil || se == nil || !sameBV(sg, se) {
			return false, fmt.Sprintf("source byte %d is modified", i)
		}
	}
	return true, ""
}

func (c *Checker) runAFCopies(shapes []afShape, thorough bool) {
	var targets []afShape
	for _, s := range shapes {
		if s.P == 0x00 || s.P == 0x1f && s.n == 1 && s.m == 1 || thorough && s.P == 0x12 && s.n == 4 {
			targets = append(targets, s)
		}
	}
	a := &stepAgg{}
	for i, src := range shapes {
		if i%3 != 0 {
			continue
		}
		for _, t := range targets {
			ok, d := c.checkAFCopy(t, src)
			a.n++
			if !ok {
				a.bad++
				if a.first == "" {
					a.first = "target " + t.String() + " source " + src.String() + ": " + d
				}
			}
		}
	}
	c.check("C03.copy", "packet:(*Packet).SetAdaptationField", "the target's field becomes the source's content under the target's own length (stuffed), or an error with both packets unchanged",
		a.bad == 0, fmt.Sprintf("%d of %d layout pairs fail; first: %s", a.bad, a.n, a.first))
	c.floorCheck("C03.copy analyses (target x source layout)", a.n, 1000)
	c.extra["copy_analyses"] = a.n
}

// ------------------------------------------------------------ no field: refuse

func (c *Checker) runAFInvalid() {
	seen := map[string]bool{}
	for _, op := range afOps(false) {
		if seen[op.anchor] {
			continue
		}
		seen[op.anchor] = true
		fn, err := c.P.Func(op.anchor)
		if err != nil {
			c.undecided("C03.refuse", op.anchor, "anchor", err.Error())
			continue
		}
		for _, kind := range []string{"no adaptation field flag", "adaptation_field_length 0"} {
			kind := kind
			pre := func(in *Interp, st *State, ps []Val) {
				o := ps[0].(*Ptr).Obj
				b3 := cellBV(o.Name, 3)
				b3 = &BV{W: 8, Bits: append([]Bit(nil), b3.Bits...)}
				if kind == "no adaptation field flag" {
					b3.Bits[5] = U.B0
				} else {
					b3.Bits[5] = U.B1
					in.setCell(st, o, "4", constByte(0))
				}
				in.setCell(st, o, "3", b3)
			}
			opts := &AnalyzeOpts{Pre: pre, SliceLen: op.slen, Setup: func(in *Interp) { in.MaxDepth = 16 }}
			if op.args != nil {
				opts.Args = op.args()
			}
			sum := Analyze(c.P, fn, opts)
			ok := sum.Failed == ""
			det := sum.Failed
			if ok {
				eq, dec, d := equivBits(sum.in.nilBit(sum.RetN(0)), U.B0, 16)
				ok, det = eq && dec, "error result: "+d
			}
			if ok {
				if w := sum.WrittenCells(); len(w) > 0 {
					ok, det = false, "writes "+strings.Join(w, ",")
				}
			}
			c.check("C03.refuse", op.anchor, kind+": error, packet unchanged", ok, det)
		}
	}
}

func runC03(c *Checker) {
	c.Level = "other"
	c.explain = "Induction step of the edit-history property, decided by abstract interpretation of each setter's SSA on a family of adaptation-field layouts (adaptation_field_length, presence flags and inner lengths constant so that every offset is a constant; all field contents, the three indicator flags, the header and the payload symbolic): the 188 result bytes are compared with an independent ISO 13818-1 serialiser applied to the updated logical field, the error result with 'fits in adaptation_field_length and the field is present'. The same layouts give the expected result of every getter of both APIs (value, window of the packet, or error) and of the whole-field copy. PCR/OPCR value codecs and their windows are C04's. Not decided: layouts outside the family, and the composition over histories (argued by induction: every result is again a state of the family's form)."
	c.trust("go/ssa + go/types (x/tools v0.29.0)", "E1 abstract interpreter", "reference serialiser in c03.go (ISO/IEC 13818-1 Table 2-6)")
	thorough := c.Tier == "thorough"
	shapes := afShapes(thorough)
	c.extra["layouts"] = len(shapes)
	c.runAFSteps(thorough)
	var sub []afShape
	for i, s := range shapes {
		if thorough && i%3 == 0 || i%4 == 0 || s.n > 50 || s.m > 50 {
			sub = append(sub, s)
		}
	}
	c.runAFGetters(sub)
	c.runAFCopies(shapes, thorough)
	c.runAFInvalid()
}
