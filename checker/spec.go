package main

import (
	"fmt"
	"sort"
	"strings"

	"golang.org/x/tools/go/ssa"
)

// seg is a run of bits [Hi:Lo] of cell Cell; a field is a list of segments,
// most significant first (as the standards' syntax tables list them).
type seg struct{ Cell, Hi, Lo int }

func cellBV(obj string, i int) *BV {
	return srcBV(U.source("cell", fmt.Sprintf("%s[%d]", obj, i), 8), false)
}

// fieldBits assembles the abstract bits of a field, least significant first.
func fieldBits(obj string, segs []seg) []Bit {
	var out []Bit
	for i := len(segs) - 1; i >= 0; i-- {
		s := segs[i]
		c := cellBV(obj, s.Cell)
		for b := s.Lo; b <= s.Hi; b++ {
			out = append(out, c.Bits[b])
		}
	}
	return out
}

func bitsBV(bits []Bit, w int) *BV {
	r := &BV{W: w, Bits: make([]Bit, w)}
	for i := 0; i < w; i++ {
		if i < len(bits) {
			r.Bits[i] = bits[i]
		} else {
			r.Bits[i] = U.B0
		}
	}
	return r
}

// matchBits compares an abstract integer with the expected low bits; all
// higher bits must be constant 0.
func matchBits(v *BV, want []Bit) (bool, string) {
	if v == nil {
		return false, "no integer result"
	}
	for i := 0; i < v.W; i++ {
		w := U.B0
		if i < len(want) {
			w = want[i]
		}
		if v.Bits[i] != w {
			// not syntactically identical: decide semantically over the
			// (small) set of input bits both sides depend on
			ws := make([]Bit, v.W)
			for k := range ws {
				ws[k] = U.B0
				if k < len(want) {
					ws[k] = want[k]
				}
			}
			eq, dec, det := semEqualBits(v.Bits, ws, 18)
			if eq && dec {
				break
			}
			if dec {
				return false, "result " + det
			}
			return false, fmt.Sprintf("result bit %d is %s, expected %s (%s)", i, v.Bits[i], w, det)
		}
	}
	if len(want) > v.W {
		return false, fmt.Sprintf("result has %d bits, field has %d", v.W, len(want))
	}
	return true, ""
}

// ---------------------------------------------------------------- truth tables

// equivBits decides semantic equality of two abstract bits by a truth table
// over their leaf atoms (≤ maxLeaves). AND atoms with more than bigAnd factors
// are treated as single variables.
func equivBits(x, y Bit, maxLeaves int) (equal bool, decided bool, detail string) {
	if x == y {
		return true, true, ""
	}
	if x.top || y.top {
		return false, false, "⊤ bit"
	}
	for _, bigAnd := range []int{1 << 30, 64, 16, 4} {
		leaves := map[int32]*atom{}
		collectLeaves(x, bigAnd, leaves)
		collectLeaves(y, bigAnd, leaves)
		if len(leaves) > maxLeaves {
			continue
		}
		ids := make([]int32, 0, len(leaves))
		for id := range leaves {
			ids = append(ids, id)
		}
		sort.Slice(ids, func(i, j int) bool { return ids[i] < ids[j] })
		pos := map[int32]int{}
		for i, id := range ids {
			pos[id] = i
		}
		for m := 0; m < 1<<len(ids); m++ {
			asg := func(id int32) bool { return m>>pos[id]&1 == 1 }
			a := evalWith(x, bigAnd, asg)
			b := evalWith(y, bigAnd, asg)
			if a != b {
				if bigAnd < 1<<30 {
					// abbreviating large conjunctions loses their meaning:
					// only an "equal" verdict is sound at this stage
					goto nextStage
				}
				var parts []string
				for i, id := range ids {
					parts = append(parts, fmt.Sprintf("%s=%d", U.atoms[id], m>>i&1))
				}
				return false, true, fmt.Sprintf("differ (got %v, expected %v) at %s", a, b, strings.Join(parts, " "))
			}
		}
		return true, true, ""
	nextStage:
	}
	// lazily expanded truth table (Shannon expansion with early termination)
	budget := 400000
	diff := bxor(x, y)
	ok, done, wit := shannonZero(diff, newFactSet(nil), &budget, nil)
	if !done {
		return false, false, "too many atoms for a truth table"
	}
	if !ok {
		return false, true, "differ when " + strings.Join(wit, " ")
	}
	return true, true, ""
}

// shannonZero decides whether d is identically 0 by case-splitting on its
// leaf atoms; budget bounds the number of expansions.
func shannonZero(d Bit, fs *factSet, budget *int, trail []string) (zero bool, decided bool, witness []string) {
	d = fs.bit(d)
	if d.top {
		return false, false, nil
	}
	if isConst(d) {
		return !d.c, true, trail
	}
	*budget--
	if *budget <= 0 {
		return false, false, nil
	}
	a := firstLeaf(d)
	if a == nil {
		return false, false, nil
	}
	for _, v := range []bool{false, true} {
		nf := newFactSet(fs)
		nf.atoms[a.id] = v
		val := "0"
		if v {
			val = "1"
		}
		z, dec, w := shannonZero(d, nf, budget, append(append([]string(nil), trail...), a.String()+"="+val))
		if !dec {
			return false, false, nil
		}
		if !z {
			return false, true, w
		}
	}
	return true, true, nil
}

func firstLeaf(b Bit) *atom {
	for _, id := range b.atoms {
		a := U.atoms[id]
		if a.kind == aSrc {
			if a.src.Def != nil || a.src.Term != nil {
				// treat derived atoms as leaves too (uninterpreted)
			}
			return a
		}
		for _, o := range a.ops {
			if l := firstLeaf(o); l != nil {
				return l
			}
		}
	}
	return nil
}

func collectLeaves(b Bit, bigAnd int, into map[int32]*atom) {
	for _, id := range b.atoms {
		a := U.atoms[id]
		if a.kind == aSrc || len(a.ops) > bigAnd {
			into[a.id] = a
			continue
		}
		for _, o := range a.ops {
			collectLeaves(o, bigAnd, into)
		}
	}
}

func evalWith(b Bit, bigAnd int, asg func(id int32) bool) bool {
	v := b.c
	for _, id := range b.atoms {
		a := U.atoms[id]
		var x bool
		if a.kind == aSrc || len(a.ops) > bigAnd {
			x = asg(a.id)
		} else {
			x = true
			for _, o := range a.ops {
				if !evalWith(o, bigAnd, asg) {
					x = false
					break
				}
			}
		}
		if x {
			v = !v
		}
	}
	return v
}

// ---------------------------------------------------------------- helpers

// summary analyses an anchor; failures become undecided obligations.
func (c *Checker) summary(rule, anchor string, opts *AnalyzeOpts) (*Summary, *ssa.Function) {
	fn, err := c.P.Func(anchor)
	if err != nil {
		c.undecided(rule, anchor, "anchor", err.Error())
		return nil, nil
	}
	c.analysed[fn.String()] = true
	s := Analyze(c.P, fn, opts)
	if s.Failed != "" {
		c.undecided(rule, anchor, "analysis", s.Failed)
		return nil, fn
	}
	return s, fn
}

func paramName(s *Summary, i int) string {
	switch p := s.Params[i].(type) {
	case *Ptr:
		return p.Obj.Name
	case *SliceV:
		return p.Obj.Name
	}
	return s.Fn.Params[i].Name()
}

func paramObj(s *Summary, i int) *Obj {
	switch p := s.Params[i].(type) {
	case *Ptr:
		return p.Obj
	case *SliceV:
		return p.Obj
	}
	return nil
}

// uintArg builds an argument whose low n bits are the named source and whose
// higher bits are 0 (an "in-range" value of an n-bit field).
func uintArg(name string, n, w int, signed bool) *BV {
	s := srcBV(U.source("param", name, n), false)
	return extendBV(s, w, signed)
}

func boolArg(name string) *BV { return srcBV(U.source("param", name, 1), false) }

// andAll conjoins bits.
func andAll(bs ...Bit) Bit {
	r := U.B1
	for _, b := range bs {
		r = band(r, b)
	}
	return r
}

// eqConst is the bit "bits == k" (bits LSB first).
func eqConst(bits []Bit, k uint64) Bit {
	r := U.B1
	for i, b := range bits {
		if k>>uint(i)&1 == 1 {
			r = band(r, b)
		} else {
			r = band(r, bnot(b))
		}
	}
	return r
}
