package main

import (
	"fmt"
	"go/types"
	"sort"
	"strings"
)

// c10sem.go: step semantics of the SCTE-35 state tracker, decided by abstract
// interpretation from *seeded abstract states*: the open list holds k opaque
// stored descriptors, the blackout fields are constants, the received ring is
// empty; the incoming descriptor and the stored ones are opaque interface
// values whose methods are answered by a hook (CanClose / Equal per scenario,
// constant type, HasPTS). The outcome (closed list, error, new open list,
// blackout fields, what Open() returns) is compared with a reference step
// function written from the statement. These rules replace the SSA-shape
// rules of the first version, which fired on behaviour-preserving
// refactorings (renamed variables, early returns, tagless switch).

// documented "out" types that ProcessDescriptor keeps open (doc.go), plus the
// two blackout types.
var stateOutTypes = func() map[int]bool {
	m := map[int]bool{}
	var spec segcloseSpec
	if jsonUnmarshal(segcloseJSON, &spec) == nil {
		for _, s := range spec.OutTypes {
			var v int
			fmt.Sscanf(s, "0x%x", &v)
			m[v] = true
		}
	}
	return m
}()

type stateSeed struct {
	k        int // stored descriptors o0..o(k-1)
	blackout int // index of the pending breakaway, -1: none
}

type stateEnv struct {
	in      *Interp
	st      *State
	recv    *Ptr
	fieldIx func(name string) int
	descT   types.Type
}

func storedName(i int) string { return fmt.Sprintf("stored %d", i) }

// seedState builds the receiver of a state method.
func seedState(in *Interp, st *State, p *Ptr, sd stateSeed) *stateEnv {
	p.Obj.NonNil = true
	stT := p.T
	sst := structOf(stT)
	fieldIx := func(name string) int {
		for i := 0; i < sst.NumFields(); i++ {
			if sst.Field(i).Name() == name {
				return i
			}
		}
		return -1
	}
	n := &nav{in, st}
	openT := sst.Field(fieldIx("open")).Type()
	descT := openT.Underlying().(*types.Slice).Elem()
	recvT := sst.Field(fieldIx("received")).Type()
	elemPtrT := recvT.Underlying().(*types.Slice).Elem()
	var os []Val
	for i := 0; i < sd.k; i++ {
		os = append(os, &OpaqueV{Why: storedName(i), T: descT})
	}
	in.setCell(st, p.Obj, fmt.Sprint(fieldIx("open")), n.mkSlice("open", descT, os))
	var slots []Val
	for i := 0; i < 10; i++ {
		slots = append(slots, NilV{})
	}
	in.setCell(st, p.Obj, fmt.Sprint(fieldIx("received")), n.mkSlice("received", elemPtrT, slots))
	in.setCell(st, p.Obj, fmt.Sprint(fieldIx("receivedHead")), constInt(0, 64, true))
	b := sd.blackout
	in.setCell(st, p.Obj, fmt.Sprint(fieldIx("inBlackout")), boolBV(bconst(b >= 0)))
	if b < 0 {
		b = 0
	}
	in.setCell(st, p.Obj, fmt.Sprint(fieldIx("blackoutIdx")), constInt(int64(b), 64, true))
	return &stateEnv{in, st, p, fieldIx, descT}
}

// names lists the identities of the elements of a descriptor slice: "stored i",
// "param desc", or a rendering of anything else.
func (n *nav) descNames(v Val) ([]string, bool) {
	es, ok := n.elems(v)
	if !ok {
		return nil, false
	}
	var out []string
	for _, e := range es {
		if o, ok := e.(*OpaqueV); ok {
			out = append(out, strings.TrimPrefix(o.Why, "param "))
		} else {
			out = append(out, showVal(e))
		}
	}
	return out, true
}

func (c *Checker) runStateSemantics() {
	proc, _ := c.P.Func("scte35:(*state).ProcessDescriptor")
	cls, _ := c.P.Func("scte35:(*state).Close")
	opn, _ := c.P.Func("scte35:(*state).Open")
	if proc == nil || cls == nil || opn == nil {
		c.undecided("C10.step", "scte35:(*state)", "anchors", "state methods not found")
		return
	}
	type agg struct {
		n, bad int
		first  string
	}
	results := map[string]*agg{}
	var order []string
	note := func(rule, what, scenario, detail string) {
		k := rule + "\x00" + what
		a := results[k]
		if a == nil {
			a = &agg{}
			results[k] = a
			order = append(order, k)
		}
		a.n++
		if detail != "" {
			a.bad++
			if a.first == "" {
				a.first = scenario + ": " + detail
			}
		}
	}
	hook := func(typeID int, hasPTS bool, answer map[string]bool) func(in *Interp) {
		return func(in *Interp) {
			in.MaxDepth = 12
			in.InvokeHook = func(recv Val, m *types.Func, args []Val, rt types.Type, st *State) (Val, bool) {
				ov, ok := recv.(*OpaqueV)
				if !ok {
					return nil, false
				}
				switch m.Name() {
				case "SCTE35":
					return &OpaqueV{Why: ov.Why + ".SCTE35", T: rt}, true
				case "HasPTS":
					return boolBV(bconst(hasPTS)), true
				case "PTS":
					return constInt(1000, 64, false), true
				case "CanClose", "Equal":
					if o, ok := args[0].(*OpaqueV); ok {
						return boolBV(bconst(answer[o.Why])), true
					}
				case "TypeID":
					if strings.HasPrefix(ov.Why, "param") {
						return constInt(int64(typeID), 8, false), true
					}
					return srcBV(U.source("param", ov.Why+".TypeID", 8), false), true
				case "EventID":
					return srcBV(U.source("param", ov.Why+".EventID", 32), false), true
				}
				return nil, false
			}
		}
	}
	join := func(xs []string) string { return "[" + strings.Join(xs, ", ") + "]" }
	same := func(a, b []string) bool {
		if len(a) != len(b) {
			return false
		}
		for i := range a {
			if a[i] != b[i] {
				return false
			}
		}
		return true
	}
	readState := func(n *nav, env *stateEnv) (open []string, inB bool, idx int64, ok bool) {
		open, ok = n.descNames(n.in.loadPath(n.st, env.recv.Obj, fmt.Sprint(env.fieldIx("open")), types.NewSlice(env.descT)))
		bv, _ := n.in.loadPath(n.st, env.recv.Obj, fmt.Sprint(env.fieldIx("inBlackout")), types.Typ[types.Bool]).(*BV)
		iv, _ := n.in.loadPath(n.st, env.recv.Obj, fmt.Sprint(env.fieldIx("blackoutIdx")), types.Typ[types.Int]).(*BV)
		if bv == nil || iv == nil {
			return nil, false, 0, false
		}
		b, ok1 := bv.ConstInt()
		i, ok2 := iv.ConstInt()
		return open, b != 0, i, ok && ok1 && ok2
	}

	// ---------------- ProcessDescriptor
	for k := 0; k <= 3; k++ {
		for mask := 0; mask < 1<<uint(k); mask++ {
			for _, b := range []int{-1, 0, k - 1} {
				if b >= k || (b == 0 && k == 0) || (b == k-1 && k <= 1 && b != -1 && b != 0) {
					continue
				}
				if b == k-1 && b == 0 && k == 1 {
					// same as b == 0
				}
				for _, t := range []int{0x30, 0x31, 0x10, 0x13, 0x14, 0x35} {
					answer := map[string]bool{}
					var stored []string
					for i := 0; i < k; i++ {
						answer[storedName(i)] = mask>>uint(i)&1 == 1
						stored = append(stored, storedName(i))
					}
					var env *stateEnv
					sum := Analyze(c.P, proc, &AnalyzeOpts{Setup: hook(t, true, answer), Pre: func(in *Interp, st *State, ps []Val) {
						env = seedState(in, st, ps[0].(*Ptr), stateSeed{k, b})
					}})
					sc := fmt.Sprintf("open=%s blackout@%d, incoming type %#x, closable=%0*b", join(stored), b, t, k, mask)
					if sum.Failed != "" {
						note("C10.step", "ProcessDescriptor: closed list and new open list", sc, "analysis: "+sum.Failed)
						continue
					}
					// reference step
					j := k
					for j > 0 && answer[storedName(j-1)] {
						j--
					}
					var wantClosed []string
					for i := k - 1; i >= j; i-- {
						wantClosed = append(wantClosed, storedName(i))
					}
					wantOpen := append([]string(nil), stored[:j]...)
					inB, idx := b >= 0, int64(b)
					if inB && idx >= int64(j) {
						inB = false // the breakaway itself was closed
					}
					switch {
					case t == 0x13:
						inB, idx = true, int64(len(wantOpen))
						wantOpen = append(wantOpen, "desc")
					case t == 0x14:
						if inB {
							inB = false
							wantOpen = wantOpen[:idx]
						}
						wantOpen = append(wantOpen, "desc")
					case stateOutTypes[t]:
						wantOpen = append(wantOpen, "desc")
					}
					n := &nav{sum.in, sum.Out}
					gotClosed, ok1 := n.descNames(sum.RetN(0))
					gotOpen, gInB, gIdx, ok2 := readState(n, env)
					d := ""
					switch {
					case !ok1:
						d = "closed list is " + showVal(sum.RetN(0))
					case !same(gotClosed, wantClosed):
						d = fmt.Sprintf("closed %s, expected the maximal closable suffix, last opened first: %s", join(gotClosed), join(wantClosed))
					case !ok2:
						d = "state after the call is not constant"
					case !same(gotOpen, wantOpen):
						d = fmt.Sprintf("open list becomes %s, expected %s", join(gotOpen), join(wantOpen))
					case gInB != inB || (inB && gIdx != idx):
						d = fmt.Sprintf("blackout fields become (%v,%d), expected (%v,%d)", gInB, gIdx, inB, idx)
					}
					note("C10.step", "ProcessDescriptor: closed = maximal closable suffix (last opened first), open keeps its order and gains only the processed descriptor, blackout fields follow", sc, d)
				}
			}
		}
	}
	// which types stay open (empty tracker, all 256 types)
	for t := 0; t < 256; t++ {
		var env *stateEnv
		sum := Analyze(c.P, proc, &AnalyzeOpts{Setup: hook(t, true, nil), Pre: func(in *Interp, st *State, ps []Val) {
			env = seedState(in, st, ps[0].(*Ptr), stateSeed{0, -1})
		}})
		d := ""
		if sum.Failed != "" {
			d = "analysis: " + sum.Failed
		} else {
			n := &nav{sum.in, sum.Out}
			gotOpen, _, _, ok := readState(n, env)
			want := stateOutTypes[t] || t == 0x13 || t == 0x14
			if !ok || (len(gotOpen) == 1) != want || len(gotOpen) > 1 {
				d = fmt.Sprintf("open list becomes %s", join(gotOpen))
			}
		}
		note("C10.dispatch", "ProcessDescriptor on an empty tracker keeps exactly the documented out types, program breakaway and resumption open (256 types)", fmt.Sprintf("type %#x", t), d)
	}
	// no PTS: rejected, nothing changes
	for k := 0; k <= 2; k++ {
		var env *stateEnv
		var recvObj *Obj
		sum := Analyze(c.P, proc, &AnalyzeOpts{Setup: hook(0x30, false, map[string]bool{storedName(0): true, storedName(1): true}), Pre: func(in *Interp, st *State, ps []Val) {
			env = seedState(in, st, ps[0].(*Ptr), stateSeed{k, -1})
			recvObj = ps[0].(*Ptr).Obj
		}})
		d := ""
		if sum.Failed != "" {
			d = "analysis: " + sum.Failed
		} else {
			if s, ok := sum.RetN(1).(SymConst); !ok || !strings.HasSuffix(s.Name, ".ErrSCTE35UnsupportedSpliceCommand") {
				d = "error is " + showVal(sum.RetN(1))
			}
			if _, isNil := sum.RetN(0).(NilV); !isNil {
				d = "closed list is " + showVal(sum.RetN(0))
			}
			for _, w := range sum.WrittenCells() {
				if strings.HasPrefix(w, recvObj.Name+"[") {
					d = "the tracker is modified: " + w
				}
			}
		}
		_ = env
		note("C10.reject", "a descriptor whose signal has no PTS is rejected with the unsupported-command error and changes nothing", fmt.Sprintf("%d open", k), d)
	}

	// ---------------- Close
	for k := 0; k <= 3; k++ {
		for mask := 0; mask < 1<<uint(k); mask++ {
			for _, b := range []int{-1, 0, k - 1} {
				if b >= k || (b >= 0 && k == 0) {
					continue
				}
				answer := map[string]bool{}
				var stored []string
				for i := 0; i < k; i++ {
					answer[storedName(i)] = mask>>uint(i)&1 == 1
					stored = append(stored, storedName(i))
				}
				var env *stateEnv
				var recvObj *Obj
				sum := Analyze(c.P, cls, &AnalyzeOpts{Setup: hook(0x30, true, answer), Pre: func(in *Interp, st *State, ps []Val) {
					env = seedState(in, st, ps[0].(*Ptr), stateSeed{k, b})
					recvObj = ps[0].(*Ptr).Obj
				}})
				sc := fmt.Sprintf("open=%s blackout@%d, equal=%0*b", join(stored), b, k, mask)
				if sum.Failed != "" {
					note("C10.step", "Close", sc, "analysis: "+sum.Failed)
					continue
				}
				at := -1
				for i := k - 1; i >= 0; i-- {
					if answer[storedName(i)] {
						at = i
						break
					}
				}
				n := &nav{sum.in, sum.Out}
				d := ""
				if at < 0 {
					if s, ok := sum.RetN(1).(SymConst); !ok || !strings.HasSuffix(s.Name, ".ErrSCTE35DescriptorNotFound") {
						d = "no open descriptor equals the argument but the error is " + showVal(sum.RetN(1))
					}
					for _, w := range sum.WrittenCells() {
						if strings.HasPrefix(w, recvObj.Name+"[") {
							d = "nothing to close but the tracker is modified: " + w
						}
					}
				} else {
					wantOpen := append(append([]string(nil), stored[:at]...), stored[at+1:]...)
					inB, idx := b >= 0, int64(b)
					if inB {
						if at == b {
							inB = false
						} else if at < b {
							idx--
						}
					}
					gotClosed, ok1 := n.descNames(sum.RetN(0))
					gotOpen, gInB, gIdx, ok2 := readState(n, env)
					switch {
					case !ok1 || !same(gotClosed, []string{storedName(at)}):
						d = fmt.Sprintf("returns %s, expected [%s] (the last opened equal descriptor)", join(gotClosed), storedName(at))
					case !ok2 || !same(gotOpen, wantOpen):
						d = fmt.Sprintf("open list becomes %s, expected %s", join(gotOpen), join(wantOpen))
					case gInB != inB || (inB && gIdx != idx):
						d = fmt.Sprintf("blackout fields become (%v,%d), expected (%v,%d)", gInB, gIdx, inB, idx)
					}
					if eq, dec, _ := equivBits(n.in.nilBit(sum.RetN(1)), U.B1, 8); !eq || !dec {
						d = "an error is returned although a descriptor was closed"
					}
				}
				note("C10.step", "Close: removes exactly the last opened descriptor equal to the argument and returns it; the others keep their order; not found leaves the tracker alone", sc, d)
			}
		}
	}

	// ---------------- Open
	for k := 0; k <= 3; k++ {
		for b := -1; b < k; b++ {
			var stored []string
			for i := 0; i < k; i++ {
				stored = append(stored, storedName(i))
			}
			var recvObj *Obj
			var openObj *Obj
			sum := Analyze(c.P, opn, &AnalyzeOpts{Setup: hook(0x30, true, nil), Pre: func(in *Interp, st *State, ps []Val) {
				env := seedState(in, st, ps[0].(*Ptr), stateSeed{k, b})
				recvObj = ps[0].(*Ptr).Obj
				if sv, ok := in.loadPath(st, recvObj, fmt.Sprint(env.fieldIx("open")), types.NewSlice(env.descT)).(*SliceV); ok {
					openObj = sv.Obj
				}
			}})
			sc := fmt.Sprintf("open=%s blackout@%d", join(stored), b)
			d := ""
			if sum.Failed != "" {
				d = "analysis: " + sum.Failed
			} else {
				n := &nav{sum.in, sum.Out}
				got, ok := n.descNames(sum.Ret)
				want := append([]string(nil), stored...)
				if b >= 0 {
					want = append(want[:b:b], want[b+1:]...)
				}
				if !ok || !same(got, want) {
					d = fmt.Sprintf("returns %s, expected %s", join(got), join(want))
				}
				if sv, isS := sum.Ret.(*SliceV); isS && k > 0 && sv.Obj == openObj {
					d = "returns the internal slice, not a copy"
				}
				for _, w := range sum.WrittenCells() {
					if strings.HasPrefix(w, recvObj.Name+"[") || (openObj != nil && strings.HasPrefix(w, openObj.Name+"[")) {
						d = "Open() modifies the tracker: " + w
					}
				}
			}
			note("C10.step", "Open: a fresh copy of the open list in order, without the pending program breakaway; the tracker is not modified", sc, d)
		}
	}
	sort.Strings(nil)
	for _, k := range order {
		a := results[k]
		p := strings.SplitN(k, "\x00", 2)
		c.check(p[0], "scte35:(*state)", p[1], a.bad == 0, fmt.Sprintf("%d of %d scenarios fail; first: %s", a.bad, a.n, a.first))
	}
}
