package main

import (
	"fmt"
	"go/types"
	"strconv"
	"strings"
)

// Obj is an abstract memory object: a parameter's pointee, a local
// allocation, a make() result, a global.
type Obj struct {
	id   int
	Name string
	Kind string     // "param", "alloc", "make", "global", "lazy"
	T    types.Type // root type (array/struct/basic); for slice-backed objects the element type
	Seq  bool       // object is a sequence of T cells of unknown or known length N
	N    int        // number of cells when Seq and known, else -1
	Src  bool       // unwritten cells are input sources (else zero values)
	Len  *BV        // for Seq objects: the length (may be symbolic)
	// NonNil: a pointer to this object is known not to be nil (set by a
	// check's seeding when the analysed function dereferences it first).
	NonNil bool
}

func (o *Obj) String() string { return o.Name }

// State is the abstract heap at a program point.
type State struct {
	cells map[*Obj]map[string]Val
	havoc map[*Obj]int // >0: unwritten cells are unknown (fresh), value = epoch
	dirty map[*Obj]bool
	born  map[*Obj]bool       // objects allocated on the way to this point
	ment  map[*Obj][]mapEntry // symbolic-key updates of map objects, in order
}

func newState() *State {
	return &State{cells: map[*Obj]map[string]Val{}, havoc: map[*Obj]int{}, dirty: map[*Obj]bool{}, born: map[*Obj]bool{}, ment: map[*Obj][]mapEntry{}}
}

func (s *State) clone() *State {
	n := newState()
	for o, m := range s.cells {
		mm := make(map[string]Val, len(m))
		for k, v := range m {
			mm[k] = v
		}
		n.cells[o] = mm
	}
	for o, v := range s.havoc {
		n.havoc[o] = v
	}
	for o, v := range s.dirty {
		n.dirty[o] = v
	}
	for o, v := range s.born {
		n.born[o] = v
	}
	for o, v := range s.ment {
		n.ment[o] = append([]mapEntry(nil), v...)
	}
	return n
}

func joinPath(p string, i int) string {
	if p == "" {
		return strconv.Itoa(i)
	}
	return p + "." + strconv.Itoa(i)
}

func isAggregate(t types.Type) bool {
	switch t.Underlying().(type) {
	case *types.Struct, *types.Array:
		return true
	}
	return false
}

var sizes = types.SizesFor("gc", "amd64")

func intWidth(t types.Type) (int, bool, bool) {
	b, ok := t.Underlying().(*types.Basic)
	if !ok {
		return 0, false, false
	}
	info := b.Info()
	if info&types.IsBoolean != 0 {
		return 1, false, true
	}
	if info&types.IsInteger == 0 {
		return 0, false, false
	}
	w := int(sizes.Sizeof(b)) * 8
	if b.Kind() == types.UntypedInt || b.Kind() == types.UntypedRune {
		w = 64
	}
	return w, info&types.IsUnsigned == 0, true
}

// zeroVal builds the zero value of type t.
func zeroVal(t types.Type) Val {
	if w, sg, ok := intWidth(t); ok {
		return constInt(0, w, sg)
	}
	switch u := t.Underlying().(type) {
	case *types.Basic:
		if u.Info()&types.IsString != 0 {
			e := ""
			return &StrV{Const: &e}
		}
		return &OpaqueV{Why: "zero " + t.String(), T: t}
	case *types.Struct:
		sv := &StructV{T: t}
		for i := 0; i < u.NumFields(); i++ {
			sv.Fields = append(sv.Fields, zeroVal(u.Field(i).Type()))
		}
		return sv
	case *types.Array:
		sv := &StructV{T: t}
		z := zeroVal(u.Elem())
		for i := int64(0); i < u.Len(); i++ {
			sv.Fields = append(sv.Fields, z)
		}
		return sv
	default:
		return NilV{}
	}
}

// Interp-level memory access -------------------------------------------------

func (in *Interp) newObj(name, kind string, t types.Type, src bool) *Obj {
	in.nobj++
	return &Obj{id: in.nobj, Name: name, Kind: kind, T: t, N: -1, Src: src}
}

// leafInit gives the initial value of an unwritten leaf cell.
func (in *Interp) leafInit(st *State, o *Obj, path string, t types.Type) Val {
	name := o.Name
	if path != "" {
		if o.Seq || isArrayRoot(o) {
			name = fmt.Sprintf("%s[%s]", o.Name, path)
		} else {
			name = fmt.Sprintf("%s.%s", o.Name, path)
		}
	}
	if st.havoc[o] > 0 {
		return in.freshOf(t, fmt.Sprintf("%s@h%d", name, st.havoc[o]))
	}
	if !o.Src {
		return zeroVal(t)
	}
	if o.Kind == "global" && path == "" {
		if _, ok := t.Underlying().(*types.Interface); ok {
			return SymConst{Name: o.Name}
		}
	}
	return in.inputOf(t, name)
}

func isArrayRoot(o *Obj) bool {
	_, ok := o.T.Underlying().(*types.Array)
	return ok
}

// inputOf builds an input (source) value of type t with a canonical name.
func (in *Interp) inputOf(t types.Type, name string) Val {
	if w, sg, ok := intWidth(t); ok {
		return srcBV(U.source("cell", name, w), sg)
	}
	switch u := t.Underlying().(type) {
	case *types.Pointer:
		o := in.lazyObj(name+"^", u.Elem(), false)
		return &Ptr{Obj: o, T: u.Elem()}
	case *types.Slice:
		o := in.lazyObj(name+"[]", u.Elem(), true)
		return &SliceV{Obj: o, Lo: constInt(0, 64, true), Len: o.Len, Elem: u.Elem()}
	case *types.Basic:
		if u.Info()&types.IsString != 0 {
			return &StrV{Opaque: mkTerm("str:"+name, 0)}
		}
	case *types.Interface:
		return &OpaqueV{Why: "input " + name, T: t}
	}
	return &OpaqueV{Why: "input " + name, T: t}
}

func (in *Interp) lazyObj(name string, t types.Type, seq bool) *Obj {
	if o, ok := in.lazy[name]; ok {
		return o
	}
	o := in.newObj(name, "lazy", t, true)
	o.Seq = seq
	if seq {
		ls := U.source("len", "len("+strings.TrimSuffix(name, "[]")+")", 64)
		ls.Obj = o
		o.Len = srcBV(ls, true)
	}
	in.lazy[name] = o
	return o
}

func (in *Interp) freshOf(t types.Type, name string) Val {
	if w, sg, ok := intWidth(t); ok {
		return srcBV(U.freshSource("fresh", name, w), sg)
	}
	return &OpaqueV{Why: "unknown " + name, T: t}
}

// elemType returns the type of the component selected by index/field i of t.
func compType(t types.Type, i int) types.Type {
	switch u := t.Underlying().(type) {
	case *types.Struct:
		return u.Field(i).Type()
	case *types.Array:
		return u.Elem()
	}
	return nil
}

func (in *Interp) load(st *State, p *Ptr) Val {
	if p.Dyn != nil {
		return in.loadDyn(st, p)
	}
	return in.loadPath(st, p.Obj, p.Path, p.T)
}

func (in *Interp) loadPath(st *State, o *Obj, path string, t types.Type) Val {
	// an aggregate that was stored as one opaque value (the result of an
	// uninterpreted call) is read back as that value
	if isAggregate(t) {
		if m := st.cells[o]; m != nil {
			if v, ok := m[path]; ok {
				if _, isOpaque := v.(*OpaqueV); isOpaque {
					return v
				}
			}
		}
	}
	switch u := t.Underlying().(type) {
	case *types.Struct:
		sv := &StructV{T: t}
		for i := 0; i < u.NumFields(); i++ {
			sv.Fields = append(sv.Fields, in.loadPath(st, o, joinPath(path, i), u.Field(i).Type()))
		}
		return sv
	case *types.Array:
		sv := &StructV{T: t}
		for i := 0; i < int(u.Len()); i++ {
			sv.Fields = append(sv.Fields, in.loadPath(st, o, joinPath(path, i), u.Elem()))
		}
		return sv
	}
	if m := st.cells[o]; m != nil {
		if v, ok := m[path]; ok {
			return v
		}
	}
	v := in.leafInit(st, o, path, t)
	if st.havoc[o] > 0 {
		in.setCell(st, o, path, v)
	}
	return v
}

func (in *Interp) setCell(st *State, o *Obj, path string, v Val) {
	m := st.cells[o]
	if m == nil {
		m = map[string]Val{}
		st.cells[o] = m
	}
	m[path] = v
}

// setCellDeep stores v at path without a store event, splitting aggregate
// values into their leaf cells (the layout loadPath reads).
func (in *Interp) setCellDeep(st *State, o *Obj, path string, t types.Type, v Val) {
	if sv, ok := v.(*StructV); ok && t != nil && isAggregate(t) {
		for i, f := range sv.Fields {
			in.setCellDeep(st, o, joinPath(path, i), compType(t, i), f)
		}
		return
	}
	in.setCell(st, o, path, v)
}

func (in *Interp) store(st *State, p *Ptr, v Val) {
	if p.Dyn != nil {
		in.event(Event{Kind: "dynstore", Obj: p.Obj, Path: p.Path, Idx: p.Dyn, Val: v})
		in.havocObj(st, p.Obj)
		return
	}
	in.storePath(st, p.Obj, p.Path, p.T, v)
}

func (in *Interp) storePath(st *State, o *Obj, path string, t types.Type, v Val) {
	if sv, ok := v.(*StructV); ok && isAggregate(t) {
		for i, f := range sv.Fields {
			in.storePath(st, o, joinPath(path, i), compType(t, i), f)
		}
		return
	}
	st.dirty[o] = true
	in.setCell(st, o, path, v)
	in.event(Event{Kind: "store", Obj: o, Path: path, Val: v})
}

func (in *Interp) havocObj(st *State, o *Obj) {
	in.epoch++
	st.havoc[o] = in.epoch
	st.dirty[o] = true
	delete(st.cells, o)
}

// loadDyn reads through a non-constant index.
func (in *Interp) loadDyn(st *State, p *Ptr) Val {
	w, sg, ok := intWidth(p.T)
	if !ok {
		return &OpaqueV{Why: "dynamic load of " + p.T.String(), T: p.T}
	}
	if !st.dirty[p.Obj] && p.Obj.Src {
		idx := p.Dyn
		if p.Base != 0 {
			idx = bvAdd(idx, constInt(int64(p.Base), idx.W, idx.Signed), false)
		}
		t := mkTerm("cellat:"+p.Obj.Name+"/"+p.Path, w, idx.Term())
		return termBV(t, w, sg)
	}
	in.epoch++
	return srcBV(U.freshSource("fresh", fmt.Sprintf("%s[dyn]@%d", p.Obj.Name, in.epoch), w), sg)
}
