package main

// bytes.Buffer remaining-length typestate for the bounds engine.
//
// For a buffer created in the function by bytes.NewBuffer(x), the number of
// unread bytes is tracked as an affine form along the control flow: Next(n)
// yields exactly n bytes (and consumes them) when n ≤ remaining is provable
// at that point, ReadByte consumes one byte when one is provably left,
// UnreadByte gives one back, Len() *is* the remaining count (and re-
// synchronises the tracking after an untracked operation). At joins the
// count survives only if all incoming counts are the same form.

import (
	"fmt"
	"os"
	"strings"

	"golang.org/x/tools/go/ssa"
)

type bufState map[string]*aff // receiver expression -> remaining (nil = unknown)

func (s bufState) clone() bufState {
	n := bufState{}
	for k, v := range s {
		n[k] = v
	}
	return n
}

// bufRecv returns the receiver key of a *bytes.Buffer method call.
func bufRecv(ci ssa.CallInstruction) (string, string, bool) {
	name := calleeName(ci)
	if !strings.HasPrefix(name, "(*bytes.Buffer).") {
		return "", "", false
	}
	args := ci.Common().Args
	if len(args) == 0 {
		return "", "", false
	}
	return sx(args[0]), strings.TrimPrefix(name, "(*bytes.Buffer)."), true
}

// closureReadByte recognises a call of a closure whose body is a single
// ReadByte on a captured buffer; returns the receiver key in caller terms.
func closureReadByte(ci ssa.CallInstruction) (string, bool) {
	mc, ok := ci.Common().Value.(*ssa.MakeClosure)
	if !ok {
		return "", false
	}
	fn, ok := mc.Fn.(*ssa.Function)
	if !ok || len(fn.Blocks) != 1 {
		return "", false
	}
	n := 0
	var recv ssa.Value
	for _, ins := range fn.Blocks[0].Instrs {
		if c, ok := ins.(ssa.CallInstruction); ok {
			n++
			if calleeName(c) != "(*bytes.Buffer).ReadByte" {
				return "", false
			}
			recv = c.Common().Args[0]
		}
		if _, ok := ins.(*ssa.Store); ok {
			return "", false
		}
	}
	if n != 1 {
		return "", false
	}
	// receiver must be a load of a free variable: map it to the binding
	ld, ok := recv.(*ssa.UnOp)
	if !ok {
		return "", false
	}
	fv, ok := ld.X.(*ssa.FreeVar)
	if !ok {
		return "", false
	}
	for i, f := range fn.FreeVars {
		if f == fv && i < len(mc.Bindings) {
			return "*" + sx(mc.Bindings[i]), true
		}
	}
	return "", false
}

// helperReadByte recognises a call of a package-level helper whose body is a
// single ReadByte on one of its parameters (the same thing as the closure
// above, written as a function); returns the receiver key in caller terms.
func helperReadByte(ci ssa.CallInstruction) (string, bool) {
	if ci.Common().IsInvoke() {
		return "", false
	}
	fn := ci.Common().StaticCallee()
	if fn == nil || len(fn.Blocks) != 1 || len(fn.FreeVars) != 0 {
		return "", false
	}
	n := 0
	var recv ssa.Value
	for _, ins := range fn.Blocks[0].Instrs {
		if c, ok := ins.(ssa.CallInstruction); ok {
			n++
			if calleeName(c) != "(*bytes.Buffer).ReadByte" {
				return "", false
			}
			recv = c.Common().Args[0]
		}
		if _, ok := ins.(*ssa.Store); ok {
			return "", false
		}
	}
	if n != 1 {
		return "", false
	}
	for i, p := range fn.Params {
		if recv == ssa.Value(p) && i < len(ci.Common().Args) {
			return sx(ci.Common().Args[i]), true
		}
	}
	return "", false
}

// runBuffers computes the typestate for all blocks (called from computeFacts
// in reverse post-order, after the block's facts are known).
func (bf *boundsFn) bufTransfer(b *ssa.BasicBlock, in bufState) bufState {
	st := in.clone()
	for _, ins := range b.Instrs {
		switch x := ins.(type) {
		case *ssa.Store:
			// re-assignment of a variable holding a buffer
			k := "*" + sx(x.Addr)
			if _, ok := st[k]; ok {
				st[k] = nil
			}
			if call, ok := x.Val.(*ssa.Call); ok && calleeName(call) == "bytes.NewBuffer" {
				a := bf.lenAff(call.Call.Args[0])
				st[k] = &a
			}
		case ssa.CallInstruction:
			if v, ok := ins.(*ssa.Call); ok && calleeName(v) == "bytes.NewBuffer" {
				a := bf.lenAff(v.Call.Args[0])
				st[sx(v)] = &a
				continue
			}
			if k, ok := closureReadByte(x); ok {
				bf.bufRead(st, k, b, ins)
				continue
			}
			if k, ok := helperReadByte(x); ok {
				bf.bufRead(st, k, b, ins)
				continue
			}
			recv, m, ok := bufRecv(x)
			if !ok {
				// any other call that receives a tracked buffer loses track;
				// what was left at that moment is remembered for the callee
				// (premise of a helper that reads without checking again)
				for i, a := range x.Common().Args {
					k := sx(a)
					if rem, tracked := st[k]; tracked {
						if rem != nil {
							if bf.bufAtCall == nil {
								bf.bufAtCall = map[ssa.CallInstruction]map[int]aff{}
							}
							if bf.bufAtCall[x] == nil {
								bf.bufAtCall[x] = map[int]aff{}
							}
							bf.bufAtCall[x][i] = *rem
						}
						st[k] = nil
					}
				}
				continue
			}
			rem := st[recv]
			switch m {
			case "Len":
				if v, ok := ins.(*ssa.Call); ok {
					if rem != nil {
						bf.valOverride[v] = rem
					} else {
						a := affAtom(ssa.Value(v))
						st[recv] = &a // Len() is the remaining count: resynchronise
					}
				}
			case "Next":
				v, isVal := ins.(*ssa.Call)
				n := bf.affOf(x.Common().Args[1])
				if rem != nil && isVal && bf.proveAt(rem.add(n, -1), b, ins) && bf.proveAt(n, b, ins) {
					bf.lenOverride[v] = &n
					r := rem.add(n, -1)
					st[recv] = &r
				} else {
					if os.Getenv("BUFDEBUG") != "" && rem != nil {
						fmt.Fprintf(os.Stderr, "  NEXT fail %s rem=%s n=%s facts:", recv, bf.affString(*rem), bf.affString(n))
						for _, f := range bf.facts[b] {
							fmt.Fprintf(os.Stderr, " [%s]", bf.affString(f))
						}
						fmt.Fprintln(os.Stderr)
					}
					st[recv] = nil
				}
			case "ReadByte":
				bf.bufRead(st, recv, b, ins)
			case "UnreadByte":
				if rem != nil {
					r := rem.add(affConst(1), 1)
					st[recv] = &r
				}
			case "Bytes", "String":
			default:
				st[recv] = nil
			}
		}
	}
	return st
}

func (bf *boundsFn) bufRead(st bufState, recv string, b *ssa.BasicBlock, at ssa.Instruction) {
	rem := st[recv]
	if rem == nil {
		return
	}
	if bf.proveAt(rem.add(affConst(1), -1), b, at) {
		r := rem.add(affConst(1), -1)
		st[recv] = &r
		return
	}
	st[recv] = nil
}

func sameAff(a, b *aff) bool {
	if a == nil || b == nil {
		return a == b
	}
	d := a.add(*b, -1)
	return d.isConst() && d.k == 0
}

// bufWriteFacts: write side. For a bytes.Buffer that is a local variable of
// the function (zero value) and is only ever used as the receiver of Write,
// WriteByte, WriteString, Bytes, Len and String, nothing removes bytes, so at
// a Bytes()/Len() call the content is at least as long as the sum of the
// arguments of the Write calls that dominate it:
//
//	len(b.Bytes()) − Σ len(argᵢ) ≥ 0
func (bf *boundsFn) bufWriteFacts() {
	for _, blk := range bf.fn.Blocks {
		for _, ins := range blk.Instrs {
			al, ok := ins.(*ssa.Alloc)
			if !ok || !strings.HasSuffix(al.Type().String(), "*bytes.Buffer") || al.Referrers() == nil {
				continue
			}
			type use struct {
				call *ssa.Call
				m    string
			}
			var uses []use
			clean := true
			for _, r := range *al.Referrers() {
				call, isCall := r.(*ssa.Call)
				if !isCall {
					if _, dbg := r.(*ssa.DebugRef); dbg {
						continue
					}
					clean = false
					break
				}
				recv, m, isBuf := bufRecv(call)
				if !isBuf || recv != sx(al) || len(call.Call.Args) == 0 || call.Call.Args[0] != ssa.Value(al) {
					clean = false
					break
				}
				for _, a := range call.Call.Args[1:] {
					if a == ssa.Value(al) {
						clean = false
					}
				}
				switch m {
				case "Write", "WriteByte", "WriteString", "Bytes", "Len", "String":
					uses = append(uses, use{call, m})
				default:
					clean = false
				}
			}
			if !clean {
				continue
			}
			for _, rd := range uses {
				if rd.m != "Bytes" && rd.m != "Len" {
					continue
				}
				sum := aff{}
				for _, w := range uses {
					var n aff
					switch w.m {
					case "Write", "WriteString":
						n = bf.lenAff(w.call.Call.Args[1])
					case "WriteByte":
						n = affConst(1)
					default:
						continue
					}
					dom := w.call.Block() != rd.call.Block() && w.call.Block().Dominates(rd.call.Block())
					if w.call.Block() == rd.call.Block() && instrBefore(w.call, rd.call) {
						dom = true
					}
					if !dom || bf.rangeOfAff(n).lo < 0 {
						continue
					}
					sum = sum.add(n, 1)
				}
				if len(sum.t) == 0 && sum.k == 0 {
					continue
				}
				var have aff
				if rd.m == "Bytes" {
					have = bf.lenAff(rd.call)
				} else {
					have = bf.affOf(rd.call)
				}
				bf.global = append(bf.global, have.add(sum, -1))
			}
		}
	}
}

// bufParamLower: a lower bound for the unread bytes of the *bytes.Buffer
// parameter i of fn at entry: the largest constant c ≤ 64 such that at every
// call site the caller's tracked remaining count is provably ≥ c (0 when a
// call site has lost track, or fn has no known callers).
func (B *Bounds) bufParamLower(fn *ssa.Function, i int) int64 {
	key := fmt.Sprintf("%s#%d", fn, i)
	if B.bufLower == nil {
		B.bufLower = map[string]int64{}
	}
	if v, ok := B.bufLower[key]; ok {
		return v
	}
	B.bufLower[key] = 0 // while being computed (recursion): nothing is known
	callers := B.callers[fn]
	if len(callers) == 0 || B.isEntry(fn) || B.addrTkn[fn] {
		return 0 // callers outside the library, or calls through a function value
	}
	lo := int64(64)
	for _, ci := range callers {
		cf := B.of(ci.Parent())
		rem, ok := cf.bufAtCall[ci][i]
		if !ok {
			lo = 0
			break
		}
		c := int64(0)
		for k := lo; k >= 1; k-- {
			if cf.proveAt(rem.add(affConst(k), -1), ci.Block(), ci) {
				c = k
				break
			}
		}
		if c < lo {
			lo = c
		}
		if lo == 0 {
			break
		}
	}
	B.bufLower[key] = lo
	return lo
}
