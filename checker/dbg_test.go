package main

import (
	"testing"
	"time"
)

func TestCRCDebug(t *testing.T) {
	U = newUniverse()
	P, err := loadProgram("/repo")
	if err != nil {
		t.Fatal(err)
	}
	fn, _ := P.Func(":ComputeCRC")
	for n := 0; n <= 2; n++ {
		t0 := time.Now()
		s := Analyze(P, fn, &AnalyzeOpts{SliceLen: map[string]int{"input": n}})
		t.Logf("n=%d failed=%q steps=%d atoms=%d bits=%d in %v", n, s.Failed, s.in.steps, len(U.atoms), len(U.bits), time.Since(t0))
	}
}

func TestCRCLoop(t *testing.T) {
	U = newUniverse()
	P, err := loadProgram("/repo")
	if err != nil {
		t.Fatal(err)
	}
	fn, _ := P.Func(":ComputeCRC")
	t0 := time.Now()
	ls, err := AnalyzeLoop(P, fn, nil)
	t.Logf("err=%v in %v atoms=%d", err, time.Since(t0), len(U.atoms))
	if ls != nil {
		for _, p := range ls.Phis {
			t.Logf("%s: init=%s next=%s", p.Comment, showVal(ls.Init[p]), showVal(ls.Next[p]))
		}
		t.Logf("cond=%s ret=%s", ls.Cond, showVal(ls.Ret))
	}
}
