package main

import (
	"testing"
	"time"

	"golang.org/x/tools/go/ssa"
)

func TestCRCDebug(t *testing.T) {
	U = newUniverse()
	P, err := loadProgram("/repo")
	if err != nil {
		t.Fatal(err)
	}
	fn, _ := P.Func(":ComputeCRC")
	for n := 0; n <= 2; n++ {
		t0 := time.Now()
		s := Analyze(P, fn, &AnalyzeOpts{SliceLen: map[string]int{"input": n}})
		t.Logf("n=%d failed=%q steps=%d atoms=%d bits=%d in %v", n, s.Failed, s.in.steps, len(U.atoms), len(U.bits), time.Since(t0))
	}
}

func TestCRCLoop(t *testing.T) {
	U = newUniverse()
	P, err := loadProgram("/repo")
	if err != nil {
		t.Fatal(err)
	}
	fn, _ := P.Func(":ComputeCRC")
	t0 := time.Now()
	ls, err := AnalyzeLoop(P, fn, nil)
	t.Logf("err=%v in %v atoms=%d", err, time.Since(t0), len(U.atoms))
	if ls != nil {
		for _, p := range ls.Phis {
			t.Logf("%s: init=%s next=%s", p.Comment, showVal(ls.Init[p]), showVal(ls.Next[p]))
		}
		t.Logf("cond=%s ret=%s", ls.Cond, showVal(ls.Ret))
	}
}

func TestBoundsDbg(t *testing.T) {
	U = newUniverse()
	P, err := loadProgram("/repo")
	if err != nil {
		t.Fatal(err)
	}
	B := newBounds(P)
	fn, _ := P.Func("packet:(*AdaptationField).OPCR")
	bf := B.of(fn)
	for _, b := range fn.Blocks {
		for _, ins := range b.Instrs {
			if ci, ok := ins.(ssa.CallInstruction); ok && calleeName(ci) == "github.com/Comcast/gots/v2.ExtractPCR" {
				a := bf.lenAff(ci.Common().Args[0])
				t.Logf("len arg = %s ; facts:", bf.affString(a))
				for _, f := range bf.facts[b] {
					t.Logf("   %s >= 0", bf.affString(f))
				}
			}
		}
	}
	for _, n := range []string{"packet:(*AdaptationField).opcrStart", "packet:(*AdaptationField).pcrLength", "packet:(*AdaptationField).hasPCR"} {
		f, _ := P.Func(n)
		t.Logf("%s writeFree=%v", n, B.writeFree(f))
	}
}

func TestBoundsDbg2(t *testing.T) {
	U = newUniverse()
	P, err := loadProgram("/repo")
	if err != nil {
		t.Fatal(err)
	}
	B := newBounds(P)
	fn, _ := P.Func("scte35:(*segmentationDescriptor).parseDescriptor")
	bf := B.of(fn)
	for _, li := range findLoopsSSA(fn) {
		for _, ins := range li.header.Instrs {
			if phi, ok := ins.(*ssa.Phi); ok {
				for i, e := range phi.Edges {
					if li.body[li.header.Preds[i]] {
						t.Logf("phi %s back edge: %s  aff=%s", phi.Comment, sx(e), bf.affString(bf.affOf(e)))
					}
				}
			}
		}
	}
}
