package main

import (
	"fmt"
	"strings"
)

// checkDoneImpliesParsable (C05.readpmt): ReadPMT hands the accumulated bytes
// to NewPMT as soon as PmtAccumulatorDoneFunc answers "done"; parseTables then
// slices every section by its announced length without looking at what is
// left (recorded findings when it is called directly on malformed bytes). The
// stream reader is total only because the predicate and the parser walk the
// sections in the same way. This rule decides that agreement on the C06 shape
// family: for every prefix of every shape on which the predicate's answer is
// the constant true, the abstract run of NewPMT on that prefix performs no
// slice or index operation whose (constant) bounds are out of range.
func (c *Checker) checkDoneImpliesParsable() {
	const rule = "C05.readpmt"
	const anchor = "psi:PmtAccumulatorDoneFunc+psi:NewPMT"
	done, err1 := c.P.Func("psi:PmtAccumulatorDoneFunc")
	newPMT, err2 := c.P.Func("psi:NewPMT")
	if err1 != nil || err2 != nil {
		c.undecided(rule, anchor, "anchor", fmt.Sprint(err1, err2))
		return
	}
	c.analysed[done.String()] = true
	c.analysed[newPMT.String()] = true
	dname, pname := pinnedParamName(done, 0, "b"), pinnedParamName(newPMT, 0, "pmtBytes")
	var bad []string
	accepted, shapes := 0, 0
	for _, sh := range pmtShapes {
		total, _, _ := sh.layout()
		if total > 340 {
			continue // the long shapes add nothing here: the walk is the same, only the lengths differ
		}
		shapes++
		for k := 0; k <= total; k++ {
			d := Analyze(c.P, done, &AnalyzeOpts{SliceLen: map[string]int{dname: k}, Pre: seedShape(sh)})
			if d.Failed != "" {
				bad = append(bad, fmt.Sprintf("shape '%s' prefix %d: predicate: %s", sh.name, k, d.Failed))
				break
			}
			ret, _ := d.RetN(0).(*BV)
			if ret == nil {
				continue
			}
			if v, ok := ret.ConstInt(); !ok || v != 1 {
				continue
			}
			accepted++
			s := Analyze(c.P, newPMT, &AnalyzeOpts{SliceLen: map[string]int{pname: k}, Pre: seedShape(sh), Setup: pmtOpaqueCtors})
			if s.Failed != "" {
				bad = append(bad, fmt.Sprintf("shape '%s': the predicate accepts the first %d bytes, NewPMT on them: %s", sh.name, k, s.Failed))
				continue
			}
			if why := outOfRange(s); why != "" {
				bad = append(bad, fmt.Sprintf("shape '%s': the predicate accepts the first %d of %d bytes, NewPMT on them panics: %s", sh.name, k, total, why))
			}
		}
	}
	d := ""
	if len(bad) > 0 {
		d = fmt.Sprintf("%d accepted prefixes fail; first: %s", len(bad), bad[0])
	}
	c.check(rule, anchor, "every payload prefix the completion predicate accepts is parsed by NewPMT without an out-of-range slice or index (the reader's two section walks agree)", len(bad) == 0, d)
	c.floorCheck("C05.readpmt shapes", shapes, 10)
	c.floorCheck("C05.readpmt accepted prefixes", accepted, 20)
}

// outOfRange reports the first slice/index event of the run that is executed
// unconditionally with constant operands that are out of range.
func outOfRange(s *Summary) string {
	cst := func(b *BV) (int64, bool) {
		if b == nil {
			return 0, false
		}
		return b.ConstInt()
	}
	for i := range s.Events {
		e := &s.Events[i]
		if e.Cond != nil && (!isConst(e.Cond) || !e.Cond.c) {
			continue
		}
		pos := ""
		if e.Fn != nil {
			pos = " in " + strings.TrimPrefix(e.Fn.String(), modPath+"/")
		}
		switch e.Kind {
		case "panic":
			return "panic " + e.Note + pos
		case "slice":
			if len(e.Args) < 2 {
				continue
			}
			lo, ok1 := cst(e.Idx)
			hiV, _ := e.Args[0].(*BV)
			hi, ok2 := cst(hiV)
			lnV, _ := e.Args[1].(*BV)
			limit, ok3 := cst(lnV)
			if len(e.Args) > 2 {
				if p, ok := e.Args[2].(*SliceV); ok && p.Cap != nil {
					if cp, okc := cst(p.Cap); okc {
						limit, ok3 = cp, true
					}
				}
			}
			if ok1 && ok2 && ok3 && (lo < 0 || lo > hi || hi > limit) {
				return fmt.Sprintf("slice [%d:%d] of %d bytes%s", lo, hi, limit, pos)
			}
		case "index":
			if len(e.Args) < 1 {
				continue
			}
			p, ok := e.Args[0].(*SliceV)
			if !ok {
				continue
			}
			k, ok1 := cst(e.Idx)
			n, ok2 := cst(p.Len)
			if ok1 && ok2 && (k < 0 || k >= n) {
				return fmt.Sprintf("index %d of %d bytes%s", k, n, pos)
			}
		}
	}
	return ""
}
