package main

import (
	"fmt"
	"go/token"
	"go/types"
	"sort"
	"strings"

	"golang.org/x/tools/go/ssa"
)

// bReq is one inequality (≥ 0) an instruction needs in order not to panic.
type bReq struct {
	e    aff
	what string
}

type bSite struct {
	fn        *ssa.Function
	ins       ssa.Instruction
	kind      string // "index", "slice", "conv", "contract", "div", "panic", "assert", "make"
	construct string
	reqs      []bReq
}

// stdlib argument contracts: callee name -> (argument index, minimum length)
var lenContracts = map[string][2]int{
	"(encoding/binary.bigEndian).Uint16":       {1, 2},
	"(encoding/binary.bigEndian).Uint32":       {1, 4},
	"(encoding/binary.bigEndian).Uint64":       {1, 8},
	"(encoding/binary.bigEndian).PutUint16":    {1, 2},
	"(encoding/binary.bigEndian).PutUint32":    {1, 4},
	"(encoding/binary.bigEndian).PutUint64":    {1, 8},
	"(encoding/binary.littleEndian).Uint16":    {1, 2},
	"(encoding/binary.littleEndian).Uint32":    {1, 4},
	"(encoding/binary.littleEndian).PutUint32": {1, 4},
}

// isEntry: the function can be called with arbitrary arguments by a user of
// the decoding API: exported functions of the library packages that take
// bytes, packets or readers, every method with an exported name (objects
// returned by the parsers can be queried through all their methods), function
// values and closures. Exported helpers of the root package (the PCR/PTS
// codecs, ComputeCRC) document fixed-size slices and are outside C05's
// anchors: their requirements are lifted to their callers inside the library.
func (B *Bounds) isEntry(fn *ssa.Function) bool {
	if fn.Parent() != nil {
		return true // closures: parameters unconstrained
	}
	if B.addrTkn[fn] {
		return true
	}
	if fn.Object() == nil {
		return true
	}
	if fn.Pkg == nil {
		return false // synthetic wrapper: its target is analysed instead
	}
	if !fn.Object().Exported() {
		return false
	}
	if fn.Pkg != nil && fn.Pkg.Pkg.Path() == modPath {
		return false
	}
	if fn.Signature.Recv() != nil {
		// the encoder-side API (setters taking caller-chosen values, element
		// removal, creation helpers) of psi/scte35/ebp and the SCTE-35 state
		// tracker are not decoding entry points (C09/C10/C14 cover them)
		pp := fn.Pkg.Pkg.Path()
		n := fn.Name()
		if !strings.HasSuffix(pp, "/packet") && (strings.HasPrefix(n, "Set") || strings.HasPrefix(n, "Remove") || strings.HasPrefix(n, "Add")) {
			return false
		}
		if strings.HasSuffix(B.P.Pos(fn.Pos()), "") && strings.Contains(B.P.Pos(fn.Pos()), "scte35/state.go") {
			return false
		}
		return true
	}
	for _, p := range fn.Params {
		if decodingInput(p.Type()) {
			return true
		}
	}
	return false
}

func decodingInput(t types.Type) bool {
	switch u := t.Underlying().(type) {
	case *types.Slice:
		return true
	case *types.Pointer:
		_, isArr := u.Elem().Underlying().(*types.Array)
		return isArr
	case *types.Interface:
		return true
	}
	return false
}

// sites enumerates the panic-capable instructions of fn.
func (B *Bounds) sites(fn *ssa.Function) []bSite {
	bf := B.of(fn)
	var out []bSite
	add := func(ins ssa.Instruction, kind, construct string, reqs ...bReq) {
		out = append(out, bSite{fn: fn, ins: ins, kind: kind, construct: canonConstruct(fn, construct), reqs: reqs})
	}
	ge0 := func(a aff, what string) bReq { return bReq{a, what} }
	for _, b := range fn.Blocks {
		for _, ins := range b.Instrs {
			switch x := ins.(type) {
			case *ssa.IndexAddr:
				idx := bf.affOf(x.Index)
				ln := bf.lenAff(x.X)
				if idx.isConst() && ln.isConst() {
					if idx.k >= 0 && idx.k < ln.k {
						continue
					}
				}
				add(ins, "index", "&"+sx(bf.canon(x.X))+"["+bf.affString(idx)+"]",
					ge0(idx, "index ≥ 0"), ge0(ln.add(idx, -1).add(affConst(1), -1), "index < len"))
			case *ssa.Index:
				idx := bf.affOf(x.Index)
				ln := bf.lenAff(x.X)
				if idx.isConst() && ln.isConst() && idx.k >= 0 && idx.k < ln.k {
					continue
				}
				add(ins, "index", sx(x.X)+"["+sx(x.Index)+"]",
					ge0(idx, "index ≥ 0"), ge0(ln.add(idx, -1).add(affConst(1), -1), "index < len"))
			case *ssa.Lookup:
				if _, isMap := x.X.Type().Underlying().(*types.Map); isMap {
					continue
				}
				idx := bf.affOf(x.Index)
				ln := bf.lenAff(x.X)
				add(ins, "index", sx(x.X)+"["+sx(x.Index)+"]",
					ge0(idx, "index ≥ 0"), ge0(ln.add(idx, -1).add(affConst(1), -1), "index < len"))
			case *ssa.Slice:
				ln := bf.lenAff(x.X)
				var reqs []bReq
				lo := affConst(0)
				if x.Low != nil {
					lo = bf.affOf(x.Low)
					reqs = append(reqs, ge0(lo, "low ≥ 0"))
				}
				if x.High != nil {
					hi := bf.affOf(x.High)
					reqs = append(reqs, ge0(hi.add(lo, -1), "low ≤ high"), ge0(ln.add(hi, -1), "high ≤ len"))
				} else {
					reqs = append(reqs, ge0(ln.add(lo, -1), "low ≤ len"))
				}
				trivial := true
				for _, r := range reqs {
					if !(r.e.isConst() && r.e.k >= 0) {
						trivial = false
					}
				}
				if trivial {
					continue
				}
				desc := sx(bf.canon(x.X)) + "["
				if x.Low != nil && !(lo.isConst() && lo.k == 0) {
					desc += bf.affString(lo) // s[0:n] and s[:n] are the same site
				}
				desc += ":"
				if x.High != nil {
					desc += bf.affString(bf.affOf(x.High))
				}
				add(ins, "slice", desc+"]", reqs...)
			case *ssa.SliceToArrayPointer:
				n, _ := arrayLen(x.Type())
				add(ins, "slice", "(*[N])("+sx(x.X)+")", ge0(bf.lenAff(x.X).add(affConst(n), -1), "len ≥ array length"))
			case *ssa.TypeAssert:
				if !x.CommaOk {
					add(ins, "assert", sx(x.X)+".("+x.AssertedType.String()+")", bReq{affConst(-1), "unchecked type assertion"})
				}
			case *ssa.BinOp:
				if (x.Op == token.QUO || x.Op == token.REM) && isIntType(x.Type()) {
					d := bf.affOf(x.Y)
					r := bf.rangeOfAff(d)
					if r.lo > 0 || r.hi < 0 {
						continue
					}
					add(ins, "div", sx(x), bReq{d.add(affConst(1), -1), "divisor ≥ 1"})
				}
			case *ssa.Panic:
				add(ins, "panic", "panic("+sx(x.X)+")", bReq{affConst(-1), "explicit panic reachable"})
			case *ssa.MakeSlice:
				l := bf.affOf(x.Len)
				if l.isConst() && l.k >= 0 {
					continue
				}
				add(ins, "make", "make(len="+sx(x.Len)+")", ge0(l, "length ≥ 0"))
			case ssa.CallInstruction:
				name := calleeName(x)
				// method call on an interface value obtained from a
				// (value, error) call whose error is never tested
				if x.Common().IsInvoke() {
					if ex, ok := x.Common().Value.(*ssa.Extract); ok && ex.Index == 0 {
						if call, ok := ex.Tuple.(*ssa.Call); ok && errorUnchecked(call, ins) {
							add(ins, "nilcall", sx(ex)+"."+x.Common().Method.Name()+"()", bReq{affConst(-1), "receiver is nil when " + calleeName(call) + " fails: its error result is not checked"})
						}
					}
				}
				if c, ok := lenContracts[name]; ok {
					args := x.Common().Args
					if c[0] < len(args) {
						ln := bf.lenAff(args[c[0]])
						if ln.isConst() && ln.k >= int64(c[1]) {
							continue
						}
						add(ins, "contract", name+"("+sx(args[c[0]])+")", ge0(ln.add(affConst(int64(c[1])), -1), fmt.Sprintf("len ≥ %d", c[1])))
					}
				}
				if name == "(*bytes.Buffer).Next" && len(x.Common().Args) == 2 {
					n := bf.affOf(x.Common().Args[1])
					if !(n.isConst() && n.k >= 0) {
						add(ins, "contract", name+"("+sx(x.Common().Args[1])+")", ge0(n, "n ≥ 0"))
					}
				}
			}
		}
	}
	return out
}

// proveReq proves e ≥ 0 at instruction ins of bf.fn, lifting to callers when
// the function is internal and the requirement only mentions its parameters.
func (B *Bounds) proveReq(bf *boundsFn, e aff, blk *ssa.BasicBlock, depth int) (bool, string) {
	return B.proveReqAt(bf, e, blk, nil, depth)
}

func (B *Bounds) proveReqAt(bf *boundsFn, e aff, blk *ssa.BasicBlock, at ssa.Instruction, depth int) (bool, string) {
	if bf.proveAt(e, blk, at) {
		return true, ""
	}
	if depth >= 3 || B.isEntry(bf.fn) {
		return false, ""
	}
	callers := B.callers[bf.fn]
	if len(callers) == 0 {
		return false, ""
	}
	// candidates: e itself, or e minus one local fact, whichever is param-only
	cands := []aff{e}
	for _, f := range bf.facts[blk] {
		cands = append(cands, e.add(f, -1))
	}
	for _, f := range bf.global {
		cands = append(cands, e.add(f, -1))
	}
	for _, cand := range cands {
		if !bf.paramOnly(cand) {
			continue
		}
		all := true
		why := ""
		for _, ci := range callers {
			cf := B.of(ci.Parent())
			B.ensurePassed(cf, nil)
			g, ok := cf.substParams(cand, bf.fn, ci.Common().Args)
			if !ok {
				all = false
				break
			}
			if ok2, _ := B.proveReqAt(cf, g, ci.Block(), ci, depth+1); !ok2 {
				all = false
				why = "not established at call site in " + ci.Parent().String() + " (" + B.P.Pos(ci.Pos()) + "): need " + cf.affString(g) + " ≥ 0"
				break
			}
		}
		if all {
			return true, ""
		}
		if why != "" {
			return false, why
		}
	}
	return false, ""
}

func (bf *boundsFn) paramOnly(a aff) bool {
	for x := range a.t {
		var v ssa.Value
		switch k := x.(type) {
		case lenKey:
			v = k.v
		case ssa.Value:
			v = k
		}
		if _, ok := v.(*ssa.Parameter); !ok {
			return false
		}
	}
	return true
}

// libScope lists the functions analysed for C05: every function with a body
// in the seven library packages.
func (B *Bounds) libScope() []*ssa.Function {
	var out []*ssa.Function
	for _, fn := range B.P.LibFuncs(false) {
		if fn.Name() == "init" && fn.Synthetic != "" {
			continue
		}
		out = append(out, fn)
	}
	return out
}

type bResult struct {
	site   bSite
	proved bool
	failed []string
	why    string
}

// reachable computes the functions reachable from the decoding entry points
// (static calls, closures, interface calls resolved by method name).
func (B *Bounds) reachable() map[*ssa.Function]bool {
	byName := map[string][]*ssa.Function{}
	for _, fn := range B.P.LibFuncs(false) {
		if fn.Signature.Recv() != nil {
			byName[fn.Name()] = append(byName[fn.Name()], fn)
		}
	}
	seen := map[*ssa.Function]bool{}
	var work []*ssa.Function
	for _, fn := range B.libScope() {
		if B.isEntry(fn) && fn.Parent() == nil {
			seen[fn] = true
			work = append(work, fn)
		}
	}
	for len(work) > 0 {
		fn := work[len(work)-1]
		work = work[:len(work)-1]
		push := func(g *ssa.Function) {
			if g == nil || g.Blocks == nil {
				return
			}
			pk := g.Pkg
			if pk == nil && g.Parent() != nil {
				pk = g.Parent().Pkg
			}
			if pk == nil || !strings.HasPrefix(pk.Pkg.Path(), modPath) {
				return // standard library: covered by contracts, not analysed
			}
			if !seen[g] {
				seen[g] = true
				work = append(work, g)
			}
		}
		for _, b := range fn.Blocks {
			for _, ins := range b.Instrs {
				if ci, ok := ins.(ssa.CallInstruction); ok {
					cc := ci.Common()
					if cc.IsInvoke() {
						for _, g := range byName[cc.Method.Name()] {
							push(g)
						}
					} else {
						push(cc.StaticCallee())
					}
				}
				if mc, ok := ins.(*ssa.MakeClosure); ok {
					if g, ok := mc.Fn.(*ssa.Function); ok {
						push(g)
					}
				}
				for _, op := range ins.Operands(nil) {
					if op != nil && *op != nil {
						if g, ok := (*op).(*ssa.Function); ok {
							push(g)
						}
					}
				}
			}
		}
	}
	return seen
}

// ensurePassed registers the bounds checks of bf.fn as facts for the code
// they dominate (execution only continues if they did not panic). Done on
// first use, so that a requirement lifted to a caller that has not had its
// own turn yet finds the caller's checks as well.
func (B *Bounds) ensurePassed(bf *boundsFn, sites []bSite) {
	if bf.passed != nil {
		return
	}
	bf.passed = map[*ssa.BasicBlock][]passedCheck{}
	if sites == nil {
		sites = B.sites(bf.fn)
	}
	for _, s := range sites {
		if s.kind != "index" && s.kind != "slice" && s.kind != "contract" && s.kind != "make" {
			continue
		}
		for _, q := range s.reqs {
			bf.passed[s.ins.Block()] = append(bf.passed[s.ins.Block()], passedCheck{s.ins, q.e})
		}
	}
}

func (B *Bounds) checkAll() []bResult {
	var res []bResult
	reach := B.reachable()
	for _, fn := range B.libScope() {
		if !reach[fn] {
			B.outOfScope = append(B.outOfScope, shortFn(fn))
			continue
		}
		bf := B.of(fn)
		sites := B.sites(fn)
		B.ensurePassed(bf, sites)
		for _, s := range sites {
			r := bResult{site: s, proved: true}
			for _, q := range s.reqs {
				ok, why := B.proveReqAt(bf, q.e, s.ins.Block(), s.ins, 0)
				if !ok {
					r.proved = false
					r.failed = append(r.failed, q.what+": need "+bf.affString(q.e)+" ≥ 0")
					if why != "" {
						r.why = why
					}
				}
			}
			res = append(res, r)
		}
	}
	sort.SliceStable(res, func(i, j int) bool {
		if res[i].site.fn.String() != res[j].site.fn.String() {
			return res[i].site.fn.String() < res[j].site.fn.String()
		}
		return res[i].site.construct < res[j].site.construct
	})
	return res
}

func shortFn(fn *ssa.Function) string {
	s := fn.String()
	s = strings.ReplaceAll(s, modPath+"/", "")
	s = strings.ReplaceAll(s, modPath+".", "gots.")
	return s
}

// errorUnchecked: call returns (T, error) and no test of the error result
// dominates the use.
func errorUnchecked(call *ssa.Call, use ssa.Instruction) bool {
	tup, ok := call.Type().(*types.Tuple)
	if !ok || tup.Len() != 2 || tup.At(1).Type().String() != "error" {
		return false
	}
	if _, isIface := tup.At(0).Type().Underlying().(*types.Interface); !isIface {
		return false
	}
	for _, ref := range *call.Referrers() {
		ex, ok := ref.(*ssa.Extract)
		if !ok || ex.Index != 1 {
			continue
		}
		for _, r2 := range *ex.Referrers() {
			if bo, ok := r2.(*ssa.BinOp); ok && (bo.Op == token.NEQ || bo.Op == token.EQL) {
				for _, r3 := range *bo.Referrers() {
					if ifi, ok := r3.(*ssa.If); ok && ifi.Block().Dominates(use.Block()) {
						return false
					}
				}
			}
		}
	}
	return true
}
