package main

import (
	"fmt"
	"go/types"
	"sort"
	"strings"
)

// PES header layout, ISO/IEC 13818-1 Table 2-21: packet_start_code_prefix =
// b0‖b1‖b2, stream_id = b3, PES_packet_length = b4‖b5, then for stream ids
// with the optional header: '10', scrambling(2), priority, data_alignment =
// b6.2, copyright, original; PTS_DTS_flags = b7[7:6], …; PES_header_data_length
// = b8; PTS at 9..13, DTS at 14..18. Stream ids without the optional header
// (Table 2-21 note / §2.4.3.7): program_stream_map is NOT in the statement's
// list; the statement lists padding_stream 0xBE, private_stream_2 0xBF, ECM
// 0xF0, EMM 0xF1, DSMCC 0xF2, H.222.1 type E 0xF8, program_stream_directory
// 0xFF.
var pesNoOptional = map[int]bool{0xBE: true, 0xBF: true, 0xF0: true, 0xF1: true, 0xF2: true, 0xF8: true, 0xFF: true}

func cells(obj string, from, n int) []*BV {
	var out []*BV
	for i := 0; i < n; i++ {
		out = append(out, cellBV(obj, from+i))
	}
	return out
}

func catBytes(bs ...*BV) []Bit { // MSB-first bytes → LSB-first bits
	var out []Bit
	for i := len(bs) - 1; i >= 0; i-- {
		out = append(out, bs[i].Bits...)
	}
	return out
}

func runC11(c *Checker) {
	c.Level = "other"
	c.explain = "NewPESHeader is interpreted for every stream_id (256) x PTS_DTS_flags (4) x well-formed header length with all other bytes symbolic; the fields of the returned object must have exactly the provenance ISO 13818-1 Table 2-21 assigns (prefix, stream_id, length, data_alignment b6.2, PTS window 9..13, DTS window 14..18 decoded per the C04 layout), the data slice must start at 9+PES_header_data_length (6 for the seven stream ids without optional header) and the getters must return those fields. packet.PESHeader and pes.AlignedPUSI are interpreted for adaptation-field-free packets and for each adaptation_field_length 0..183. Decides: field placement, the stream-id set, the data offset, the detection predicate. Does not decide: values for concrete headers (no concrete header is run) and behaviour on truncated headers (C05)."
	c.trust("go/ssa + go/types (x/tools v0.29.0)", "E1 transfer functions", "layout transcribed from ISO/IEC 13818-1 Table 2-21 and the statement's stream-id list")
	const anchor = "pes:NewPESHeader"
	fn, err := c.P.Func(anchor)
	if err != nil {
		c.undecided("C11.header", anchor, "anchor", err.Error())
		return
	}
	c.analysed[fn.String()] = true
	fi := map[string]int{}
	for _, n := range []string{"packetStartCodePrefix", "dataAlignment", "streamId", "pesPacketLength", "ptsDtsIndicator", "pts", "dts", "data"} {
		i, _, err := c.P.structFieldIndex("pes", "pESHeader", n)
		if err != nil {
			c.undecided("C11.header", anchor, "field "+n, err.Error())
			return
		}
		fi[n] = i
	}
	var fails []string
	runs := 0
	for id := 0; id < 256 && len(fails) < 4; id++ {
		for flags := 0; flags < 4; flags++ {
			hasOpt := !pesNoOptional[id]
			var lens []int
			switch {
			case !hasOpt:
				lens = []int{7, 40}
			case flags == 0 || flags == 1:
				lens = []int{9, 40}
			case flags == 2:
				lens = []int{14, 40}
			default:
				lens = []int{19, 40}
			}
			for _, n := range lens {
				var in0 *Interp
				s := Analyze(c.P, fn, &AnalyzeOpts{SliceLen: map[string]int{"pesBytes": n}, Pre: func(in *Interp, st *State, ps []Val) {
					in0 = in
					o := ps[0].(*SliceV).Obj
					in.setCell(st, o, "3", constInt(int64(id), 8, false))
					if n > 7 {
						b7 := &BV{W: 8, Bits: append([]Bit(nil), cellBV(o.Name, 7).Bits...)}
						b7.Bits[7], b7.Bits[6] = bconst(flags&2 != 0), bconst(flags&1 != 0)
						in.setCell(st, o, "7", b7)
					}
				}})
				runs++
				tag := fmt.Sprintf("stream_id=%#x flags=%02b len=%d: ", id, flags, n)
				if s.Failed != "" {
					fails = append(fails, tag+s.Failed)
					continue
				}
				if !isConst(in0.nilBit(s.RetN(1))) || !in0.nilBit(s.RetN(1)).c {
					fails = append(fails, tag+"returns an error for a well-formed header")
					continue
				}
				iv, ok := s.RetN(0).(*IfaceV)
				var hp *Ptr
				if ok {
					hp, _ = iv.V.(*Ptr)
				}
				if hp == nil {
					fails = append(fails, tag+"result is not a header object")
					continue
				}
				name := "pesBytes"
				b := cells(name, 0, 20)
				field := func(f string, t types.Type) Val { return s.Cell(hp.Obj, fmt.Sprint(fi[f]), t) }
				chk := func(f string, w int, want []Bit) {
					got, _ := field(f, intType(w)).(*BV)
					if ok, d := matchBits(got, want); !ok {
						fails = append(fails, tag+f+": "+d)
					}
				}
				chk("packetStartCodePrefix", 32, catBytes(b[0], b[1], b[2]))
				idBits := constInt(int64(id), 8, false).Bits
				chk("streamId", 8, idBits)
				chk("pesPacketLength", 16, catBytes(b[4], b[5]))
				chk("dataAlignment", 1, []Bit{b[6].Bits[2]})
				wantFlags, wantPTS, wantDTS := 0, false, false
				if hasOpt && n >= 9 {
					wantFlags = flags
					wantPTS = flags != 0 && n >= 14
					wantDTS = flags == 3 && n >= 19
				}
				chk("ptsDtsIndicator", 8, constInt(int64(wantFlags), 8, false).Bits)
				if wantPTS {
					chk("pts", 64, fieldBitsAt(name, ptsLayout, 9))
				} else {
					chk("pts", 64, nil)
				}
				if wantDTS {
					chk("dts", 64, fieldBitsAt(name, ptsLayout, 14))
				} else {
					chk("dts", 64, nil)
				}
				// data
				dv := field("data", types.NewSlice(byteT))
				if !hasOpt {
					if msg := expectSlice(dv, name, constInt(6, 64, true), n, n > 6); msg != "" {
						fails = append(fails, tag+"data: "+msg)
					}
				} else {
					start := bvAdd(constInt(9, 64, true), extendBV(b[8], 64, true), false)
					present := bvLt(start, constInt(int64(n), 64, true))
					var want Val = NilV{}
					if !(isConst(present) && !present.c) {
						sl := &SliceV{Lo: start, Len: bvAdd(constInt(int64(n), 64, true), start, true)}
						want = sl
						msg := ""
						switch g := dv.(type) {
						case *MuxV:
							gs, _ := g.T.(*SliceV)
							_, fnil := g.F.(NilV)
							if g.C != present || gs == nil || !fnil || gs.Obj.Name != name || !sameBV(gs.Lo, start) || !sameBV(gs.Len, sl.Len) {
								msg = "is " + showVal(dv)
							}
						default:
							msg = "is " + showVal(dv)
						}
						if msg != "" {
							fails = append(fails, tag+"data "+msg+", expected pesBytes[9+b8:] when 9+b8 < len, else nil")
						}
					}
					_ = want
				}
				if w := s.WrittenCells(); len(w) > 0 {
					fails = append(fails, tag+fmt.Sprintf("input modified: %v", w))
				}
			}
		}
	}
	sort.Strings(fails)
	d := ""
	if len(fails) > 0 {
		d = fmt.Sprintf("%d mismatches; first: %s", len(fails), fails[0])
	}
	c.check("C11.header", anchor, "256 stream ids x 4 PTS_DTS_flags x well-formed lengths: every field has the Table 2-21 provenance, PTS/DTS decoded from windows 9..13 / 14..18, data starts at 9+PES_header_data_length (6 without optional header), no error, input untouched", len(fails) == 0, d)
	c.floorCheck("C11.header analyses", runs, 2048)

	// getters
	for _, g := range []struct {
		m, f string
		w    int
	}{
		{"PacketStartCodePrefix", "packetStartCodePrefix", 32}, {"StreamId", "streamId", 8}, {"PTS", "pts", 64}, {"DTS", "dts", 64}, {"DataAligned", "dataAlignment", 1},
	} {
		a := "pes:(*pESHeader)." + g.m
		if s, _ := c.summary("C11.getter", a, nil); s != nil {
			ret, _ := s.RetN(0).(*BV)
			want := srcBV(U.source("cell", fmt.Sprintf("%s.%d", paramName(s, 0), fi[g.f]), g.w), false)
			ok, d := matchBits(ret, want.Bits)
			c.check("C11.getter", a, "returns the stored "+g.f, ok, d)
		}
	}
	for _, g := range []struct {
		m    string
		want func(ind []Bit) Bit
		desc string
	}{
		{"HasPTS", func(ind []Bit) Bit { return ind[1] }, "PTS_DTS_flags bit 1"},
		{"HasDTS", func(ind []Bit) Bit { return eqConst(ind, 3) }, "PTS_DTS_flags == 11"},
	} {
		a := "pes:(*pESHeader)." + g.m
		if s, _ := c.summary("C11.getter", a, nil); s != nil {
			ind := srcBV(U.source("cell", fmt.Sprintf("%s.%d", paramName(s, 0), fi["ptsDtsIndicator"]), 8), false)
			ret, _ := s.RetN(0).(*BV)
			ok, d := ret != nil && ret.W == 1, "non-boolean"
			if ok {
				eq, dec, det := semEqualBits(ret.Bits, []Bit{g.want(ind.Bits)}, 12)
				ok, d = eq && dec, det
			}
			c.check("C11.getter", a, "⇔ "+g.desc, ok, d)
		}
	}
	// optionalFieldsExist over all 256 ids
	if s, _ := c.summary("C11.streamids", "pes:(*pESHeader).optionalFieldsExist", nil); s != nil {
		id := srcBV(U.source("cell", fmt.Sprintf("%s.%d", paramName(s, 0), fi["streamId"]), 8), false)
		var set []uint64
		for k := range pesNoOptional {
			set = append(set, uint64(k))
		}
		ret, _ := s.RetN(0).(*BV)
		ok, d := ret != nil && ret.W == 1, "non-boolean"
		if ok {
			eq, dec, det := semEqualBits(ret.Bits, []Bit{bnot(inSet(id.Bits, set))}, 12)
			ok, d = eq && dec, det
		}
		c.check("C11.streamids", "pes:(*pESHeader).optionalFieldsExist", "false exactly for stream ids BE BF F0 F1 F2 F8 FF (all 256 ids)", ok, d)
	}
	c.checkPESDetection()
}

func intType(w int) types.Type {
	switch w {
	case 1:
		return types.Typ[types.Bool]
	case 8:
		return types.Typ[types.Uint8]
	case 16:
		return types.Typ[types.Uint16]
	case 32:
		return types.Typ[types.Uint32]
	}
	return types.Typ[types.Uint64]
}

// expectSlice: v must be obj[lo:] of an n-element object (or nil when !present).
func expectSlice(v Val, obj string, lo *BV, n int, present bool) string {
	if !present {
		if _, ok := v.(NilV); ok {
			return ""
		}
		return "is " + showVal(v) + ", expected nil"
	}
	s, ok := v.(*SliceV)
	if !ok || s.Obj.Name != obj || !sameBV(s.Lo, lo) {
		return "is " + showVal(v) + fmt.Sprintf(", expected %s[%s:]", obj, lo)
	}
	if !sameBV(s.Len, bvAdd(constInt(int64(n), 64, true), lo, true)) {
		return "has length " + s.Len.String()
	}
	return ""
}

// checkPESDetection: packet.PESHeader and pes.AlignedPUSI for payload start
// 4 (no adaptation field) and 5+L for each adaptation_field_length L.
func (c *Checker) checkPESDetection() {
	const anchor = "packet:PESHeader"
	fn, err := c.P.Func(anchor)
	if err != nil {
		c.undecided("C11.detect", anchor, "anchor", err.Error())
		return
	}
	c.analysed[fn.String()] = true
	var fails []string
	n := 0
	for afl := -1; afl <= 183; afl++ { // -1: no adaptation field
		start := 4
		if afl >= 0 {
			start = 5 + afl
		}
		var in0 *Interp
		s := Analyze(c.P, fn, &AnalyzeOpts{Pre: func(in *Interp, st *State, ps []Val) {
			in0 = in
			o := ps[0].(*Ptr).Obj
			b3 := &BV{W: 8, Bits: append([]Bit(nil), cellBV(o.Name, 3).Bits...)}
			b3.Bits[5] = bconst(afl >= 0)
			in.setCell(st, o, "3", b3)
			if afl >= 0 {
				in.setCell(st, o, "4", constInt(int64(afl), 8, false))
			}
		}})
		n++
		tag := fmt.Sprintf("adaptation_field_length=%d: ", afl)
		if s.Failed != "" {
			fails = append(fails, tag+s.Failed)
			continue
		}
		p := paramName(s, 0)
		pusi := fieldBits(p, tsHeader["PUSI"])[0]
		pay := fieldBits(p, tsHeader["PAY"])[0]
		want := U.B0
		if 188-start > 3 {
			want = andAll(pusi, pay, eqConst(cellBV(p, start).Bits, 0), eqConst(cellBV(p, start+1).Bits, 0), eqConst(cellBV(p, start+2).Bits, 1))
		}
		got := bnot(in0.nilBit(s.RetN(0)))
		if eq, dec, det := equivBits(got, want, 20); !(eq && dec) {
			fails = append(fails, tag+"returns bytes under "+got.String()+", expected PUSI ∧ payload flag ∧ payload ≥ 4 bytes ∧ payload starts 00 00 01 ("+det+")")
			continue
		}
		// when returned, it is packet[start:]
		if !(isConst(want) && !want.c) {
			for _, lf := range muxLeaves(s.RetN(0)) {
				if _, isNil := lf.(NilV); isNil {
					continue
				}
				sl, _ := lf.(*SliceV)
				if sl == nil || sl.Obj.Name != p || !sameBV(sl.Lo, constInt(int64(start), 64, true)) || !sameBV(sl.Len, constInt(int64(188-start), 64, true)) {
					fails = append(fails, tag+"returned bytes are "+showVal(lf)+fmt.Sprintf(", expected packet[%d:]", start))
				}
			}
		}
		if w := s.WrittenCells(); len(w) > 0 {
			fails = append(fails, tag+fmt.Sprint("writes ", w))
		}
	}
	sort.Strings(fails)
	d := ""
	if len(fails) > 0 {
		d = fmt.Sprintf("%d mismatches; first: %s", len(fails), fails[0])
	}
	c.check("C11.detect", anchor, "185 payload offsets: returns packet[start:] ⇔ PUSI ∧ payload flag ∧ ≥4 payload bytes ∧ payload begins 00 00 01", len(fails) == 0, d)
	c.floorCheck("C11.detect offsets analysed", n, 185)

	// AlignedPUSI (no adaptation field, each stream id)
	const a2 = "pes:AlignedPUSI"
	fn2, err := c.P.Func(a2)
	if err != nil {
		c.undecided("C11.detect", a2, "anchor", err.Error())
		return
	}
	c.analysed[fn2.String()] = true
	fails = nil
	for id := 0; id < 256 && len(fails) < 3; id++ {
		s := Analyze(c.P, fn2, &AnalyzeOpts{Pre: func(in *Interp, st *State, ps []Val) {
			o := ps[0].(*Ptr).Obj
			b3 := &BV{W: 8, Bits: append([]Bit(nil), cellBV(o.Name, 3).Bits...)}
			b3.Bits[5] = U.B0
			in.setCell(st, o, "3", b3)
			in.setCell(st, o, "7", constInt(int64(id), 8, false))
		}})
		tag := fmt.Sprintf("stream_id=%#x: ", id)
		if s.Failed != "" {
			fails = append(fails, tag+s.Failed)
			continue
		}
		p := paramName(s, 0)
		want := andAll(fieldBits(p, tsHeader["PUSI"])[0], fieldBits(p, tsHeader["PAY"])[0],
			eqConst(cellBV(p, 4).Bits, 0), eqConst(cellBV(p, 5).Bits, 0), eqConst(cellBV(p, 6).Bits, 1), cellBV(p, 10).Bits[2])
		okb, _ := s.RetN(1).(*BV)
		if okb == nil || okb.W != 1 {
			fails = append(fails, tag+"non-boolean flag")
			continue
		}
		if eq, dec, det := equivBits(okb.Bits[0], want, 20); !(eq && dec) {
			fails = append(fails, tag+"ok flag is "+okb.Bits[0].String()+" ("+det+")")
			continue
		}
		// data under ok
		data := s.RetN(0)
		desc := showVal(data)
		if pesNoOptional[id] {
			if !strings.Contains(desc, p+"[10:+178]") {
				fails = append(fails, tag+"data is "+desc+", expected packet[10:]")
			}
		} else {
			if !strings.Contains(desc, "(13+") {
				fails = append(fails, tag+"data is "+desc+", expected packet[4+9+PES_header_data_length:]")
			}
		}
	}
	sort.Strings(fails)
	d = ""
	if len(fails) > 0 {
		d = fmt.Sprintf("%d mismatches; first: %s", len(fails), fails[0])
	}
	c.check("C11.detect", a2, "256 stream ids (no adaptation field): ok ⇔ PUSI ∧ payload ∧ 00 00 01 ∧ data_alignment_indicator; data is the header's data slice", len(fails) == 0, d)
}

// muxLeaves lists the alternatives of a conditional value.
func muxLeaves(v Val) []Val {
	if m, ok := v.(*MuxV); ok {
		return append(muxLeaves(m.T), muxLeaves(m.F)...)
	}
	return []Val{v}
}
