package main

import (
	"fmt"
	"go/types"
	"os"
	"sort"
	"strings"

	"golang.org/x/tools/go/ssa"
)

// C08: SCTE-35 decoding. NewSCTE35 is abstractly interpreted (with the
// bytes.Buffer model) on the canonical encoding of every shape of s35spec.go;
// the fields of the resulting object graph are compared with the bits of the
// section that carry them.

type nav struct {
	in *Interp
	st *State
}

func (n nav) deref(v Val) (*Ptr, bool) {
	if i, ok := v.(*IfaceV); ok {
		v = i.V
	}
	p, ok := v.(*Ptr)
	return p, ok
}

func structOf(t types.Type) *types.Struct {
	if p, ok := t.Underlying().(*types.Pointer); ok {
		t = p.Elem()
	}
	s, _ := t.Underlying().(*types.Struct)
	return s
}

// field loads the named field of the struct v points to (or holds).
func (n nav) field(v Val, name string) Val {
	if i, ok := v.(*IfaceV); ok {
		v = i.V
	}
	switch x := v.(type) {
	case *Ptr:
		st := structOf(x.T)
		if st == nil {
			return nil
		}
		for i := 0; i < st.NumFields(); i++ {
			if st.Field(i).Name() == name {
				return n.in.loadPath(n.st, x.Obj, joinPath(x.Path, i), st.Field(i).Type())
			}
		}
	case *StructV:
		st := structOf(x.T)
		if st == nil {
			return nil
		}
		for i := 0; i < st.NumFields(); i++ {
			if st.Field(i).Name() == name && i < len(x.Fields) {
				return x.Fields[i]
			}
		}
	}
	return nil
}

// elems lists the elements of a constant-length slice value.
func (n nav) elems(v Val) ([]Val, bool) {
	switch s := v.(type) {
	case NilV:
		return nil, true
	case *SliceV:
		k, ok1 := s.Len.ConstInt()
		lo, ok2 := s.Lo.ConstInt()
		if !ok1 || !ok2 {
			return nil, false
		}
		out := make([]Val, k)
		for i := int64(0); i < k; i++ {
			out[i] = n.in.loadPath(n.st, s.Obj, joinPath(s.Prefix, int(lo+i)), s.Elem)
		}
		return out, true
	}
	return nil, false
}

// call invokes the named method on the dynamic type of recv inside the same
// abstract state and returns its (first) result; the state advances.
func (n *nav) call(recv Val, method string, args ...Val) Val {
	var t types.Type
	var rv Val
	switch x := recv.(type) {
	case *IfaceV:
		t, rv = x.T, x.V
	case *Ptr:
		t, rv = types.NewPointer(x.T), x
	default:
		return nil
	}
	ms := n.in.P.SSA.MethodSets.MethodSet(t)
	var fn *ssa.Function
	for i := 0; i < ms.Len(); i++ {
		if ms.At(i).Obj().Name() == method {
			fn = n.in.P.SSA.MethodValue(ms.At(i))
		}
	}
	if fn == nil || fn.Blocks == nil {
		return nil
	}
	ret, out := n.in.Call(fn, append([]Val{rv}, args...), nil, n.st)
	if n.in.Fail != "" {
		return nil
	}
	n.st = out
	if sv, ok := ret.(*StructV); ok {
		if _, isTuple := sv.T.(*types.Tuple); isTuple && len(sv.Fields) > 0 {
			return sv.Fields[0]
		}
	}
	return ret
}

type mism struct{ first string }

func (m *mism) add(format string, a ...interface{}) {
	if m.first == "" {
		m.first = fmt.Sprintf(format, a...)
	}
}

func (m *mism) bits(what string, got Val, want []Bit, w int) {
	bv, ok := got.(*BV)
	if !ok {
		m.add("%s is %s", what, showVal(got))
		return
	}
	if ok, d := matchBits(bv, lsbBV(want, bv.W).Bits); !ok {
		m.add("%s: %s", what, d)
	}
}

func (m *mism) konst(what string, got Val, want int64) {
	bv, ok := got.(*BV)
	if !ok {
		m.add("%s is %s", what, showVal(got))
		return
	}
	if v, ok := bv.ConstInt(); !ok || v != want {
		m.add("%s is %s, encoded %d", what, showVal(got), want)
	}
}

func (m *mism) boolean(what string, got Val, want Bit) {
	bv, ok := got.(*BV)
	if !ok || bv.W != 1 {
		m.add("%s is %s", what, showVal(got))
		return
	}
	if ok, d := matchBits(bv, []Bit{want}); !ok {
		m.add("%s: %s", what, d)
	}
}

func (m *mism) byteSeq(n *nav, what string, got Val, want []*BV) {
	es, ok := n.elems(got)
	if !ok {
		m.add("%s is %s", what, showVal(got))
		return
	}
	if len(es) != len(want) {
		m.add("%s has %d bytes, encoded %d", what, len(es), len(want))
		return
	}
	for i := range es {
		bv, ok := es[i].(*BV)
		if !ok {
			m.add("%s[%d] is %s", what, i, showVal(es[i]))
			return
		}
		if ok, d := matchBits(bv, want[i].Bits); !ok {
			m.add("%s[%d]: %s", what, i, d)
			return
		}
	}
}

func bytesOfBits(bs [][]Bit) []*BV {
	out := make([]*BV, len(bs))
	for i, b := range bs {
		out[i] = lsbBV(b, 8)
	}
	return out
}

// s35Setup: deep inlining plus the buffer model.
func s35Setup(in *Interp) {
	in.MaxDepth = 24
	in.MaxSteps = 8000000
	useBufferModel(in)
}

// compareSignal checks what the object graph rooted at sig reports (through
// its getters; plain fields where no getter exists) against the field values
// of x. dataObj/dataAt, when given, describe the expected raw-data window.
func compareSignal(n *nav, sig Val, sh s35Shape, x *s35X, m *mism) {
	th := n.field(sig, "tableHeader")
	m.konst("table_id", n.field(th, "TableID"), 0xFC)
	m.bits("section_syntax_indicator", n.field(th, "SectionSyntaxIndicator"), x.v("ssi"), 1)
	m.bits("private_indicator", n.field(th, "PrivateIndicator"), x.v("priv"), 1)
	m.bits("protocol_version", n.field(sig, "protocolVersion"), x.v("protocol"), 8)
	m.boolean("encrypted_packet", n.field(sig, "encryptedPacket"), U.B0)
	m.bits("encryption_algorithm", n.field(sig, "encryptionAlgorithm"), x.v("encAlg"), 8)
	m.bits("cw_index", n.field(sig, "cwIndex"), x.v("cw"), 8)
	m.bits("tier", n.call(sig, "Tier"), x.v("tier"), 16)
	m.konst("splice_command_type", n.call(sig, "Command"), int64(sh.cmd))
	cmd := n.call(sig, "CommandInfo")
	ci, isI := cmd.(*IfaceV)
	if !isI {
		m.add("command object is %s", showVal(cmd))
		return
	}
	wantT := map[int]string{0: "spliceNull", 5: "spliceInsert", 6: "timeSignal"}[sh.cmd]
	if !strings.HasSuffix(ci.T.String(), "scte35."+wantT) {
		m.add("command object has type %s, encoded command is %s", ci.T, wantT)
		return
	}
	hasPTS := sh.cmd == 6 || sh.cmd == 5 && !sh.cancel && sh.program && !sh.immediate
	m.boolean("signal HasPTS", n.call(sig, "HasPTS"), bconst(hasPTS))
	if hasPTS {
		// signal PTS = (pts_time + pts_adjustment) mod 2^33
		got, _ := n.call(sig, "PTS").(*BV)
		okPTS := false
		for _, sum := range []*BV{bvAdd(lsbBV(x.v("pts"), 64), lsbBV(x.v("adj"), 64), false), bvAdd(lsbBV(x.v("adj"), 64), lsbBV(x.v("pts"), 64), false)} {
			want := &BV{W: 64, Bits: make([]Bit, 64)}
			for i := range want.Bits {
				want.Bits[i] = U.B0
				if i < 33 {
					want.Bits[i] = sum.Bits[i]
				}
			}
			if got != nil && (sameBV(got, want) || func() bool { ok, _ := matchBits(got, want.Bits); return ok }()) {
				okPTS = true
			}
		}
		if !okPTS {
			m.add("signal PTS is %s, expected (pts_time + pts_adjustment) mod 2^33", showVal(got))
		}
	}
	switch sh.cmd {
	case 6:
		m.boolean("time_signal time_specified", n.call(cmd, "HasPTS"), U.B1)
		m.bits("time_signal pts_time", n.call(cmd, "PTS"), x.v("pts"), 64)
	case 5:
		m.bits("splice_event_id", n.call(cmd, "EventID"), x.v("eventID"), 32)
		m.boolean("splice_event_cancel_indicator", n.call(cmd, "IsEventCanceled"), bconst(sh.cancel))
		if !sh.cancel {
			m.bits("out_of_network_indicator", n.call(cmd, "IsOut"), x.v("out"), 1)
			m.boolean("program_splice_flag", n.call(cmd, "IsProgramSplice"), bconst(sh.program))
			m.boolean("duration_flag", n.call(cmd, "HasDuration"), bconst(sh.duration))
			m.boolean("splice_immediate_flag", n.call(cmd, "SpliceImmediate"), bconst(sh.immediate))
			m.boolean("splice_insert time present", n.call(cmd, "HasPTS"), bconst(hasPTS))
			if hasPTS {
				m.bits("splice_insert pts_time", n.call(cmd, "PTS"), x.v("pts"), 64)
			}
			if !sh.program {
				comps, ok := n.elems(n.call(cmd, "Components"))
				if !ok || len(comps) != len(sh.compTimes) {
					m.add("splice_insert has %d components (%v), encoded %d", len(comps), ok, len(sh.compTimes))
				} else {
					for i, c := range comps {
						m.bits(fmt.Sprintf("component %d tag", i), n.call(c, "ComponentTag"), x.v(fmt.Sprintf("comp%d.tag", i)), 8)
						has := !sh.immediate && sh.compTimes[i]
						m.boolean(fmt.Sprintf("component %d time_specified", i), n.call(c, "HasPTS"), bconst(has))
						if has {
							m.bits(fmt.Sprintf("component %d pts_time", i), n.call(c, "PTS"), x.v(fmt.Sprintf("comp%d.pts", i)), 64)
						}
					}
				}
			}
			if sh.duration {
				m.bits("auto_return", n.call(cmd, "IsAutoReturn"), x.v("autoReturn"), 1)
				m.bits("break_duration", n.call(cmd, "Duration"), x.v("breakDur"), 64)
			}
			m.bits("unique_program_id", n.call(cmd, "UniqueProgramId"), x.v("progID"), 16)
			m.bits("avail_num", n.call(cmd, "AvailNum"), x.v("availNum"), 8)
			m.bits("avails_expected", n.call(cmd, "AvailsExpected"), x.v("availsExp"), 8)
		}
	}
	// descriptors
	var segs []int
	for j, d := range sh.descs {
		if !d.foreign {
			segs = append(segs, j)
		}
	}
	ds, ok := n.elems(n.call(sig, "Descriptors"))
	if !ok || len(ds) != len(segs) {
		m.add("%d segmentation descriptors reported (%v), encoded %d", len(ds), ok, len(segs))
		return
	}
	m.byteSeq(n, "foreign descriptor bytes", n.field(sig, "otherDescriptorBytes"), x.other)
	for i, d := range ds {
		e := sh.descs[segs[i]]
		p := fmt.Sprintf("d%d.", segs[i])
		w := fmt.Sprintf("descriptor %d ", i)
		// back reference
		if back, ok := n.deref(n.call(d, "SCTE35")); !ok {
			m.add(w + "does not refer to a signal")
		} else if sp, ok := n.deref(sig); !ok || back.Obj != sp.Obj {
			m.add(w + "refers to a different signal object")
		}
		m.bits(w+"segmentation_event_id", n.call(d, "EventID"), x.v(p+"eventID"), 32)
		m.boolean(w+"cancel indicator", n.call(d, "IsEventCanceled"), bconst(e.cancel))
		if e.cancel {
			continue
		}
		m.boolean(w+"program_segmentation_flag", n.call(d, "HasProgramSegmentation"), bconst(e.programSeg))
		m.boolean(w+"segmentation_duration_flag", n.call(d, "HasDuration"), bconst(e.hasDuration))
		m.boolean(w+"delivery_not_restricted_flag", n.call(d, "IsDeliveryNotRestricted"), bconst(e.notRestricted))
		if !e.notRestricted {
			f5 := x.v(p + "flags5")
			m.boolean(w+"web_delivery_allowed_flag", n.call(d, "IsWebDeliveryAllowed"), f5[0])
			m.boolean(w+"no_regional_blackout_flag", n.call(d, "HasNoRegionalBlackout"), f5[1])
			m.boolean(w+"archive_allowed_flag", n.call(d, "IsArchiveAllowed"), f5[2])
			m.bits(w+"device_restrictions", n.call(d, "DeviceRestrictions"), f5[3:5], 8)
		}
		if !e.programSeg {
			cs, ok := n.elems(n.call(d, "Components"))
			if !ok || len(cs) != e.comps {
				m.add(w+"has %d components (%v), encoded %d", len(cs), ok, e.comps)
			} else {
				for k, c := range cs {
					m.bits(fmt.Sprintf("%scomponent %d tag", w, k), n.call(c, "ComponentTag"), x.v(fmt.Sprintf("%sc%d.tag", p, k)), 8)
					m.bits(fmt.Sprintf("%scomponent %d pts_offset (33 bits)", w, k), n.call(c, "PTSOffset"), x.v(fmt.Sprintf("%sc%d.off", p, k)), 64)
				}
			}
		}
		if e.programSeg {
			if cs, ok := n.elems(n.call(d, "Components")); !ok || len(cs) != 0 {
				m.add(w+"is in program mode and reports %d components (%v)", len(cs), ok)
			}
		}
		if e.hasDuration {
			m.bits(w+"segmentation_duration (40 bits)", n.call(d, "Duration"), x.v(p+"duration"), 64)
		}
		m.konst(w+"segmentation_upid_type", n.call(d, "UPIDType"), int64(e.upidType))
		if e.upidType == 0x0D {
			ms, ok := n.elems(n.call(d, "MID"))
			if !ok || len(ms) != len(e.mids) {
				m.add(w+"has %d UPIDs in the list (%v), encoded %d", len(ms), ok, len(e.mids))
			} else {
				for k, u := range ms {
					m.konst(fmt.Sprintf("%sUPID %d type", w, k), n.call(u, "UPIDType"), int64(midType(k)))
					var bs [][]Bit
					for b := 0; b < e.mids[k]; b++ {
						bs = append(bs, x.v(fmt.Sprintf("%smid%d.%d", p, k, b)))
					}
					m.byteSeq(n, fmt.Sprintf("%sUPID %d bytes", w, k), n.call(u, "UPID"), bytesOfBits(bs))
				}
			}
		} else {
			var bs [][]Bit
			for b := 0; b < e.upidLen; b++ {
				bs = append(bs, x.v(fmt.Sprintf("%supid%d", p, b)))
			}
			m.byteSeq(n, w+"segmentation_upid", n.call(d, "UPID"), bytesOfBits(bs))
		}
		m.konst(w+"segmentation_type_id", n.call(d, "TypeID"), int64(e.typeID))
		m.bits(w+"segment_num", n.call(d, "SegmentNumber"), x.v(p+"segNum"), 8)
		m.bits(w+"segments_expected", n.call(d, "SegmentsExpected"), x.v(p+"segsExp"), 8)
		m.boolean(w+"sub-segment fields present", n.call(d, "HasSubSegments"), bconst(e.hasSub))
		if e.hasSub {
			m.bits(w+"sub_segment_num", n.call(d, "SubSegmentNumber"), x.v(p+"subNum"), 8)
			m.bits(w+"sub_segments_expected", n.call(d, "SubSegmentsExpected"), x.v(p+"subExp"), 8)
		}
	}
	if n.in.Fail != "" {
		m.add("analysis of a getter: %s", n.in.Fail)
	}
}

// decodedOnly: what only a freshly decoded object must satisfy (lengths as
// encoded, raw data = the input from table_id on).
func compareDecoded(n *nav, sig Val, x *s35X, dataObj *Obj, m *mism) {
	th := n.field(sig, "tableHeader")
	m.konst("section_length", n.field(th, "SectionLength"), int64(x.secLen))
	m.konst("splice_command_length", n.field(sig, "spliceCommandLength"), int64(x.cmdLen))
	if dv, ok := n.call(sig, "Data").(*SliceV); !ok {
		m.add("raw data is not a slice")
	} else {
		lo, ok1 := dv.Lo.ConstInt()
		k, ok2 := dv.Len.ConstInt()
		if dv.Obj != dataObj || !ok1 || !ok2 || int(lo) != x.sectionAt || int(k) != len(x.cells)-x.sectionAt {
			m.add("raw data is not the input from table_id on")
		}
	}
}

func (c *Checker) decodeShape(sh s35Shape) (string, *Summary, *s35X) {
	fn, err := c.P.Func("scte35:NewSCTE35")
	if err != nil {
		return err.Error(), nil, nil
	}
	c.analysed[fn.String()] = true
	x := sh.encode("data", nil)
	pre := func(in *Interp, st *State, ps []Val) {
		seedCells(in, st, ps[0].(*SliceV).Obj, 0, x.cells)
	}
	sum := Analyze(c.P, fn, &AnalyzeOpts{Pre: pre, SliceLen: map[string]int{"data": len(x.cells)}, Setup: s35Setup})
	if os.Getenv("C08DUMP") != "" {
		fmt.Fprintln(os.Stderr, sum.Dump())
	}
	if sum.Failed != "" {
		return "analysis: " + sum.Failed, sum, x
	}
	if eq, dec, det := equivBits(sum.in.nilBit(sum.RetN(1)), U.B1, 16); !eq || !dec {
		return "a well-formed section is rejected: " + det + " " + showVal(sum.RetN(1)), sum, x
	}
	if w := sum.WrittenCells(); len(w) > 0 {
		return "the decoder writes its input: " + strings.Join(w, ","), sum, x
	}
	m := &mism{}
	n := &nav{sum.in, sum.Out}
	snap := n.st.clone()
	compareSignal(n, sum.RetN(0), sh, x, m)
	compareDecoded(n, sum.RetN(0), x, sum.Params[0].(*SliceV).Obj, m)
	// the getters only report: nothing that existed after decoding is changed by them
	if ch := n.changedSince(snap); len(ch) > 0 && m.first == "" {
		m.add("the getters modify the decoded signal: %v", ch)
	}
	return m.first, sum, x
}

func (c *Checker) runS35Decode(thorough bool) {
	shapes := s35Shapes(thorough)
	groups := map[string]*stepAgg{}
	var order []string
	for _, sh := range shapes {
		g := strings.SplitN(sh.name, ";", 2)[0]
		a := groups[g]
		if a == nil {
			a = &stepAgg{}
			groups[g] = a
			order = append(order, g)
		}
		a.n++
		if d, _, _ := c.decodeShape(sh); d != "" {
			a.bad++
			if a.first == "" {
				a.first = sh.name + ": " + d
			}
		}
	}
	for _, g := range order {
		a := groups[g]
		c.check("C08.decode", "scte35:NewSCTE35", g+": every decoded field equals the section bits that carry it (all descriptor mixtures of the family)",
			a.bad == 0, fmt.Sprintf("%d of %d shapes fail; first: %s", a.bad, a.n, a.first))
	}
	c.floorCheck("C08.decode shapes", len(shapes), 40)
	c.extra["shapes"] = len(shapes)
}

// runS35Reject: sections the statement says must be refused, each obtained
// from a well-formed shape by changing one constant of the layout.
func (c *Checker) runS35Reject() {
	fn, err := c.P.Func("scte35:NewSCTE35")
	if err != nil {
		c.undecided("C08.reject", "scte35:NewSCTE35", "anchor", err.Error())
		return
	}
	base := s35Shape{cmd: 6, descs: []s35Desc{{programSeg: true, typeID: 0x30, upidType: 0x09, upidLen: 2}}}
	run := func(pointer int, patch func(x *s35X)) (string, bool) {
		sh := base
		sh.pointer = pointer
		x := sh.encode("data", nil)
		patch(x)
		pre := func(in *Interp, st *State, ps []Val) { seedCells(in, st, ps[0].(*SliceV).Obj, 0, x.cells) }
		sum := Analyze(c.P, fn, &AnalyzeOpts{Pre: pre, SliceLen: map[string]int{"data": len(x.cells)}, Setup: s35Setup})
		if sum.Failed != "" {
			return "analysis: " + sum.Failed, false
		}
		if sc, ok := sum.RetN(1).(SymConst); ok {
			return sc.Name, true
		}
		return showVal(sum.RetN(1)), true
	}
	type rej struct {
		what, wantErr string
		variants      []func(x *s35X)
	}
	var cmdTypes, tableIDs, idBits []func(x *s35X)
	for t := 0; t < 256; t++ {
		t := t
		if t != 0 && t != 5 && t != 6 {
			cmdTypes = append(cmdTypes, func(x *s35X) { x.cells[x.sectionAt+13] = constByte(t) })
		}
		if t != 0xFC {
			tableIDs = append(tableIDs, func(x *s35X) { x.cells[x.sectionAt] = constByte(t) })
		}
	}
	for b := 0; b < 32; b++ {
		b := b
		idBits = append(idBits, func(x *s35X) {
			at := x.descAt[0] + 2 + b/8
			v, _ := x.cells[at].ConstInt()
			x.cells[at] = constByte(int(v) ^ 1<<uint(b%8))
		})
	}
	encrypted := []func(x *s35X){func(x *s35X) {
		old := x.cells[x.sectionAt+4]
		nb := &BV{W: 8, Bits: append([]Bit(nil), old.Bits...)}
		nb.Bits[7] = U.B1
		x.cells[x.sectionAt+4] = nb
	}}
	for _, r := range []rej{
		{"unknown table id (255 values)", "ErrUnknownTableID", tableIDs},
		{"encrypted_packet set", "ErrSCTE35EncryptionUnsupported", encrypted},
		{"unsupported splice_command_type (253 values)", "ErrSCTE35UnsupportedSpliceCommand", cmdTypes},
		{"segmentation descriptor identifier differs from CUEI in one bit (32 positions)", "ErrSCTE35InvalidDescriptorID", idBits},
	} {
		bad := ""
		n := 0
		for _, ptr := range []int{0, 3} {
			for _, v := range r.variants {
				got, _ := run(ptr, v)
				n++
				if !strings.HasSuffix(got, "."+r.wantErr) && bad == "" {
					bad = fmt.Sprintf("pointer_field %d, variant %d: result error is %s", ptr, n, got)
				}
			}
		}
		c.check("C08.reject", "scte35:NewSCTE35", r.what+" is refused with "+r.wantErr, bad == "", bad)
	}
}

func runC08(c *Checker) {
	c.Level = "other"
	c.explain = "NewSCTE35 is abstractly interpreted (SSA, bit-provenance domain, exact bytes.Buffer model) on the canonical encoding of a family of section shapes — command type, guarding flags, counts, lengths and descriptor kinds constant, every field value symbolic — and every field of the decoded object graph is compared with the section bits that carry it according to SCTE 35 section 9 (independent reference encoder in s35spec.go)."
	c.trust("go/ssa + go/types (x/tools v0.29.0)", "E1 abstract interpreter", "bytes.Buffer model (bufmodel.go)", "reference syntax in s35spec.go (SCTE 35 2019 section 9)")
	c.runS35Decode(c.Tier == "thorough")
	c.runS35Reject()
}

// changedSince lists the cells of objects that already existed in snap (a
// clone of an earlier state of the same analysis) whose value differs now.
func (n *nav) changedSince(snap *State) []string {
	var out []string
	for o, m := range n.st.cells {
		if n.st.born[o] && !snap.born[o] {
			continue
		}
		for k, v := range m {
			if old, ok := snap.cells[o][k]; ok && old == v {
				continue
			}
			t := n.in.leafType(o, k)
			if t == nil {
				continue
			}
			if !sameVal(n.in.loadPath(snap, o, k, t), v) {
				out = append(out, fmt.Sprintf("%s[%s]", o.Name, k))
			}
		}
	}
	for o, e := range n.st.havoc {
		if (!n.st.born[o] || snap.born[o]) && snap.havoc[o] != e {
			out = append(out, o.Name+"[*]")
		}
	}
	sort.Strings(out)
	return out
}
