package main

import (
	"fmt"
	"go/types"
	"os"
	"sort"
	"strings"

	"golang.org/x/tools/go/ssa"
)

// C09: SCTE-35 encoding. Objects are obtained inside the abstract interpreter
// — by decoding the canonical encoding of a shape (s35spec.go) or through the
// creation API — then modified through setters and serialised with
// UpdateData(); the produced bytes are compared with the reference encoder
// applied to the logical field values.

// crcCall records one call of gots.ComputeCRC.
type crcCall struct {
	input []Val
	out   *Obj
}

// s35EncSetup: buffer model plus an uninterpreted CRC: the result of
// ComputeCRC is four opaque bytes, the input window is recorded (the CRC
// function itself is C13's subject).
func s35EncSetup(calls *[]crcCall) func(in *Interp) {
	return func(in *Interp) {
		s35Setup(in)
		buf := in.Intrinsic
		in.Intrinsic = func(fn *ssa.Function, args []Val, st *State) (Val, bool) {
			if fn.String() == "github.com/Comcast/gots/v2.ComputeCRC" {
				vals, ok := sliceBytes(in, st, args[0])
				if !ok {
					in.fail("ComputeCRC over a window of non-constant length")
					return nil, true
				}
				o := in.newObj(fmt.Sprintf("crc#%d", len(*calls)), "param", types.Typ[types.Uint8], true)
				o.Seq, o.N, o.Len = true, 4, constInt(4, 64, true)
				st.born[o] = true
				*calls = append(*calls, crcCall{vals, o})
				return &SliceV{Obj: o, Lo: constInt(0, 64, true), Len: o.Len, Cap: o.Len, Elem: types.Typ[types.Uint8]}, true
			}
			return buf(fn, args, st)
		}
	}
}

// readBytes reads a constant-length byte slice value.
func (n *nav) readBytes(v Val) ([]*BV, string) {
	es, ok := n.elems(v)
	if !ok {
		return nil, "result is " + showVal(v)
	}
	out := make([]*BV, len(es))
	for i, e := range es {
		bv, ok := e.(*BV)
		if !ok {
			return nil, fmt.Sprintf("byte %d is %s", i, showVal(e))
		}
		out[i] = bv
	}
	return out, ""
}

// s35Field names the syntax element a byte offset of an encoded section belongs to.
func s35Where(x *s35X, at int) string {
	rel := at
	switch {
	case rel < 3:
		return "table header"
	case rel < 14:
		return []string{"", "", "", "protocol_version", "encryption/pts_adjustment", "pts_adjustment", "pts_adjustment", "pts_adjustment", "pts_adjustment", "cw_index", "tier", "tier/splice_command_length", "splice_command_length", "splice_command_type"}[rel]
	case rel < 14+x.cmdLen:
		return fmt.Sprintf("splice command byte %d", rel-14)
	case rel < 16+x.cmdLen:
		return "descriptor_loop_length"
	}
	for j := range x.descAt {
		if a := x.descAt[j] - x.sectionAt; rel >= a && rel < a+x.descLen[j] {
			return fmt.Sprintf("descriptor %d byte %d", j, rel-a)
		}
	}
	if rel >= x.crcAt-x.sectionAt {
		return "CRC_32"
	}
	return "after the descriptors"
}

// compareEncoding checks got (the bytes UpdateData returned) against the
// canonical encoding want of the logical signal: every byte before the CRC is
// equal, the CRC field holds the result of ComputeCRC over exactly the bytes
// before it. skipAdj leaves the 33 pts_adjustment bits out (their round-trip
// identity is arithmetic, checked separately).
func compareEncoding(got []*BV, want *s35X, calls []crcCall, skipAdj, skipDesc bool, envs ...cenv) string {
	exp := want.cells[want.sectionAt:]
	if len(got) != len(exp) {
		return fmt.Sprintf("encoding has %d bytes, the canonical section has %d (section_length %d)", len(got), len(exp), want.secLen)
	}
	body := len(exp) - 4
	for i := 0; i < body; i++ {
		wb := exp[i].Bits
		if len(envs) > 0 && i >= 4 && i <= 8 {
			if ok, _ := matchBits(got[i], wb); ok {
				continue
			}
			if ok, d := sampledSame(got[i], exp[i], envs); !ok {
				return fmt.Sprintf("byte %d (%s): %s", i, s35Where(want, i), d)
			}
			continue
		}
		if skipAdj && i >= 4 && i <= 8 {
			g := got[i]
			if i == 4 {
				// encrypted_packet and encryption_algorithm share the byte
				if ok, d := matchBits(&BV{W: 7, Bits: g.Bits[1:]}, wb[1:]); !ok {
					return fmt.Sprintf("byte %d (%s): %s", i, s35Where(want, i), d)
				}
			}
			continue
		}
		if skipDesc && i >= 16+want.cmdLen {
			continue
		}
		if ok, d := matchBits(got[i], wb); !ok {
			return fmt.Sprintf("byte %d (%s): %s", i, s35Where(want, i), d)
		}
	}
	if len(calls) == 0 {
		return "ComputeCRC is never called"
	}
	last := calls[len(calls)-1]
	if len(last.input) != body {
		return fmt.Sprintf("CRC computed over %d bytes, the section has %d before the CRC field", len(last.input), body)
	}
	for i, v := range last.input {
		bv, ok := v.(*BV)
		if !ok || !sameBV(bv, got[i]) {
			return fmt.Sprintf("CRC input byte %d is not output byte %d", i, i)
		}
	}
	for i := 0; i < 4; i++ {
		if !sameBV(got[body+i], cellBV(last.out.Name, i)) {
			return fmt.Sprintf("CRC_32 byte %d is not byte %d of the ComputeCRC result", i, i)
		}
	}
	return ""
}

// decodeForEncode decodes the canonical encoding of sh with the encoder setup.
func (c *Checker) decodeForEncode(sh s35Shape, calls *[]crcCall) (*nav, Val, *s35X, string) {
	fn, err := c.P.Func("scte35:NewSCTE35")
	if err != nil {
		return nil, nil, nil, err.Error()
	}
	c.analysed[fn.String()] = true
	if up, err := c.P.Func("scte35:(*scte35).UpdateData"); err == nil {
		c.analysed[up.String()] = true
	}
	x := sh.encode("data", nil)
	pre := func(in *Interp, st *State, ps []Val) {
		seedCells(in, st, ps[0].(*SliceV).Obj, 0, x.cells)
	}
	sum := Analyze(c.P, fn, &AnalyzeOpts{Pre: pre, SliceLen: map[string]int{"data": len(x.cells)}, Setup: s35EncSetup(calls)})
	if sum.Failed != "" {
		return nil, nil, nil, "analysis of NewSCTE35: " + sum.Failed
	}
	if eq, dec, _ := equivBits(sum.in.nilBit(sum.RetN(1)), U.B1, 16); !eq || !dec {
		return nil, nil, nil, "the canonical section is rejected by the decoder"
	}
	return &nav{sum.in, sum.Out}, sum.RetN(0), x, ""
}

// s35CRCCase decides only the checksum clause for one shape: the section
// UpdateData() returns for the decoded signal ends in the result of one
// ComputeCRC call whose input is exactly the bytes before those four, and its
// length agrees with its own section_length.
func (c *Checker) s35CRCCase(sh s35Shape, stuffing int) string {
	var calls []crcCall
	n, sig, _, why := c.decodeForEncode(sh, &calls)
	if why != "" {
		// no signal to encode: the layout says nothing about the checksum clause (decoding is C08's subject)
		return "skip: " + why
	}
	if stuffing > 0 {
		n.call(sig, "SetAlignmentStuffing", constInt(int64(stuffing), 64, false))
		if n.in.Fail != "" {
			return "analysis of SetAlignmentStuffing: " + n.in.Fail
		}
	}
	before := len(calls)
	out := n.call(sig, "UpdateData")
	if n.in.Fail != "" {
		return "analysis of UpdateData: " + n.in.Fail
	}
	got, why := n.readBytes(out)
	if why != "" {
		return why
	}
	if len(got) < 7 {
		return fmt.Sprintf("the encoding has %d bytes", len(got))
	}
	hi, ok1 := constLowBits(got[1], 4)
	lo, ok2 := got[2].ConstInt()
	if !ok1 || !ok2 {
		return "section_length of the output is not a constant of the layout"
	}
	if sl := int(hi&0x0f)<<8 | int(lo); sl+3 != len(got) {
		return fmt.Sprintf("section_length %d but %d bytes emitted", sl, len(got))
	}
	if len(calls)-before != 1 {
		return fmt.Sprintf("ComputeCRC is called %d times while encoding", len(calls)-before)
	}
	cc := calls[len(calls)-1]
	body := len(got) - 4
	if len(cc.input) != body {
		return fmt.Sprintf("CRC computed over %d bytes, the section has %d before CRC_32", len(cc.input), body)
	}
	for i, v := range cc.input {
		bv, ok := v.(*BV)
		if !ok || !sameBV(bv, got[i]) {
			return fmt.Sprintf("CRC input byte %d is not output byte %d", i, i)
		}
	}
	for i := 0; i < 4; i++ {
		if !sameBV(got[body+i], cellBV(cc.out.Name, i)) {
			return fmt.Sprintf("CRC_32 byte %d is not byte %d of the ComputeCRC result", i, i)
		}
	}
	return ""
}

func (c *Checker) runS35RoundTrip(thorough bool) {
	shapes := s35Shapes(thorough)
	groups := map[string]*stepAgg{}
	var order []string
	orderN, orderBad, orderFirst := 0, 0, ""
	for _, sh := range shapes {
		g := strings.SplitN(sh.name, ";", 2)[0]
		a := groups[g]
		if a == nil {
			a = &stepAgg{}
			groups[g] = a
			order = append(order, g)
		}
		a.n++
		fail := func(d string) {
			a.bad++
			if a.first == "" {
				a.first = sh.name + ": " + d
			}
		}
		var calls []crcCall
		n, sig, x, why := c.decodeForEncode(sh, &calls)
		if why != "" {
			fail(why)
			continue
		}
		out := n.call(sig, "UpdateData")
		if n.in.Fail != "" {
			fail("analysis of UpdateData: " + n.in.Fail)
			continue
		}
		got, why := n.readBytes(out)
		if why != "" {
			fail(why)
			continue
		}
		want := sh.encode("data", x.vals)
		hasPTS := sh.cmd == 6 || sh.cmd == 5 && !sh.cancel && sh.program && !sh.immediate
		// a foreign descriptor after a segmentation descriptor: the order is a
		// separate obligation, the rest of the section is still compared here
		mixed := false
		seenSeg := false
		for _, d := range sh.descs {
			if !d.foreign {
				seenSeg = true
			} else if seenSeg {
				mixed = true
			}
		}
		var envs []cenv
		if hasPTS {
			// pts_adjustment after re-encoding is ((pts_time + adj) mod 2^33 - pts_time) mod 2^33:
			// compared on boundary and random samples of both fields
			envs = sampleEnvs([][]Bit{x.v("pts"), x.v("adj")}, 60)
		}
		if d := compareEncoding(got, want, calls, false, mixed, envs...); d != "" {
			fail(d)
			continue
		}
		if mixed {
			orderN++
			if d := compareEncoding(got, want, calls, hasPTS, false); d != "" {
				orderBad++
				if orderFirst == "" {
					orderFirst = sh.name + ": " + d
				}
			}
		}
		// the raw-data accessor now returns the new bytes; a second encoding is identical
		if dv, ok := n.call(sig, "Data").(*SliceV); !ok || dv.Obj != out.(*SliceV).Obj {
			fail("Data() does not return the bytes of the last UpdateData()")
			continue
		}
		again, why := n.readBytes(n.call(sig, "UpdateData"))
		if why != "" || len(again) != len(got) {
			fail("second UpdateData(): " + why)
			continue
		}
		for i := 0; i < len(got)-4; i++ {
			if !sameBV(again[i], got[i]) {
				fail(fmt.Sprintf("encoding twice differs at byte %d", i))
				break
			}
		}
	}
	for _, g := range order {
		a := groups[g]
		c.check("C09.roundtrip", "scte35:(*scte35).UpdateData", g+": re-encoding the decoded canonical section reproduces it (CRC_32 = ComputeCRC of the bytes before it), Data() follows, encoding twice is stable",
			a.bad == 0, fmt.Sprintf("%d of %d shapes fail; first: %s", a.bad, a.n, a.first))
	}
	c.check("C09.order", "scte35:(*scte35).UpdateData", "descriptors are emitted in the order they were decoded, foreign descriptors included",
		orderBad == 0, fmt.Sprintf("%d of %d shapes with a foreign descriptor after a segmentation descriptor fail; first: %s", orderBad, orderN, orderFirst))
	c.floorCheck("C09.roundtrip shapes", len(shapes), 100)
	c.extra["shapes"] = len(shapes)
}

func runC09(c *Checker) {
	c.Level = "other"
	c.explain = "Objects are built inside the abstract interpreter (SSA, bit-provenance domain, exact bytes.Buffer model, ComputeCRC uninterpreted with its input window recorded): by decoding the canonical encoding of every shape of the C08 family, or through the creation API; setters are applied and UpdateData() is interpreted; the produced bytes are compared with the reference encoder of s35spec.go applied to the logical field values (lengths, reserved bits, presence of sub-structures, descriptor order, CRC window and placement)."
	c.trust("go/ssa + go/types (x/tools v0.29.0)", "E1 abstract interpreter", "bytes.Buffer model (bufmodel.go)", "reference syntax in s35spec.go (SCTE 35 2019 section 9)", "C13 for the CRC function itself")
	_ = os.Getenv
	_ = sort.Strings
	c.runS35RoundTrip(c.Tier == "thorough")
	c.runS35Setters(c.Tier == "thorough")
	c.runS35Toggles()
	c.runS35Build()
}

// constLowBits: the value of the n low bits of v when they are constants.
func constLowBits(v *BV, n int) (int64, bool) {
	var x int64
	for i := 0; i < n && i < v.W; i++ {
		if !isConst(v.Bits[i]) {
			return 0, false
		}
		if v.Bits[i].c {
			x |= 1 << uint(i)
		}
	}
	return x, true
}
