package main

import (
	"os"
	"strings"
	"testing"
)

// TestSiteDbg prints, for the function named by BFN (anchor syntax), every
// bounds site with its requirements and the facts available in its block.
func TestSiteDbg(t *testing.T) {
	U = newUniverse()
	P, err := loadProgram(repoForDbg())
	if err != nil {
		t.Fatal(err)
	}
	B := newBounds(P)
	for _, l := range B.applyPremises() {
		t.Log(l)
	}
	fn, err := P.Func(os.Getenv("BFN"))
	if err != nil {
		t.Fatal(err)
	}
	bf := B.of(fn)
	for _, s := range B.sites(fn) {
		if f := os.Getenv("BSITE"); f != "" && !strings.Contains(s.construct, f) {
			continue
		}
		t.Logf("SITE %s [%s] block %d", s.construct, s.kind, s.ins.Block().Index)
		for _, q := range s.reqs {
			ok, why := B.proveReqAt(bf, q.e, s.ins.Block(), s.ins, 0)
			t.Logf("   need %s >= 0 (%s): proved=%v %s", bf.affString(q.e), q.what, ok, why)
		}
		for _, f := range bf.facts[s.ins.Block()] {
			t.Logf("   fact %s >= 0", bf.affString(f))
		}
		for _, f := range bf.global {
			t.Logf("   global %s >= 0", bf.affString(f))
		}
	}
}

func repoForDbg() string {
	if r := os.Getenv("BREPO"); r != "" {
		return r
	}
	return "/repo"
}
