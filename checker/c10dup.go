package main

import (
	"fmt"
	"go/types"
	"strings"
)

// c10dup.go: duplicate detection of the SCTE-35 state tracker. The received
// ring is seeded with a constant structure (which slots are occupied, how many
// descriptors each entry holds, constant PTS values); the incoming descriptor
// and the stored ones are opaque interface values whose methods are answered
// by a hook (Equal per scenario, HasPTS true, constant PTS and type). For
// every stored descriptor at the incoming PTS that the incoming one equals,
// ProcessDescriptor must return the duplicate error, nothing closed, and leave
// open / inBlackout / blackoutIdx untouched.

type ringEntry struct {
	pts   int64
	descs int
}

type dupScenario struct {
	name  string
	ring  map[int]ringEntry // slot -> entry
	pts   int64             // PTS of the incoming descriptor
	equal map[string]bool   // "slot.k" -> desc.Equal(that descriptor)
	dup   bool              // expected: duplicate error
}

func dupScenarios() []dupScenario {
	return []dupScenario{
		{"single entry, single descriptor, equal", map[int]ringEntry{0: {1000, 1}}, 1000, map[string]bool{"0.0": true}, true},
		{"single entry, equal to the second of two descriptors", map[int]ringEntry{0: {1000, 2}}, 1000, map[string]bool{"0.1": true}, true},
		{"single entry, equal to the third of three descriptors", map[int]ringEntry{0: {1000, 3}}, 1000, map[string]bool{"0.2": true}, true},
		{"equal to the first of two descriptors", map[int]ringEntry{0: {1000, 2}}, 1000, map[string]bool{"0.0": true}, true},
		{"matching entry is not the first occupied slot", map[int]ringEntry{0: {5, 1}, 3: {1000, 2}, 9: {7, 1}}, 1000, map[string]bool{"3.1": true}, true},
		{"matching entry in the last slot", map[int]ringEntry{9: {1000, 1}}, 1000, map[string]bool{"9.0": true}, true},
		{"equal descriptor stored under another PTS only", map[int]ringEntry{0: {5, 1}}, 1000, map[string]bool{"0.0": true}, false},
		{"same PTS, not equal", map[int]ringEntry{0: {1000, 2}}, 1000, map[string]bool{}, false},
		{"empty ring", map[int]ringEntry{}, 1000, map[string]bool{}, false},
		// the head slot (2 in every scenario) holds an older entry: the ring is
		// full there and the entry is evicted (seed C10i: the slot recycled with
		// its old PTS key)
		{"head slot occupied by an older entry of another PTS", map[int]ringEntry{2: {5, 1}, 3: {6, 1}}, 1000, map[string]bool{}, false},
	}
}

func (c *Checker) runStateDuplicates() {
	fn, err := c.P.Func("scte35:(*state).ProcessDescriptor")
	if err != nil {
		c.undecided("C10.duplicate", "scte35:(*state).ProcessDescriptor", "anchor", err.Error())
		return
	}
	for _, sc := range dupScenarios() {
		sc := sc
		var recvObj *Obj
		fieldIx := func(t types.Type, name string) int {
			st := structOf(t)
			for i := 0; st != nil && i < st.NumFields(); i++ {
				if st.Field(i).Name() == name {
					return i
				}
			}
			return -1
		}
		pre := func(in *Interp, st *State, ps []Val) {
			p := ps[0].(*Ptr)
			recvObj = p.Obj
			p.Obj.NonNil = true
			stT := p.T
			n := &nav{in, st}
			sst := structOf(stT)
			openT := sst.Field(fieldIx(stT, "open")).Type()
			recvT := sst.Field(fieldIx(stT, "received")).Type()
			elemPtrT := recvT.Underlying().(*types.Slice).Elem()
			elemT := elemPtrT.(*types.Pointer).Elem()
			descT := openT.Underlying().(*types.Slice).Elem()
			in.setCell(st, p.Obj, fmt.Sprint(fieldIx(stT, "open")), n.mkSlice("open", descT, nil))
			var slots []Val
			for i := 0; i < 10; i++ {
				e, ok := sc.ring[i]
				if !ok {
					slots = append(slots, NilV{})
					continue
				}
				eo := in.newObj(fmt.Sprintf("entry%d", i), "alloc", elemT, false)
				st.born[eo] = true
				in.setCell(st, eo, fmt.Sprint(fieldIx(elemT, "pts")), constInt(e.pts, 64, false))
				var ds []Val
				for k := 0; k < e.descs; k++ {
					ds = append(ds, &OpaqueV{Why: fmt.Sprintf("stored %d.%d", i, k), T: descT})
				}
				in.setCell(st, eo, fmt.Sprint(fieldIx(elemT, "descs")), n.mkSlice("descs", descT, ds))
				slots = append(slots, &Ptr{Obj: eo, T: elemT})
			}
			in.setCell(st, p.Obj, fmt.Sprint(fieldIx(stT, "received")), n.mkSlice("received", elemPtrT, slots))
			in.setCell(st, p.Obj, fmt.Sprint(fieldIx(stT, "receivedHead")), constInt(2, 64, true))
			in.setCell(st, p.Obj, fmt.Sprint(fieldIx(stT, "blackoutIdx")), constInt(0, 64, true))
			in.setCell(st, p.Obj, fmt.Sprint(fieldIx(stT, "inBlackout")), boolBV(U.B0))
		}
		setup := func(in *Interp) {
			in.MaxDepth = 12
			in.InvokeHook = func(recv Val, m *types.Func, args []Val, rt types.Type, st *State) (Val, bool) {
				ov, ok := recv.(*OpaqueV)
				if !ok {
					return nil, false
				}
				switch m.Name() {
				case "SCTE35":
					return &OpaqueV{Why: ov.Why + ".SCTE35", T: rt}, true
				case "HasPTS":
					return boolBV(U.B1), true
				case "PTS":
					return constInt(sc.pts, 64, false), true
				case "Equal":
					if o, ok := args[0].(*OpaqueV); ok && strings.HasPrefix(o.Why, "stored ") {
						return boolBV(bconst(sc.equal[strings.TrimPrefix(o.Why, "stored ")])), true
					}
				case "TypeID":
					if strings.HasPrefix(ov.Why, "param") {
						return constInt(0x31, 8, false), true // an "in" type outside the stream-switch logic
					}
					return srcBV(U.source("param", ov.Why+".TypeID", 8), false), true
				case "EventID":
					return srcBV(U.source("param", ov.Why+".EventID", 32), false), true
				}
				return nil, false
			}
		}
		sum := Analyze(c.P, fn, &AnalyzeOpts{Pre: pre, Setup: setup})
		con := "received ring: " + sc.name
		if sum.Failed != "" {
			c.undecided("C10.duplicate", shortFn(fn), con, sum.Failed)
			continue
		}
		errV := sum.RetN(1)
		isDup := false
		if s, ok := errV.(SymConst); ok && strings.HasSuffix(s.Name, ".ErrSCTE35DuplicateDescriptor") {
			isDup = true
		}
		detail := ""
		switch {
		case sc.dup && !isDup:
			detail = "the incoming descriptor equals a stored one at the same PTS but the result error is " + showVal(errV)
		case !sc.dup && isDup:
			detail = "no stored descriptor at this PTS equals the incoming one but the duplicate error is returned"
		case !sc.dup:
			// an accepted descriptor with no entry at its PTS yet is filed in the
			// head slot under its own PTS, alone
			samePTS := false
			for _, e := range sc.ring {
				if e.pts == sc.pts {
					samePTS = true
				}
			}
			if !samePTS && recvObj != nil {
				in := sum.in
				stT := recvObj.T
				rv, _ := in.loadPath(sum.Out, recvObj, fmt.Sprint(fieldIx(stT, "received")), structOf(stT).Field(fieldIx(stT, "received")).Type()).(*SliceV)
				var slot *Ptr
				if rv != nil {
					if lo, ok := rv.Lo.ConstInt(); ok {
						et := rv.Elem
						slot, _ = in.loadPath(sum.Out, rv.Obj, joinPath(rv.Prefix, int(lo)+2), et).(*Ptr)
					}
				}
				if slot == nil {
					detail = "an accepted descriptor is not filed in the head slot of the ring"
				} else {
					et := slot.T
					pv, _ := in.loadPath(sum.Out, slot.Obj, joinPath(slot.Path, fieldIx(et, "pts")), structOf(et).Field(fieldIx(et, "pts")).Type()).(*BV)
					if k, ok := int64(-1), false; pv != nil {
						k, ok = pv.ConstInt()
						if !ok || k != sc.pts {
							detail = fmt.Sprintf("an accepted descriptor is filed in the head slot under PTS %s, its own is %d (the next identical descriptor would not be recognised)", showVal(pv), sc.pts)
						}
					} else {
						detail = "the head slot's PTS key is unreadable"
					}
					if dv, _ := in.loadPath(sum.Out, slot.Obj, joinPath(slot.Path, fieldIx(et, "descs")), structOf(et).Field(fieldIx(et, "descs")).Type()).(*SliceV); detail == "" {
						if dv == nil {
							detail = "the head slot's descriptor list is unreadable"
						} else if n, ok := dv.Len.ConstInt(); !ok || n != 1 {
							detail = fmt.Sprintf("the head slot holds %s descriptors after filing one under a new PTS", showVal(dv.Len))
						}
					}
				}
			}
		case sc.dup:
			if _, isNil := sum.RetN(0).(NilV); !isNil {
				detail = "a rejected duplicate returns closed descriptors: " + showVal(sum.RetN(0))
			}
			for _, w := range sum.WrittenCells() {
				for _, f := range []string{"open", "inBlackout", "blackoutIdx"} {
					if recvObj != nil && w == fmt.Sprintf("%s[%d]", recvObj.Name, fieldIx(recvObj.T, f)) {
						detail = "a rejected duplicate changes " + f
					}
				}
			}
		}
		c.check("C10.duplicate", shortFn(fn), con+": duplicate error exactly when a descriptor stored at the same PTS equals the incoming one; a rejected duplicate closes nothing and leaves the open list and blackout fields alone", detail == "", detail)
	}
}
