package main

import (
	"fmt"
	"os"
	"path/filepath"
)

var propRunners = map[string]func(c *Checker){
	"C01": runC01,
	"C04": runC04,
	"C05": runC05,
	"C06": runC06,
	"C07": runC07,
	"C10": runC10,
	"C11": runC11,
	"C13": runC13,
	"C15": runC15,
	"C16": runC16,
	"C17": runC17,
	"C18": runC18,
	"C19": runC19,
	"C20": runC20,
	"C03": runC03,
	"C02": runC02,
	"C08": runC08,
	"C09": runC09,
	"C12": runC12,
	"C14": runC14,
}

func runProperty(P *Program, prop, tier, evid string) int {
	run, ok := propRunners[prop]
	if !ok {
		fmt.Printf("unknown property %q\n", prop)
		return 2
	}
	verif := os.Getenv("VERIF_DIR")
	if verif == "" {
		exe, _ := os.Executable()
		verif = filepath.Dir(filepath.Dir(exe))
	}
	c := newChecker(P, prop, tier, verif)
	run(c)
	return c.finish(evid)
}
