package main

import (
	"fmt"
	"go/types"
	"sort"
	"strings"

	"golang.org/x/tools/go/ssa"
)

// Stream-type code sets, from the property statement (ISO/IEC 13818-1 Table
// 2-34, ATSC A/53, SCTE 35, ETSI TS 101 154).
var (
	stAudio   = []uint64{0x0F, 0x81, 0x87}
	stVideo   = []uint64{0x02, 0x1B, 0x24}
	stScte35  = []uint64{0x86}
	stID3     = []uint64{0x15}
	stPrivate = []uint64{0x06}
	stLags    = []uint64{0x03, 0x04, 0x0F, 0x11, 0x81, 0x87, 0x88}
)

func inSet(bits []Bit, set []uint64) Bit {
	r := U.B0
	for _, v := range set {
		r = bor(r, eqConst(bits, v))
	}
	return r
}

func contains(set []uint64, v uint64) bool {
	for _, x := range set {
		if x == v {
			return true
		}
	}
	return false
}

// structFieldIndex finds the index of a named field of a named struct type.
func (P *Program) structFieldIndex(pkgRel, typ, field string) (int, types.Type, error) {
	path := modPath
	if pkgRel != "" {
		path += "/" + pkgRel
	}
	tp := P.TPkg[path]
	if tp == nil {
		return 0, nil, fmt.Errorf("package %s not loaded", path)
	}
	obj := tp.Types.Scope().Lookup(typ)
	if obj == nil {
		return 0, nil, fmt.Errorf("type %s.%s not found", pkgRel, typ)
	}
	st, ok := obj.Type().Underlying().(*types.Struct)
	if !ok {
		return 0, nil, fmt.Errorf("%s.%s is not a struct", pkgRel, typ)
	}
	for i := 0; i < st.NumFields(); i++ {
		if st.Field(i).Name() == field {
			return i, st.Field(i).Type(), nil
		}
	}
	return 0, nil, fmt.Errorf("field %s.%s.%s not found", pkgRel, typ, field)
}

// seedSlice makes field `path` of o a slice of n opaque elements named
// prefix0..prefix(n-1) and returns their values.
func seedOpaqueSlice(in *Interp, st *State, o *Obj, path string, sliceT types.Type, n int, prefix string) []Val {
	et := sliceT.Underlying().(*types.Slice).Elem()
	so := in.newObj(prefix+"s", "lazy", et, true)
	so.Seq = true
	so.N = n
	so.Len = constInt(int64(n), 64, true)
	var elems []Val
	for i := 0; i < n; i++ {
		e := &OpaqueV{Why: fmt.Sprintf("%s%d", prefix, i), T: et}
		in.setCell(st, so, fmt.Sprint(i), e)
		elems = append(elems, e)
	}
	in.setCell(st, o, path, &SliceV{Obj: so, Lo: constInt(0, 64, true), Len: so.Len, Elem: et})
	return elems
}

func runC20(c *Checker) {
	c.Level = "proof"
	c.explain = "Constant propagation per table entry: LookupPmtStreamType is interpreted for each of the 256 codes over the evaluated contents of the stream-type table (package initialiser interpreted abstractly); every predicate is compared, as a boolean function of the 8 code bits, with the code set the standards assign; each descriptor decoder is interpreted for each of the 256 descriptor tags with a symbolic body and must return exactly the defined field bits for its own tag and the neutral constant for every other tag; the stream-level queries are unfolded for 0..3 elements with interface getters as pure named functions."
	c.trust("go/ssa + go/types (x/tools v0.29.0)", "E1 transfer functions incl. the constant-key map/slice model and abstract evaluation of package initialisers",
		"code sets and descriptor layouts transcribed from the property statement / ISO 13818-1 §2.6 / ETSI EN 303 560 / Dolby Vision TS spec",
		"interface getters called by the stream-level queries are pure")
	psi := "psi"
	sess := NewSession(c.P, psi)
	if sess.fail != "" {
		c.undecided("C20.table", "psi:init", "initialiser", sess.fail)
		return
	}

	// ---- 1. lookup for all 256 codes
	lookup, err := c.P.Func("psi:LookupPmtStreamType")
	if err != nil {
		c.undecided("C20.lookup", "psi:LookupPmtStreamType", "anchor", err.Error())
		return
	}
	c.analysed[lookup.String()] = true
	nOK := 0
	bad := ""
	descs := map[string]bool{}
	for code := 0; code < 256; code++ {
		s := Analyze(c.P, lookup, &AnalyzeOpts{Sess: sess, Args: map[string]Val{"code": constInt(int64(code), 8, false)}})
		if s.Failed != "" {
			bad = fmt.Sprintf("code %#x: %s", code, s.Failed)
			break
		}
		// the answer for a code must not depend on earlier lookups: the
		// function may not write package-level state (seed C06i: a per-entry
		// cache that keeps the first code looked up)
		iv, ok := s.RetN(0).(*IfaceV)
		if !ok {
			bad = fmt.Sprintf("code %#x: result %s is not a concrete stream type", code, showVal(s.RetN(0)))
			break
		}
		sv, ok := iv.V.(*StructV)
		if !ok || len(sv.Fields) != 3 {
			bad = fmt.Sprintf("code %#x: unexpected result shape", code)
			break
		}
		cv, _ := sv.Fields[0].(*BV)
		dv, _ := sv.Fields[1].(*StrV)
		lv, _ := sv.Fields[2].(*BV)
		k, ok1 := int64(-1), false
		if cv != nil {
			k, ok1 = cv.ConstInt()
		}
		if !ok1 || k != int64(code) {
			bad = fmt.Sprintf("code %#x: StreamType() is %s", code, showVal(sv.Fields[0]))
			break
		}
		if dv == nil || dv.Const == nil || *dv.Const == "" {
			bad = fmt.Sprintf("code %#x: description is %s (must be a non-empty constant)", code, showVal(sv.Fields[1]))
			break
		}
		descs[*dv.Const] = true
		l, ok2 := int64(-1), false
		if lv != nil {
			l, ok2 = lv.ConstInt()
		}
		if !ok2 || (l == 1) != contains(stLags, uint64(code)) {
			bad = fmt.Sprintf("code %#x: presentation-lags-EBP is %s, expected %v", code, showVal(sv.Fields[2]), contains(stLags, uint64(code)))
			break
		}
		nOK++
	}
	// the answer for a code must not depend on earlier lookups (seed C06i: a
	// per-entry cache that keeps the first code looked up): neither the lookup
	// nor anything it calls stores through a package-level variable
	gw := globalWrites(lookup)
	c.check("C20.lookup", "psi:LookupPmtStreamType", "pure: no store through a package-level variable in the lookup or its callees (the answer cannot depend on earlier calls)", len(gw) == 0, strings.Join(gw, "; "))
	c.check("C20.lookup", "psi:LookupPmtStreamType", "all 256 codes: returns the code, a non-empty description and presentationLagsEbp ∈ {03,04,0F,11,81,87,88}", bad == "", bad)
	c.floorCheck("C20.lookup codes evaluated", nOK, 256)
	c.extra["distinct_descriptions"] = len(descs)

	// ---- 2. predicates as functions of the 8 code bits
	type pred struct {
		anchor string
		set    []uint64
	}
	np := 0
	for _, p := range []pred{
		{"psi:(pmtStreamType).IsAudioContent", stAudio},
		{"psi:(pmtStreamType).IsVideoContent", stVideo},
		{"psi:(pmtStreamType).IsSCTE35Content", stScte35},
		{"psi:(pmtStreamType).IsID3Content", stID3},
		{"psi:(pmtStreamType).IsPrivateContent", stPrivate},
	} {
		s, _ := c.summary("C20.predicate", p.anchor, nil)
		if s == nil {
			continue
		}
		np++
		code := srcBV(U.source("param", "st.code", 8), false)
		ret, _ := s.RetN(0).(*BV)
		ok, d := ret != nil && ret.W == 1, "non-boolean result"
		if ok {
			eq, dec, det := semEqualBits(ret.Bits, []Bit{inSet(code.Bits, p.set)}, 16)
			ok, d = eq && dec, det
		}
		c.check("C20.predicate", p.anchor, fmt.Sprintf("true exactly for codes %x (all 256 codes)", p.set), ok, d)
	}
	if s, _ := c.summary("C20.predicate", "psi:presentationLagsEbp", nil); s != nil {
		np++
		code := srcBV(U.source("param", "code", 8), false)
		ret, _ := s.RetN(0).(*BV)
		ok, d := ret != nil && ret.W == 1, "non-boolean result"
		if ok {
			eq, dec, det := semEqualBits(ret.Bits, []Bit{inSet(code.Bits, stLags)}, 16)
			ok, d = eq && dec, det
		}
		c.check("C20.predicate", "psi:presentationLagsEbp", fmt.Sprintf("true exactly for codes %x (all 256 codes)", stLags), ok, d)
	}
	for _, g := range []struct {
		anchor, field string
		w             int
	}{{"psi:(pmtStreamType).StreamType", "st.code", 8}, {"psi:(pmtStreamType).IsStreamWherePresentationLagsEbp", "st.presentationLagsEbp", 1}} {
		if s, _ := c.summary("C20.predicate", g.anchor, nil); s != nil {
			np++
			ret, _ := s.RetN(0).(*BV)
			ok, d := matchBits(ret, srcBV(U.source("param", g.field, g.w), false).Bits)
			c.check("C20.predicate", g.anchor, "returns the stored "+g.field, ok, d)
		}
	}
	c.floorCheck("C20.predicate anchors analysed", np, 8)

	c.checkStreamQueries()
	c.checkDescriptorDecoders()
}

// pureOpts: interface method calls on opaque values are pure named functions.
func pureOpts(pre func(in *Interp, st *State, ps []Val)) *AnalyzeOpts {
	return &AnalyzeOpts{Setup: func(in *Interp) { in.PureInvoke = true }, Pre: pre}
}

func (c *Checker) checkStreamQueries() {
	// IsPidForStreamWherePresentationLagsEbp
	idx, ft, err := c.P.structFieldIndex("psi", "pmt", "elementaryStreams")
	if err != nil {
		c.undecided("C20.query", "psi:(*pmt).IsPidForStreamWherePresentationLagsEbp", "anchor", err.Error())
	} else {
		for n := 0; n <= 3; n++ {
			var elems []Val
			var in0 *Interp
			s, _ := c.summary("C20.query", "psi:(*pmt).IsPidForStreamWherePresentationLagsEbp", pureOpts(func(in *Interp, st *State, ps []Val) {
				in0 = in
				elems = seedOpaqueSlice(in, st, ps[0].(*Ptr).Obj, fmt.Sprint(idx), ft, n, "es")
			}))
			if s == nil {
				break
			}
			pid := srcBV(U.source("param", "pid", 64), true)
			want := U.B0
			for i := n - 1; i >= 0; i-- {
				ep := in0.opaqueNamed(types.Typ[types.Int], "ElementaryPid", elems[i]).(*BV)
				lg := in0.opaqueNamed(types.Typ[types.Bool], "IsStreamWherePresentationLagsEbp", elems[i]).(*BV)
				want = bmux(bvEq(pid, ep), lg.Bits[0], want)
			}
			ret, _ := s.RetN(0).(*BV)
			ok, d := ret != nil && ret.W == 1, "non-boolean"
			if ok {
				eq, dec, det := equivBits(ret.Bits[0], want, 12)
				ok, d = eq && dec, det
			}
			c.check("C20.query", "psi:(*pmt).IsPidForStreamWherePresentationLagsEbp", fmt.Sprintf("%d streams: predicate of the first stream whose ElementaryPid equals the argument, else false", n), ok, d)
		}
	}
	// MaxBitRate / IsTTMLSubtitling
	didx, dft, err := c.P.structFieldIndex("psi", "pmtElementaryStream", "descriptors")
	if err != nil {
		c.undecided("C20.query", "psi:(*pmtElementaryStream).MaxBitRate", "anchor", err.Error())
		return
	}
	for n := 0; n <= 3; n++ {
		var elems []Val
		var in0 *Interp
		seed := func(in *Interp, st *State, ps []Val) {
			in0 = in
			elems = seedOpaqueSlice(in, st, ps[0].(*Ptr).Obj, fmt.Sprint(didx), dft, n, "desc")
		}
		if s, _ := c.summary("C20.query", "psi:(*pmtElementaryStream).MaxBitRate", pureOpts(seed)); s != nil {
			want := constInt(0, 64, false)
			for i := n - 1; i >= 0; i-- {
				is := in0.opaqueNamed(types.Typ[types.Bool], "IsMaximumBitrateDescriptor", elems[i]).(*BV)
				mb := in0.opaqueNamed(types.Typ[types.Uint32], "DecodeMaximumBitRate", elems[i]).(*BV)
				v := bvArith("mul", extendBV(mb, 64, false), constInt(400, 64, false))
				want = bvMux(is.Bits[0], v, want)
			}
			ret, _ := s.RetN(0).(*BV)
			ok := ret != nil && sameBV(ret, want)
			c.check("C20.query", "psi:(*pmtElementaryStream).MaxBitRate", fmt.Sprintf("%d descriptors: maximum_bitrate x 50 x 8 of the first maximum-bitrate descriptor, else 0", n), ok, fmt.Sprintf("result %s, expected %s", showVal(s.RetN(0)), want))
		}
		if s, _ := c.summary("C20.query", "psi:(*pmtElementaryStream).IsTTMLSubtitling", pureOpts(seed)); s != nil {
			want := U.B0
			for i := n - 1; i >= 0; i-- {
				a := in0.opaqueNamed(types.Typ[types.Bool], "IsTTMLSubtitlingDescriptor", elems[i]).(*BV)
				b := in0.opaqueNamed(types.Typ[types.Bool], "IsTTMLDescTagExtension", elems[i]).(*BV)
				want = bor(band(a.Bits[0], b.Bits[0]), want)
			}
			ret, _ := s.RetN(0).(*BV)
			ok, d := ret != nil && ret.W == 1, "non-boolean"
			if ok {
				eq, dec, det := equivBits(ret.Bits[0], want, 12)
				ok, d = eq && dec, det
			}
			c.check("C20.query", "psi:(*pmtElementaryStream).IsTTMLSubtitling", fmt.Sprintf("%d descriptors: some descriptor is a TTML (0x7F) descriptor with tag extension 0x20", n), ok, d)
		}
	}
}

// descriptor decoders ------------------------------------------------------

type decSpec struct {
	anchor string
	tag    int // -1: independent of the tag
	what   string
	// expect builds the expected result for the decoder's own tag from the
	// body bytes d[0..15]; neutral is the expected result for other tags.
	expect  func(d []*BV, s *Summary) (Val, string)
	neutral func() Val
}

func strConst(s string) Val { return &StrV{Const: &s} }

func (c *Checker) checkDescriptorDecoders() {
	const bodyLen = 16
	tagIdx, _, err1 := c.P.structFieldIndex("psi", "pmtDescriptor", "tag")
	dataIdx, dataT, err2 := c.P.structFieldIndex("psi", "pmtDescriptor", "data")
	if err1 != nil || err2 != nil {
		c.undecided("C20.decoder", "psi:pmtDescriptor", "anchor", fmt.Sprint(err1, err2))
		return
	}
	body := func(name string) []*BV {
		var d []*BV
		for i := 0; i < bodyLen; i++ {
			d = append(d, cellBV(name, i))
		}
		return d
	}
	cat := func(segs ...[]Bit) []Bit { // MSB-first pieces → LSB-first bits
		var out []Bit
		for i := len(segs) - 1; i >= 0; i-- {
			out = append(out, segs[i]...)
		}
		return out
	}
	boolV := func(b Bit) Val { return boolBV(b) }
	specs := []decSpec{
		{"psi:(*pmtDescriptor).DecodeMaximumBitRate", 0x0E, "maximum_bitrate = d0[4:0]‖d1‖d2",
			func(d []*BV, s *Summary) (Val, string) {
				return bitsBV(cat(d[0].Bits[0:5], d[1].Bits, d[2].Bits), 32), ""
			}, func() Val { return constInt(0, 32, false) }},
		{"psi:(*pmtDescriptor).DecodeIso639AudioType", 0x0A, "audio_type = d3",
			func(d []*BV, s *Summary) (Val, string) { return d[3], "" }, func() Val { return constInt(0, 8, false) }},
		{"psi:(*pmtDescriptor).DecodeTTMLSubtitlePurpose", 0x7F, "subtitle_purpose = d4[7:2]",
			func(d []*BV, s *Summary) (Val, string) { return bitsBV(d[4].Bits[2:8], 8), "" }, func() Val { return constInt(0xFF, 8, false) }},
		{"psi:(*pmtDescriptor).DecodeIso639LanguageCode", 0x0A, "language = string(d[0:3])",
			func(d []*BV, s *Summary) (Val, string) { return nil, "conv:string(desc.data[0:+3])" }, func() Val { return strConst("") }},
		{"psi:(*pmtDescriptor).DecodeTTMLIso639LanguageCode", 0x7F, "language = string(d[1:4])",
			func(d []*BV, s *Summary) (Val, string) { return nil, "conv:string(desc.data[1:+3])" }, func() Val { return strConst("") }},
		{"psi:(*pmtDescriptor).IsDolbyVision", 0x05, "d[0:4] == \"DOVI\"",
			func(d []*BV, s *Summary) (Val, string) {
				return boolV(andAll(eqConst(d[0].Bits, 0x44), eqConst(d[1].Bits, 0x4F), eqConst(d[2].Bits, 0x56), eqConst(d[3].Bits, 0x49))), ""
			}, func() Val { return boolV(U.B0) }},
		{"psi:(*pmtDescriptor).IsTTMLDescTagExtension", -1, "d0 == 0x20",
			func(d []*BV, s *Summary) (Val, string) { return boolV(eqConst(d[0].Bits, 0x20)), "" }, nil},
		{"psi:(*pmtDescriptor).IsTTMLSubtitlingDescriptor", 0x7F, "tag test", func(d []*BV, s *Summary) (Val, string) { return boolV(U.B1), "" }, func() Val { return boolV(U.B0) }},
		{"psi:(*pmtDescriptor).IsIso639LanguageDescriptor", 0x0A, "tag test", func(d []*BV, s *Summary) (Val, string) { return boolV(U.B1), "" }, func() Val { return boolV(U.B0) }},
		{"psi:(*pmtDescriptor).IsMaximumBitrateDescriptor", 0x0E, "tag test", func(d []*BV, s *Summary) (Val, string) { return boolV(U.B1), "" }, func() Val { return boolV(U.B0) }},
		{"psi:(*pmtDescriptor).IsEBPDescriptor", 0xE9, "tag test", func(d []*BV, s *Summary) (Val, string) { return boolV(U.B1), "" }, func() Val { return boolV(U.B0) }},
		{"psi:(*pmtDescriptor).Tag", -2, "returns the tag", nil, nil},
		{"psi:(*pmtDescriptor).DecodeDolbyVisionCodec", 0xB0, "fmt \"%s.%02d.%02d\" of \"dvhe\", profile = n[15:9], level = n[7:3], n = BE16(d[2:4])", nil, func() Val { return strConst("") }},
	}
	nd := 0
	for _, sp := range specs {
		fn, err := c.P.Func(sp.anchor)
		if err != nil {
			c.undecided("C20.decoder", sp.anchor, "anchor", err.Error())
			continue
		}
		c.analysed[fn.String()] = true
		nd++
		var fails []string
		for tag := 0; tag < 256; tag++ {
			var dataObj *Obj
			s := Analyze(c.P, fn, &AnalyzeOpts{Rename: map[string]string{"#0": "desc"}, Pre: func(in *Interp, st *State, ps []Val) {
				o := ps[0].(*Ptr).Obj
				in.setCell(st, o, fmt.Sprint(tagIdx), constInt(int64(tag), 8, false))
				dataObj = in.newObj("desc.data", "lazy", byteT, true)
				dataObj.Seq, dataObj.N, dataObj.Len = true, bodyLen, constInt(bodyLen, 64, true)
				in.setCell(st, o, fmt.Sprint(dataIdx), &SliceV{Obj: dataObj, Lo: constInt(0, 64, true), Len: dataObj.Len, Elem: dataT.Underlying().(*types.Slice).Elem()})
			}})
			if s.Failed != "" {
				fails = append(fails, fmt.Sprintf("tag %#x: %s", tag, s.Failed))
				break
			}
			d := body("desc.data")
			own := sp.tag == tag || sp.tag == -1
			var msg string
			switch {
			case sp.tag == -2:
				ret, _ := s.RetN(0).(*BV)
				if k, ok := int64(-1), false; ret != nil {
					k, ok = ret.ConstInt()
					if !ok || k != int64(tag) {
						msg = "returns " + showVal(s.RetN(0))
					}
				}
			case own && sp.expect == nil: // Dolby Vision codec string
				msg = checkDolbyCodec(s, d)
			case own:
				want, strKey := sp.expect(d, s)
				if want == nil {
					ov, ok := s.RetN(0).(*OpaqueV)
					if !ok || ov.Why != strKey {
						msg = fmt.Sprintf("returns %s, expected %s", showVal(s.RetN(0)), strKey)
					}
				} else {
					ret, _ := s.RetN(0).(*BV)
					if ok, dd := matchBits(ret, want.(*BV).Bits); !ok {
						msg = dd
					}
				}
			default:
				want := sp.neutral()
				if !sameVal(s.RetN(0), want) {
					msg = fmt.Sprintf("returns %s for a descriptor of another tag, neutral value is %s", showVal(s.RetN(0)), showVal(want))
				}
			}
			if msg != "" {
				fails = append(fails, fmt.Sprintf("tag %#x: %s", tag, msg))
			}
			if w := s.WrittenCells(); len(w) > 0 {
				fails = append(fails, fmt.Sprintf("tag %#x: writes %v", tag, w))
			}
		}
		sort.Strings(fails)
		detail := ""
		if len(fails) > 0 {
			detail = fmt.Sprintf("%d of 256 tags fail; first: %s", len(fails), fails[0])
		}
		c.check("C20.decoder", sp.anchor, "all 256 tags x symbolic 16-byte body: "+sp.what+" for its own tag, neutral value otherwise, read-only", len(fails) == 0, detail)
	}
	c.floorCheck("C20.decoder anchors analysed", nd, 13)
}

// checkDolbyCodec inspects the fmt.Sprintf call of DecodeDolbyVisionCodec.
func checkDolbyCodec(s *Summary, d []*BV) string {
	ov, ok := s.RetN(0).(*OpaqueV)
	if !ok {
		return "returns " + showVal(s.RetN(0)) + " instead of a formatted string"
	}
	_ = ov
	var call *Event
	for i := range s.Events {
		if s.Events[i].Kind == "call" && s.Events[i].Note == "fmt.Sprintf" {
			call = &s.Events[i]
		}
	}
	if call == nil || len(call.Args) != 2 {
		return "no fmt.Sprintf call found"
	}
	f, ok := call.Args[0].(*StrV)
	if !ok || f.Const == nil || *f.Const != "%s.%02d.%02d" {
		return "format is " + showVal(call.Args[0])
	}
	va, ok := call.Args[1].(*StructV)
	if !ok || len(va.Fields) != 3 {
		return "unexpected Sprintf operands " + showVal(call.Args[1])
	}
	unwrap := func(v Val) Val {
		if iv, ok := v.(*IfaceV); ok {
			return iv.V
		}
		return v
	}
	if sv, ok := unwrap(va.Fields[0]).(*StrV); !ok || sv.Const == nil || *sv.Const != "dvhe" {
		return "codec prefix is " + showVal(va.Fields[0])
	}
	// n = d2‖d3 ; profile = n[15:9] = d2[7:1]; level = n[7:3] = d3[7:3]
	prof, _ := unwrap(va.Fields[1]).(*BV)
	if ok, dd := matchBits(prof, d[2].Bits[1:8]); !ok {
		return "profile: " + dd
	}
	lvl, _ := unwrap(va.Fields[2]).(*BV)
	if ok, dd := matchBits(lvl, d[3].Bits[3:8]); !ok {
		return "level: " + dd
	}
	return ""
}

var _ = ssa.Value(nil)
