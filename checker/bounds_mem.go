package main

// Load / pure-call value numbering for the bounds engine: two loads of the
// same address expression (or two calls of the same write-free function with
// the same arguments) denote the same value when no instruction that may
// write memory can execute between them.

import (
	"go/types"
	"strings"

	"golang.org/x/tools/go/ssa"
)

// writeFree reports whether fn (transitively) writes no memory other than
// objects it allocates itself.
func (B *Bounds) writeFree(fn *ssa.Function) bool {
	if v, ok := B.wfMemo[fn]; ok {
		return v
	}
	B.wfMemo[fn] = true // optimistic for recursion
	res := B.writeFree1(fn)
	B.wfMemo[fn] = res
	return res
}

func localRoot(v ssa.Value) bool { return localRootSeen(v, map[ssa.Value]bool{}) }

// localRootSeen: v addresses (or is a slice over) memory allocated in this
// function: an alloc, a make, append of a local slice, or a phi of such.
func localRootSeen(v ssa.Value, seen map[ssa.Value]bool) bool {
	for i := 0; i < 24; i++ {
		if seen[v] {
			return true // a cycle through phis adds nothing new
		}
		switch x := v.(type) {
		case *ssa.Alloc, *ssa.MakeSlice:
			return true
		case *ssa.MakeInterface:
			v = x.X
		case *ssa.Call:
			// constructors returning fresh objects
			switch calleeName(x) {
			case "bytes.NewBuffer", "bytes.NewReader":
				return true
			}
			if b, ok := x.Call.Value.(*ssa.Builtin); ok && b.Name() == "append" {
				// the result is either the first operand's array or a fresh one
				seen[v] = true
				v = x.Call.Args[0]
				continue
			}
			return false
		case *ssa.Phi:
			seen[v] = true
			for _, e := range x.Edges {
				if c, ok := e.(*ssa.Const); ok && c.Value == nil {
					continue // nil slice
				}
				if !localRootSeen(e, seen) {
					return false
				}
			}
			return true
		case *ssa.IndexAddr:
			v = x.X
		case *ssa.FieldAddr:
			v = x.X
		case *ssa.Slice:
			v = x.X
		case *ssa.ChangeType:
			v = x.X
		case *ssa.Convert:
			v = x.X
		default:
			return false
		}
	}
	return false
}

func (B *Bounds) writeFree1(fn *ssa.Function) bool {
	if e, ok := stdEffects[fn.String()]; ok {
		return e == effNone
	}
	if fn.Blocks == nil {
		name := fn.String()
		if e, ok := stdEffects[name]; ok && e == effNone {
			return true
		}
		return false
	}
	pk := fn.Pkg
	if pk == nil && fn.Parent() != nil {
		pk = fn.Parent().Pkg
	}
	if pk == nil || !strings.HasPrefix(pk.Pkg.Path(), modPath) {
		if e, ok := stdEffects[fn.String()]; ok && e == effNone {
			return true
		}
		// byte-order readers
		if strings.HasPrefix(fn.String(), "(encoding/binary.bigEndian).Uint") || strings.HasPrefix(fn.String(), "(encoding/binary.littleEndian).Uint") {
			return true
		}
		return false
	}
	for _, b := range fn.Blocks {
		for _, ins := range b.Instrs {
			if !B.insWriteFree(ins) {
				return false
			}
		}
	}
	return true
}

// insWriteFree: the instruction cannot write memory visible outside fresh
// local objects.
func (B *Bounds) insWriteFree(ins ssa.Instruction) bool {
	switch x := ins.(type) {
	case *ssa.Store:
		return localRoot(x.Addr)
	case *ssa.MapUpdate:
		_, isLocal := x.Map.(*ssa.MakeMap)
		return isLocal
	case *ssa.Go, *ssa.Defer, *ssa.Send:
		return false
	case ssa.CallInstruction:
		cc := x.Common()
		if bi, ok := cc.Value.(*ssa.Builtin); ok {
			switch bi.Name() {
			case "copy":
				return localRoot(cc.Args[0])
			case "append":
				return true // writes beyond len of its first operand only; treated as a fresh value
			case "delete":
				return false
			}
			return true
		}
		if cc.IsInvoke() {
			return B.methodWriteFree(cc.Method)
		}
		if callee := cc.StaticCallee(); callee != nil {
			if e, ok := stdEffects[callee.String()]; ok && e == effRecvOnly && len(cc.Args) > 0 && localRoot(cc.Args[0]) {
				return true // writes only a fresh local object
			}
			if e, ok := stdEffects[callee.String()]; ok && e == effNone {
				return true // standard-library function that writes nothing visible to the caller
			}
			// byte-order writers fill the slice they are given and nothing else
			if n := callee.String(); (strings.HasPrefix(n, "(encoding/binary.bigEndian).PutUint") || strings.HasPrefix(n, "(encoding/binary.littleEndian).PutUint")) && len(cc.Args) == 3 {
				return localRoot(cc.Args[1])
			}
			return B.writeFree(callee)
		}
		return false
	}
	return true
}

// methodWriteFree: every library implementation of the interface method is
// write free (class-hierarchy approximation by method name and arity).
func (B *Bounds) methodWriteFree(m *types.Func) bool {
	if m.Pkg() == nil || !strings.HasPrefix(m.Pkg().Path(), modPath) {
		return false
	}
	key := m.FullName()
	if v, ok := B.mwMemo[key]; ok {
		return v
	}
	B.mwMemo[key] = true
	res := true
	n := 0
	var iface *types.Interface
	if sig, ok := m.Type().(*types.Signature); ok && sig.Recv() != nil {
		iface, _ = sig.Recv().Type().Underlying().(*types.Interface)
	}
	for _, fn := range B.P.LibFuncs(false) {
		if fn.Signature.Recv() == nil || fn.Name() != m.Name() {
			continue
		}
		if iface != nil && !types.Implements(fn.Signature.Recv().Type(), iface) {
			continue // a method of the same name on a type that cannot be behind this interface
		}
		n++
		if !B.writeFree(fn) {
			res = false
			break
		}
	}
	if n == 0 {
		res = false
	}
	B.mwMemo[key] = res
	return res
}

// canon returns the representative of a load or pure call: an earlier
// instruction in the same function computing the same expression with no
// possible write in between; v itself otherwise.
func (bf *boundsFn) canon(v ssa.Value) ssa.Value {
	if r, ok := bf.canonMemo[v]; ok {
		return r
	}
	bf.canonMemo[v] = v
	ins, ok := v.(ssa.Instruction)
	if !ok {
		return v
	}
	var key string
	switch x := v.(type) {
	case *ssa.UnOp:
		if x.Op.String() != "*" {
			return v
		}
		key = "load:" + sx(x.X)
	case *ssa.Call:
		callee := x.Call.StaticCallee()
		if callee == nil || !bf.B.writeFree(callee) {
			if !(x.Call.IsInvoke() && bf.B.methodWriteFree(x.Call.Method)) {
				return v
			}
		}
		key = "call:" + sx(x)
	default:
		return v
	}
	if strings.Contains(key, "phi[") || strings.Contains(key, "…") {
		// expressions over loop-carried values are not stable names
		if _, isLoad := v.(*ssa.UnOp); !isLoad {
			return v
		}
	}
	// store-to-load forwarding for addresses of local objects
	if ld, ok := v.(*ssa.UnOp); ok && localRoot(ld.X) {
		ak := sx(ld.X)
		var best *ssa.Store
		for _, st := range bf.stores[ak] {
			if instrDominates(st, ins) && bf.noWriteBetweenLocal(st, ins, ak) {
				if best == nil || instrDominates(best, st) {
					best = st
				}
			}
		}
		if best != nil {
			bf.canonMemo[v] = best.Val
			return best.Val
		}
	}
	for _, cand := range bf.byKey[key] {
		ci := cand.(ssa.Instruction)
		if ci == ins {
			continue
		}
		if !instrDominates(ci, ins) {
			continue
		}
		if bf.noWriteBetween(ci, ins) {
			r := bf.canon(cand)
			bf.canonMemo[v] = r
			return r
		}
	}
	return v
}

func (bf *boundsFn) indexKeys() {
	bf.byKey = map[string][]ssa.Value{}
	bf.stores = map[string][]*ssa.Store{}
	for _, b := range bf.fn.Blocks {
		for _, ins := range b.Instrs {
			switch x := ins.(type) {
			case *ssa.Store:
				if localRoot(x.Addr) {
					k := sx(x.Addr)
					bf.stores[k] = append(bf.stores[k], x)
				}
			case *ssa.UnOp:
				if x.Op.String() == "*" {
					k := "load:" + sx(x.X)
					bf.byKey[k] = append(bf.byKey[k], x)
				}
			case *ssa.Call:
				k := "call:" + sx(x)
				bf.byKey[k] = append(bf.byKey[k], x)
			}
		}
	}
}

// noWriteBetween: no instruction that may write memory lies on a path from a
// to b (a dominates b) that does not re-execute a.
func (bf *boundsFn) noWriteBetween(a, b ssa.Instruction) bool {
	ba, bb := a.Block(), b.Block()
	// the type whose value must stay unchanged (for loads); nil = any memory
	var loaded types.Type
	if u, ok := a.(*ssa.UnOp); ok {
		loaded = u.Type()
	}
	if st, ok := a.(*ssa.Store); ok {
		loaded = st.Val.Type()
	}
	elemReader := false
	if c, ok := a.(*ssa.Call); ok {
		if callee := c.Call.StaticCallee(); callee != nil {
			elemReader = bf.B.readsOnlyElements(callee)
		}
	}
	harmless := func(ins ssa.Instruction) bool {
		if bf.B.insWriteFree(ins) {
			return true
		}
		// a store to a scalar struct field cannot change an element of a
		// slice's backing array (no unsafe in gots)
		if st, ok := ins.(*ssa.Store); ok && elemReader {
			if _, isField := st.Addr.(*ssa.FieldAddr); isField {
				if _, isArr := st.Val.Type().Underlying().(*types.Array); !isArr {
					return true
				}
			}
		}
		// a call that writes only scalar struct fields, fresh memory and
		// reader state cannot change an element either
		if ci, ok := ins.(ssa.CallInstruction); ok && elemReader && bf.B.callNoElemWrites(ci) {
			return true
		}
		// a store of a value whose type cannot be (part of) the loaded
		// value's type leaves it unchanged (no unsafe in gots)
		if st, ok := ins.(*ssa.Store); ok && loaded != nil {
			return !typesOverlap(st.Val.Type(), loaded)
		}
		// copy(dst, src) stores elements of dst's element type
		if ci, ok := ins.(ssa.CallInstruction); ok && loaded != nil {
			if bi, ok := ci.Common().Value.(*ssa.Builtin); ok && bi.Name() == "copy" {
				if sl, ok := ci.Common().Args[0].Type().Underlying().(*types.Slice); ok {
					return !typesOverlap(sl.Elem(), loaded)
				}
			}
		}
		return false
	}
	segment := func(blk *ssa.BasicBlock, from, to ssa.Instruction) bool {
		on := from == nil
		for _, ins := range blk.Instrs {
			if ins == to {
				return true
			}
			if on && !harmless(ins) {
				return false
			}
			if ins == from {
				on = true
			}
		}
		return true
	}
	if ba == bb {
		return segment(ba, a, b)
	}
	// forward from ba's successors avoiding ba; backward from bb avoiding ba
	fwd := map[int]bool{}
	var stack []*ssa.BasicBlock
	for _, s := range ba.Succs {
		if s != ba && !fwd[s.Index] {
			fwd[s.Index] = true
			stack = append(stack, s)
		}
	}
	for len(stack) > 0 {
		x := stack[len(stack)-1]
		stack = stack[:len(stack)-1]
		for _, s := range x.Succs {
			if s != ba && !fwd[s.Index] {
				fwd[s.Index] = true
				stack = append(stack, s)
			}
		}
	}
	bwd := map[int]bool{bb.Index: true}
	stack = []*ssa.BasicBlock{bb}
	for len(stack) > 0 {
		x := stack[len(stack)-1]
		stack = stack[:len(stack)-1]
		for _, p := range x.Preds {
			if p != ba && !bwd[p.Index] {
				bwd[p.Index] = true
				stack = append(stack, p)
			}
		}
	}
	// tail of ba after a
	if !segment(ba, a, nil) {
		return false
	}
	bbInCycle := false
	for _, p := range bb.Preds {
		if fwd[p.Index] && bwd[p.Index] && p != ba {
			// bb reachable again from itself? only if bb is in fwd of its own succs
		}
	}
	for _, s := range bb.Succs {
		if s != ba && bwd[s.Index] && fwd[s.Index] {
			bbInCycle = true
		}
	}
	for _, blk := range bf.fn.Blocks {
		if blk == ba || !fwd[blk.Index] || !bwd[blk.Index] {
			continue
		}
		if blk == bb && !bbInCycle {
			if !segment(bb, nil, b) {
				return false
			}
			continue
		}
		for _, ins := range blk.Instrs {
			if !harmless(ins) {
				return false
			}
		}
	}
	return true
}

// typesOverlap: a stored value of type s can change (part of) a value of type l.
func typesOverlap(s, l types.Type) bool {
	if types.Identical(s, l) {
		return true
	}
	var contains func(outer, inner types.Type, d int) bool
	contains = func(outer, inner types.Type, d int) bool {
		if d > 4 {
			return true
		}
		if types.Identical(outer, inner) {
			return true
		}
		switch u := outer.Underlying().(type) {
		case *types.Struct:
			for i := 0; i < u.NumFields(); i++ {
				if contains(u.Field(i).Type(), inner, d+1) {
					return true
				}
			}
		case *types.Array:
			return contains(u.Elem(), inner, d+1)
		}
		return false
	}
	return contains(l, s, 0) || contains(s, l, 0)
}

// noWriteBetweenLocal: between store st (to the local address key ak) and the
// load, no other store to the same address and no call that receives the
// local object's address.
func (bf *boundsFn) noWriteBetweenLocal(st *ssa.Store, ld ssa.Instruction, ak string) bool {
	root := ak
	if i := strings.Index(root, "alloc["); i >= 0 {
		if j := strings.Index(root[i:], "]"); j > 0 {
			root = root[i : i+j+1]
		}
	} else if i := strings.Index(root, "make["); i >= 0 {
		if j := strings.Index(root[i:], "]"); j > 0 {
			root = root[i : i+j+1]
		}
	}
	for _, other := range bf.stores[ak] {
		if other == st {
			continue
		}
		// another store to the same address that may execute after st and before ld
		if !instrDominates(other, st) || other.Block() == st.Block() {
			if other.Block() == st.Block() && instrBefore(other, st) {
				continue
			}
			if bf.mayReach(other, ld) && bf.mayReach(st, other) {
				return false
			}
		}
	}
	// the object's address escaping into a call between them
	for _, b := range bf.fn.Blocks {
		for _, ins := range b.Instrs {
			ci, ok := ins.(ssa.CallInstruction)
			if !ok {
				continue
			}
			esc := false
			for _, a := range ci.Common().Args {
				if strings.Contains(sx(a), root) {
					if _, isPtr := a.Type().Underlying().(*types.Pointer); isPtr {
						esc = true
					}
				}
			}
			if esc && bf.mayReach(st, ins) && bf.mayReach(ins, ld) {
				return false
			}
		}
	}
	return true
}

// mayReach: instruction b can execute after instruction a.
func (bf *boundsFn) mayReach(a, b ssa.Instruction) bool {
	if a.Block() == b.Block() && instrBefore(a, b) {
		return true
	}
	seen := map[int]bool{}
	stack := append([]*ssa.BasicBlock(nil), a.Block().Succs...)
	for len(stack) > 0 {
		x := stack[len(stack)-1]
		stack = stack[:len(stack)-1]
		if seen[x.Index] {
			continue
		}
		seen[x.Index] = true
		if x == b.Block() {
			return true
		}
		stack = append(stack, x.Succs...)
	}
	return false
}

// readsOnlyElements: the write-free function reads memory only through
// element accesses of its slice/array parameters (and calls such functions).
func (B *Bounds) readsOnlyElements(fn *ssa.Function) bool {
	if v, ok := B.roMemo[fn]; ok {
		return v
	}
	B.roMemo[fn] = true
	res := fn.Blocks != nil && B.writeFree(fn)
	if res {
	outer:
		for _, b := range fn.Blocks {
			for _, ins := range b.Instrs {
				switch x := ins.(type) {
				case *ssa.UnOp:
					if x.Op.String() == "*" {
						if _, ok := x.X.(*ssa.IndexAddr); !ok {
							res = false
							break outer
						}
					}
				case ssa.CallInstruction:
					if _, isB := x.Common().Value.(*ssa.Builtin); isB {
						continue
					}
					callee := x.Common().StaticCallee()
					if callee == nil || !B.readsOnlyElements(callee) {
						res = false
						break outer
					}
				}
			}
		}
	}
	B.roMemo[fn] = res
	return res
}

// bufReadMethods: bytes.Buffer methods that never store into the buffer's
// byte array (they move the read cursor only).
var bufReadMethods = map[string]bool{
	"(*bytes.Buffer).Next": true, "(*bytes.Buffer).ReadByte": true, "(*bytes.Buffer).UnreadByte": true,
	"(*bytes.Buffer).Len": true, "(*bytes.Buffer).Bytes": true, "(*bytes.Buffer).Reset": true,
}

// callNoElemWrites: the call cannot store into an element of any slice or
// array that existed before it.
func (B *Bounds) callNoElemWrites(ci ssa.CallInstruction) bool {
	cc := ci.Common()
	if _, isB := cc.Value.(*ssa.Builtin); isB {
		return B.insWriteFree(ci)
	}
	if cc.IsInvoke() {
		m := cc.Method
		if m.Pkg() == nil || !strings.HasPrefix(m.Pkg().Path(), modPath) {
			return false
		}
		var iface *types.Interface
		if sig, ok := m.Type().(*types.Signature); ok && sig.Recv() != nil {
			iface, _ = sig.Recv().Type().Underlying().(*types.Interface)
		}
		n := 0
		for _, fn := range B.P.LibFuncs(false) {
			if fn.Signature.Recv() == nil || fn.Name() != m.Name() {
				continue
			}
			if iface != nil && !types.Implements(fn.Signature.Recv().Type(), iface) {
				continue
			}
			n++
			if !B.noElemWrites(fn) {
				return false
			}
		}
		return n > 0
	}
	callee := cc.StaticCallee()
	if callee == nil {
		// a closure created in this function: its body is a known function
		if mc, ok := cc.Value.(*ssa.MakeClosure); ok {
			if fn, ok := mc.Fn.(*ssa.Function); ok {
				return B.noElemWrites(fn)
			}
		}
		return false
	}
	return B.noElemWrites(callee)
}

// noElemWrites: every store of fn (transitively) goes to a scalar struct
// field, to memory allocated by fn, or to the cursor of a bytes.Buffer; no
// store can hit an element of a slice or array the caller already had.
func (B *Bounds) noElemWrites(fn *ssa.Function) bool {
	if v, ok := B.neMemo[fn]; ok {
		return v
	}
	if bufReadMethods[fn.String()] {
		return true
	}
	if e, ok := stdEffects[fn.String()]; ok {
		return e == effNone
	}
	if fn.Blocks == nil || fn.Pkg == nil || !strings.HasPrefix(fn.Pkg.Pkg.Path(), modPath) {
		return B.writeFree(fn)
	}
	B.neMemo[fn] = true // optimistic for recursion
	res := true
outer:
	for _, b := range fn.Blocks {
		for _, ins := range b.Instrs {
			if B.insWriteFree(ins) {
				continue
			}
			switch x := ins.(type) {
			case *ssa.Store:
				if _, isField := x.Addr.(*ssa.FieldAddr); isField {
					if _, isArr := x.Val.Type().Underlying().(*types.Array); !isArr {
						continue
					}
				}
				// a captured variable of a closure holds a scalar or a header, not elements
				if _, isFree := x.Addr.(*ssa.FreeVar); isFree {
					continue
				}
			case *ssa.MapUpdate:
				continue
			case ssa.CallInstruction:
				if B.callNoElemWrites(x) {
					continue
				}
			}
			res = false
			break outer
		}
	}
	B.neMemo[fn] = res
	return res
}
