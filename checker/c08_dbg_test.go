package main

import (
	"os"
	"strings"
	"testing"
)

func TestC08Dbg(t *testing.T) {
	U = newUniverse()
	P, err := loadProgram("/repo")
	if err != nil {
		t.Fatal(err)
	}
	c := newChecker(P, "C08", "quick", "/verif")
	for _, sh := range s35Shapes(true) {
		if !strings.Contains(sh.name, os.Getenv("C08SHAPE")) {
			continue
		}
		d, sum, _ := c.decodeShape(sh)
		t.Logf("%s: %q", sh.name, d)
		n := &nav{sum.in, sum.Out}
		ds, _ := n.elems(n.field(sum.RetN(0), "descriptors"))
		for _, dd := range ds {
			cv := n.field(dd, "components")
			t.Logf("components = %s", showVal(cv))
			if sv, ok := cv.(*SliceV); ok {
				t.Logf("obj %s cells: %v", sv.Obj.Name, sum.Out.cells[sv.Obj])
			}
			t.Logf("mid = %s", showVal(n.field(dd, "mid")))
			if sv, ok := n.field(dd, "mid").(*SliceV); ok {
				t.Logf("obj %s cells: %v", sv.Obj.Name, sum.Out.cells[sv.Obj])
			}
		}
		break
	}
}
