package main

import (
	"fmt"
	"go/types"
	"sort"
	"strings"

	"golang.org/x/tools/go/ssa"
)

// PAT section layout (ISO/IEC 13818-1 Table 2-30), for a payload with
// pointer_field p0 = 0: p1 table_id, p2[1:0]‖p3 section_length (the code's
// 10-bit mask), p4‖p5 transport_stream_id, p6 version, p7 section_number, p8
// last_section_number, then N entries of 4 bytes at 9+4i:
// program_number(16), reserved(3) PID(13), then CRC_32. section_length counts
// from p4: 5 + 4N + 4.

// patSeed fixes pointer_field = 0 and section_length = sl in a PAT payload.
func patSeed(sl int) func(in *Interp, st *State, ps []Val) {
	return func(in *Interp, st *State, ps []Val) {
		o := ps[0].(*SliceV).Obj
		in.setCell(st, o, "0", constInt(0, 8, false))
		b2 := &BV{W: 8, Bits: append([]Bit(nil), cellBV(o.Name, 2).Bits...)}
		b2.Bits[0], b2.Bits[1] = bconst(sl&0x100 != 0), bconst(sl&0x200 != 0)
		in.setCell(st, o, "2", b2)
		in.setCell(st, o, "3", constInt(int64(sl&0xff), 8, false))
	}
}

func runC07(c *Checker) {
	c.Level = "other"
	c.explain = "The PAT accessors are interpreted on a symbolic payload with pointer_field 0 and each section_length 9+4N (+0..3) for N = 0..6 and 62, 64, 253 (section_length above 255, up to the 1021 maximum): NumPrograms must be the constant N; ProgramMap must perform exactly N map updates whose key is p[9+4i]‖p[10+4i], whose value is p[11+4i][4:0]‖p[12+4i], each guarded by program_number > 0 only; SPTSpmtPID must fail for N > 1, return the single stored PID for N = 1 with a program entry and fail otherwise. NewPAT is interpreted for lengths around its thresholds, IsPMT for maps of 0..3 entries, ReadPAT by one abstract iteration of its loop (read replaced by a model with seeded PID bits: all zero, or bit k one for each k) with a case analysis on the read result. Decides: count formula, entry layout, guard, carriers' plumbing. Does not decide: the map contents for concrete tables, PATs with pointer_field ≠ 0."
	c.trust("go/ssa + go/types (x/tools v0.29.0)", "E1 transfer functions incl. map-update logging", "layout transcribed from ISO/IEC 13818-1 Table 2-30")
	// entry counts: the small tables, and tables whose section_length needs
	// the high length bits (62 entries: 257; 253 entries: 1021, the maximum)
	patNs := []int{0, 1, 2, 3, 4, 5, 6, 62, 64, 253}
	// ---- NumPrograms
	{
		var bad []string
		n := 0
		for _, N := range patNs {
			for extra := 0; extra < 4; extra++ {
				sl := 9 + 4*N + extra
				if sl > 1021 {
					continue // above the largest section_length of ISO 13818-1
				}
				s, _ := c.summary("C07.count", "psi:(pat).NumPrograms", &AnalyzeOpts{SliceLen: map[string]int{"pat": 4 + sl + 8}, Pre: patSeed(sl)})
				if s == nil {
					return
				}
				n++
				ret, _ := s.RetN(0).(*BV)
				k, ok := int64(-1), false
				if ret != nil {
					k, ok = ret.ConstInt()
				}
				if !ok || int(k) != N {
					bad = append(bad, fmt.Sprintf("section_length=%d: NumPrograms is %s, expected %d", sl, showVal(s.RetN(0)), N))
				}
			}
		}
		c.check("C07.count", "psi:(pat).NumPrograms", "section_length 9+4N(+0..3), N=0..6, 62, 64, 253: returns N = (section_length − 5 header bytes − 4 CRC bytes) / 4", len(bad) == 0, strings.Join(bad, "; "))
		c.floorCheck("C07.count analyses", n, 4*len(patNs)-3)
	}
	// ---- ProgramMap
	{
		var bad []string
		for _, N := range patNs {
			sl := 9 + 4*N
			s, _ := c.summary("C07.entries", "psi:(pat).ProgramMap", &AnalyzeOpts{SliceLen: map[string]int{"pat": 4 + sl}, Pre: patSeed(sl)})
			if s == nil {
				return
			}
			mv, ok := s.RetN(0).(*MapV)
			if !ok {
				bad = append(bad, fmt.Sprintf("N=%d: result is %s", N, showVal(s.RetN(0))))
				continue
			}
			ents := s.Out.ment[mv.Obj]
			if len(ents) != N || len(s.Out.cells[mv.Obj]) != 0 {
				bad = append(bad, fmt.Sprintf("N=%d: %d map updates", N, len(ents)))
				continue
			}
			name := paramName(s, 0)
			for i, e := range ents {
				c0 := 9 + 4*i
				pn := bitsBV(catBytes(cellBV(name, c0), cellBV(name, c0+1)), 64)
				pn.Signed = true
				pid := bitsBV(append(append([]Bit(nil), cellBV(name, c0+3).Bits...), cellBV(name, c0+2).Bits[0:5]...), 64)
				k, _ := e.K.(*BV)
				v, _ := e.V.(*BV)
				if ok, d := matchBits(k, pn.Bits); !ok {
					bad = append(bad, fmt.Sprintf("N=%d entry %d key (program_number): %s", N, i, d))
				}
				if ok, d := matchBits(v, pid.Bits); !ok {
					bad = append(bad, fmt.Sprintf("N=%d entry %d value (PID): %s", N, i, d))
				}
				wantCond := bvLt(constInt(0, 64, true), pn)
				if e.Cond != wantCond {
					if eq, dec, _ := equivBits(e.Cond, wantCond, 18); !(eq && dec) {
						bad = append(bad, fmt.Sprintf("N=%d entry %d stored under %s, expected program_number > 0", N, i, e.Cond))
					}
				}
			}
			if w := s.WrittenCells(); len(w) > 0 {
				bad = append(bad, fmt.Sprintf("N=%d: writes %v", N, w))
			}
		}
		sort.Strings(bad)
		d := ""
		if len(bad) > 0 {
			d = fmt.Sprintf("%d mismatches; first: %s", len(bad), bad[0])
		}
		c.check("C07.entries", "psi:(pat).ProgramMap", "N=0..6, 62, 64, 253: exactly N updates, key = program_number (b[9+4i]‖b[10+4i]), value = PID (b[11+4i][4:0]‖b[12+4i]), stored iff program_number > 0", len(bad) == 0, d)
	}
	// ---- SPTSpmtPID
	{
		var bad []string
		for N := 0; N <= 3; N++ {
			sl := 9 + 4*N
			var in0 *Interp
			s, _ := c.summary("C07.spts", "psi:(pat).SPTSpmtPID", &AnalyzeOpts{SliceLen: map[string]int{"pat": 4 + sl}, Pre: patSeed(sl), Setup: func(in *Interp) { in0 = in }})
			if s == nil {
				return
			}
			errNil := in0.nilBit(s.RetN(1))
			name := paramName(s, 0)
			switch {
			case N == 1:
				pn := bitsBV(catBytes(cellBV(name, 9), cellBV(name, 10)), 64)
				pn.Signed = true
				isProg := bvLt(constInt(0, 64, true), pn)
				if eq, dec, _ := equivBits(errNil, isProg, 18); !(eq && dec) {
					bad = append(bad, fmt.Sprintf("N=1: succeeds under %s, expected program_number > 0", errNil))
				}
				pid := bitsBV(append(append([]Bit(nil), cellBV(name, 12).Bits...), cellBV(name, 11).Bits[0:5]...), 64)
				fs := newFactSet(nil)
				fs.assume(isProg)
				ret, _ := s.RetN(0).(*BV)
				if ret == nil {
					bad = append(bad, "N=1: non-integer PID")
				} else if ok, d := matchBits(fs.bv(ret), pid.Bits); !ok {
					bad = append(bad, "N=1: returned PID: "+d)
				}
			default:
				if !(isConst(errNil) && !errNil.c) {
					bad = append(bad, fmt.Sprintf("N=%d: does not fail (error nil under %s)", N, errNil))
				}
			}
		}
		c.check("C07.spts", "psi:(pat).SPTSpmtPID", "N=0..3 entries: returns the PMT PID iff exactly one entry and it is a program, an error otherwise", len(bad) == 0, strings.Join(bad, "; "))
	}
	c.checkNewPAT()
	c.checkIsPMT()
	c.checkReadPAT()
}

func (c *Checker) checkNewPAT() {
	const anchor = "psi:NewPAT"
	var bad []string
	for _, n := range []int{0, 12, 13, 64, 187, 188, 189} {
		var in0 *Interp
		s, _ := c.summary("C07.carrier", anchor, &AnalyzeOpts{SliceLen: map[string]int{"patBytes": n}, Setup: func(in *Interp) { in0 = in }})
		if s == nil {
			return
		}
		errNil := in0.nilBit(s.RetN(1))
		src := paramObj(s, 0)
		switch {
		case n < 13:
			if !(isConst(errNil) && !errNil.c) || showVal(s.RetN(1)) != "gots.ErrInvalidPATLength" {
				bad = append(bad, fmt.Sprintf("len=%d: expected the invalid-PAT-length error, got %s", n, showVal(s.RetN(1))))
			}
		case n == 188:
			// payload of a copy of the packet, at the payload offset; error iff no payload flag
			pay := fieldBits(src.Name, tsHeader["PAY"])[0]
			af := fieldBits(src.Name, tsHeader["AF"])[0]
			start := bvMux(af, bvAdd(constInt(5, 64, true), extendBV(cellBV(src.Name, 4), 64, true), false), constInt(4, 64, true))
			inRange := bnot(bvLt(constInt(188, 64, true), start))
			if eq, dec, _ := equivBits(errNil, band(pay, inRange), 14); !(eq && dec) {
				bad = append(bad, fmt.Sprintf("len=188: succeeds under %s, expected payload flag ∧ offset ≤ 188", errNil))
			}
			for _, lf := range muxLeaves(s.RetN(0)) {
				iv, ok := lf.(*IfaceV)
				if !ok {
					continue
				}
				for _, l2 := range muxLeaves(iv.V) {
					sl, ok := l2.(*SliceV)
					if !ok {
						continue
					}
					if sl.Obj == src {
						bad = append(bad, "len=188: the PAT aliases the caller's buffer instead of the packet copy")
					} else if !sameBV(sl.Lo, start) {
						bad = append(bad, fmt.Sprintf("len=188: PAT bytes start at %s, expected the payload offset %s", sl.Lo, start))
					}
				}
			}
		default:
			if !(isConst(errNil) && errNil.c) {
				bad = append(bad, fmt.Sprintf("len=%d: returns an error %s", n, showVal(s.RetN(1))))
			}
			iv, ok := s.RetN(0).(*IfaceV)
			var sl *SliceV
			if ok {
				sl, _ = iv.V.(*SliceV)
			}
			if sl == nil || sl.Obj != src || !sameBV(sl.Lo, constInt(0, 64, true)) || !sameBV(sl.Len, constInt(int64(n), 64, true)) {
				bad = append(bad, fmt.Sprintf("len=%d: PAT is %s, expected the given bytes", n, showVal(s.RetN(0))))
			}
		}
		if w := s.WrittenCells(); len(w) > 0 {
			bad = append(bad, fmt.Sprintf("len=%d: input modified %v", n, w))
		}
	}
	c.check("C07.carrier", anchor, "lengths 0,12 → invalid-length error; 13..187,189 → the bytes themselves; 188 → payload of the packet (copy) at the payload offset, error without payload flag", len(bad) == 0, strings.Join(bad, "; "))
}

func (c *Checker) checkIsPMT() {
	const anchor = "psi:IsPMT"
	var bad []string
	for n := 0; n <= 3; n++ {
		var in0 *Interp
		s, _ := c.summary("C07.ispmt", anchor, &AnalyzeOpts{Setup: func(in *Interp) { in0 = in; in.MapLen = n; in.PureInvoke = true }})
		if s == nil {
			return
		}
		pkt := paramObj(s, 0)
		patNil := in0.nilBit(s.Params[1])
		pid := bitsBV(fieldBits(pkt.Name, tsHeader["PID"]), 64)
		pid.Signed = true
		mapT := types.NewMap(types.Typ[types.Int], types.Typ[types.Int])
		mv := in0.opaqueNamed(mapT, "ProgramMap", s.Params[1]).(*OpaqueV)
		any := U.B0
		for i := 0; i < n; i++ {
			v := in0.opaqueOf(types.Typ[types.Int], fmt.Sprintf("%s.val%d", mv.Why, i)).(*BV)
			any = bor(any, bvEq(pid, v))
		}
		want := band(bnot(patNil), any)
		ret, _ := s.RetN(0).(*BV)
		if ret == nil || ret.W != 1 {
			bad = append(bad, fmt.Sprintf("%d entries: non-boolean result", n))
			continue
		}
		if eq, dec, det := equivBits(ret.Bits[0], want, 12); !(eq && dec) {
			bad = append(bad, fmt.Sprintf("%d entries: result %s, expected %s (%s)", n, ret.Bits[0], want, det))
		}
		// error iff pat == nil, and it is ErrNilPAT
		errNil := in0.nilBit(s.RetN(1))
		if eq, dec, _ := equivBits(errNil, bnot(patNil), 6); !(eq && dec) {
			bad = append(bad, fmt.Sprintf("%d entries: error is nil under %s, expected pat != nil", n, errNil))
		}
		for _, lf := range muxLeaves(s.RetN(1)) {
			if _, isNil := lf.(NilV); !isNil && showVal(lf) != "gots.ErrNilPAT" {
				bad = append(bad, fmt.Sprintf("%d entries: error %s", n, showVal(lf)))
			}
		}
		if w := s.WrittenCells(); len(w) > 0 {
			bad = append(bad, fmt.Sprintf("%d entries: writes %v", n, w))
		}
	}
	c.check("C07.ispmt", anchor, "maps of 0..3 entries: true ⇔ pat ≠ nil ∧ some map value == PID(pkt) (Table 2-2 bits); nil PAT → ErrNilPAT", len(bad) == 0, strings.Join(bad, "; "))
}

func (c *Checker) checkReadPAT() {
	const anchor = "psi:ReadPAT"
	fn, err := c.P.Func(anchor)
	if err != nil {
		c.undecided("C07.reader", anchor, "anchor", err.Error())
		return
	}
	c.analysed[fn.String()] = true
	c.checkReadPATStep(fn)
}

// checkReadPATStep: one abstract iteration of ReadPAT's loop. The read is
// replaced by a model that fills the packet with symbolic bytes whose PID
// bits are seeded: all thirteen zero (the PAT), or bit k one and the other
// twelve symbolic for k = 0..12 (together: every PID other than 0). A packet
// of another PID must be skipped whatever else it contains; a PID-0 packet or
// a failed read must leave the loop; the end of the stream gives the
// PAT-not-found error and any other read error is returned as it is.
func (c *Checker) checkReadPATStep(fn *ssa.Function) {
	const anchor = "psi:ReadPAT"
	type res struct {
		ls  *LoopStep
		err error
		rd  Val
	}
	run := func(one, afc, afl int) res {
		var r res
		setup := func(in *Interp) {
			in.Intrinsic = func(f *ssa.Function, args []Val, st *State) (Val, bool) {
				if f.String() != "io.ReadFull" || len(args) != 2 {
					return nil, false
				}
				buf, ok := args[1].(*SliceV)
				if !ok {
					in.fail("read model: buffer is %s", showVal(args[1]))
					return nil, true
				}
				lo, _ := buf.Lo.ConstInt()
				n, _ := buf.Len.ConstInt()
				for i := int64(0); i < n; i++ {
					b := &BV{W: 8, Bits: append([]Bit(nil), cellBV("rd", int(i)).Bits...)}
					for k := 0; k < 13; k++ {
						// PID bit k: byte 2 bit k (k < 8), byte 1 bit k-8
						at, bit := int64(2), k
						if k >= 8 {
							at, bit = 1, k-8
						}
						if at != i {
							continue
						}
						switch {
						case one < 0:
							b.Bits[bit] = U.B0
						case k == one:
							b.Bits[bit] = U.B1
						}
					}
					if i == 3 && afc >= 0 {
						b.Bits[5], b.Bits[4] = bconst(afc&2 != 0), bconst(afc&1 != 0)
					}
					if i == 4 && afl >= 0 {
						b = constInt(int64(afl), 8, false)
					}
					if n != 188 {
						in.fail("read model: the buffer handed to io.ReadFull has %d bytes, not a whole packet", n)
					}
					in.setCell(st, buf.Obj, joinPath(buf.Prefix, int(lo+i)), b)
				}
				v := in.opaque(f.Signature.Results(), "io.ReadFull")
				in.event(Event{Kind: "call", Note: "io.ReadFull", Val: v})
				r.rd = v
				return v, true
			}
		}
		r.ls, r.err = AnalyzeLoop(c.P, fn, &AnalyzeOpts{Setup: setup})
		return r
	}
	skipBad, first := 0, ""
	for k := 0; k < 13; k++ {
		r := run(k, -1, -1)
		tup, _ := r.rd.(*StructV)
		if r.err != nil || tup == nil || len(tup.Fields) != 2 {
			c.undecided("C07.readstep", anchor, "loop step", fmt.Sprintf("PID bit %d set: %v", k, r.err))
			return
		}
		in := r.ls.Sum.in
		fs := newFactSet(nil)
		fs.assume(in.nilBit(tup.Fields[1]))
		if cont := fs.bit(r.ls.Cond); !isConst(cont) || !cont.c {
			skipBad++
			if first == "" {
				first = fmt.Sprintf("PID bit %d set: the loop goes on only under %s", k, cont)
			}
		}
	}
	c.check("C07.readstep", anchor, "a packet read completely whose PID is not 0 is skipped whatever else it contains (13 one-bit classes = every PID but 0)", skipBad == 0, first)
	r := run(-1, -1, -1)
	tup, _ := r.rd.(*StructV)
	if r.err != nil || tup == nil || len(tup.Fields) != 2 {
		c.undecided("C07.readstep", anchor, "loop step", fmt.Sprintf("PID 0: %v", r.err))
		return
	}
	in := r.ls.Sum.in
	er := tup.Fields[1]
	erNil := in.nilBit(er)
	erEOF := in.eqBit(er, SymConst{Name: "io.EOF"})
	erUEOF := in.eqBit(er, SymConst{Name: "io.ErrUnexpectedEOF"})
	retErr := r.ls.Sum.RetN(1)
	for _, cs := range []struct {
		name  string
		facts []Bit
		want  func(v Val) bool
		what  string
	}{
		{"the stream ends on a packet boundary", []Bit{bnot(erNil), erEOF, bnot(erUEOF)}, func(v Val) bool { return showVal(v) == "gots.ErrPATNotFound" }, "the PAT-not-found error"},
		{"the stream ends inside a packet", []Bit{bnot(erNil), bnot(erEOF), erUEOF}, func(v Val) bool { return showVal(v) == "gots.ErrPATNotFound" }, "the PAT-not-found error"},
	} {
		fs := newFactSet(nil)
		for _, f := range cs.facts {
			fs.assume(f)
		}
		cont := fs.bit(r.ls.Cond)
		got := fs.val(retErr)
		c.check("C07.readstep", anchor, cs.name+": the search stops with "+cs.what, isConst(cont) && !cont.c && cs.want(got), fmt.Sprintf("continues under %s; result error %s", cont, showVal(got)))
	}
	// the table handed back is a private copy of exactly the packet's payload
	for _, cs := range []struct {
		name          string
		afc, afl, off int
	}{
		{"payload only", 1, -1, 4},
		{"adaptation field of 7 bytes, then payload", 3, 7, 12},
	} {
		r := run(-1, cs.afc, cs.afl)
		tup, _ := r.rd.(*StructV)
		if r.err != nil || tup == nil {
			c.undecided("C07.readstep", anchor, "PAT packet, "+cs.name, fmt.Sprint(r.err))
			continue
		}
		in := r.ls.Sum.in
		fs := newFactSet(nil)
		fs.assume(in.nilBit(tup.Fields[1]))
		d := ""
		if cont := fs.bit(r.ls.Cond); !isConst(cont) || cont.c {
			d = "the search goes on under " + cont.String()
		} else if e := fs.bit(in.nilBit(r.ls.Sum.RetN(1))); !isConst(e) || !e.c {
			d = "an error may be returned: nil under " + e.String()
		}
		var sl *SliceV
		if iv, ok := fs.val(r.ls.Sum.RetN(0)).(*IfaceV); ok {
			sl, _ = iv.V.(*SliceV)
		}
		switch {
		case d != "":
		case sl == nil:
			d = "result is " + showVal(fs.val(r.ls.Sum.RetN(0)))
		case sl.Obj.Kind != "make":
			d = "the table shares storage with " + sl.Obj.Name
		default:
			lo, ok1 := sl.Lo.ConstInt()
			n, ok2 := sl.Len.ConstInt()
			if !ok1 || !ok2 || n != int64(188-cs.off) {
				d = fmt.Sprintf("table window %s, expected %d bytes", showVal(sl), 188-cs.off)
				break
			}
			for i := int64(0); i < n && d == ""; i++ {
				got, _ := fs.val(r.ls.Sum.Cell(sl.Obj, joinPath(sl.Prefix, int(lo+i)), byteT)).(*BV)
				if ok, dd := matchBits(got, cellBV("rd", cs.off+int(i)).Bits); !ok {
					d = fmt.Sprintf("table byte %d: %s", i, dd)
				}
			}
		}
		c.check("C07.readstep", anchor, "PAT packet, "+cs.name+": the search ends without error and the table returned is a fresh copy of packet bytes "+fmt.Sprint(cs.off)+"..187", d == "", d)
	}
}
