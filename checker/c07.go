package main

import (
	"fmt"
	"go/types"
	"sort"
	"strings"

	"golang.org/x/tools/go/ssa"
)

// PAT section layout (ISO/IEC 13818-1 Table 2-30), for a payload with
// pointer_field p0 = 0: p1 table_id, p2[1:0]‖p3 section_length (the code's
// 10-bit mask), p4‖p5 transport_stream_id, p6 version, p7 section_number, p8
// last_section_number, then N entries of 4 bytes at 9+4i:
// program_number(16), reserved(3) PID(13), then CRC_32. section_length counts
// from p4: 5 + 4N + 4.

// patSeed fixes pointer_field = 0 and section_length = sl in a PAT payload.
func patSeed(sl int) func(in *Interp, st *State, ps []Val) {
	return func(in *Interp, st *State, ps []Val) {
		o := ps[0].(*SliceV).Obj
		in.setCell(st, o, "0", constInt(0, 8, false))
		b2 := &BV{W: 8, Bits: append([]Bit(nil), cellBV(o.Name, 2).Bits...)}
		b2.Bits[0], b2.Bits[1] = bconst(sl&0x100 != 0), bconst(sl&0x200 != 0)
		in.setCell(st, o, "2", b2)
		in.setCell(st, o, "3", constInt(int64(sl&0xff), 8, false))
	}
}

func runC07(c *Checker) {
	c.Level = "other"
	c.explain = "The PAT accessors are interpreted on a symbolic payload with pointer_field 0 and each section_length 9+4N (+0..3) for N = 0..6: NumPrograms must be the constant N; ProgramMap must perform exactly N map updates whose key is p[9+4i]‖p[10+4i], whose value is p[11+4i][4:0]‖p[12+4i], each guarded by program_number > 0 only; SPTSpmtPID must fail for N > 1, return the single stored PID for N = 1 with a program entry and fail otherwise. NewPAT is interpreted for lengths around its thresholds, IsPMT for maps of 0..3 entries, ReadPAT by SSA path rules. Decides: count formula, entry layout, guard, carriers' plumbing. Does not decide: the map contents for concrete tables, PATs with pointer_field ≠ 0."
	c.trust("go/ssa + go/types (x/tools v0.29.0)", "E1 transfer functions incl. map-update logging", "layout transcribed from ISO/IEC 13818-1 Table 2-30")
	maxN := 6
	// ---- NumPrograms
	{
		var bad []string
		n := 0
		for N := 0; N <= maxN; N++ {
			for extra := 0; extra < 4; extra++ {
				sl := 9 + 4*N + extra
				s, _ := c.summary("C07.count", "psi:(pat).NumPrograms", &AnalyzeOpts{SliceLen: map[string]int{"pat": 4 + sl + 8}, Pre: patSeed(sl)})
				if s == nil {
					return
				}
				n++
				ret, _ := s.RetN(0).(*BV)
				k, ok := int64(-1), false
				if ret != nil {
					k, ok = ret.ConstInt()
				}
				if !ok || int(k) != N {
					bad = append(bad, fmt.Sprintf("section_length=%d: NumPrograms is %s, expected %d", sl, showVal(s.RetN(0)), N))
				}
			}
		}
		c.check("C07.count", "psi:(pat).NumPrograms", "section_length 9+4N(+0..3), N=0..6: returns N = (section_length − 5 header bytes − 4 CRC bytes) / 4", len(bad) == 0, strings.Join(bad, "; "))
		c.floorCheck("C07.count analyses", n, 28)
	}
	// ---- ProgramMap
	{
		var bad []string
		for N := 0; N <= maxN; N++ {
			sl := 9 + 4*N
			s, _ := c.summary("C07.entries", "psi:(pat).ProgramMap", &AnalyzeOpts{SliceLen: map[string]int{"pat": 4 + sl}, Pre: patSeed(sl)})
			if s == nil {
				return
			}
			mv, ok := s.RetN(0).(*MapV)
			if !ok {
				bad = append(bad, fmt.Sprintf("N=%d: result is %s", N, showVal(s.RetN(0))))
				continue
			}
			ents := s.Out.ment[mv.Obj]
			if len(ents) != N || len(s.Out.cells[mv.Obj]) != 0 {
				bad = append(bad, fmt.Sprintf("N=%d: %d map updates", N, len(ents)))
				continue
			}
			name := paramName(s, 0)
			for i, e := range ents {
				c0 := 9 + 4*i
				pn := bitsBV(catBytes(cellBV(name, c0), cellBV(name, c0+1)), 64)
				pn.Signed = true
				pid := bitsBV(append(append([]Bit(nil), cellBV(name, c0+3).Bits...), cellBV(name, c0+2).Bits[0:5]...), 64)
				k, _ := e.K.(*BV)
				v, _ := e.V.(*BV)
				if ok, d := matchBits(k, pn.Bits); !ok {
					bad = append(bad, fmt.Sprintf("N=%d entry %d key (program_number): %s", N, i, d))
				}
				if ok, d := matchBits(v, pid.Bits); !ok {
					bad = append(bad, fmt.Sprintf("N=%d entry %d value (PID): %s", N, i, d))
				}
				wantCond := bvLt(constInt(0, 64, true), pn)
				if e.Cond != wantCond {
					if eq, dec, _ := equivBits(e.Cond, wantCond, 18); !(eq && dec) {
						bad = append(bad, fmt.Sprintf("N=%d entry %d stored under %s, expected program_number > 0", N, i, e.Cond))
					}
				}
			}
			if w := s.WrittenCells(); len(w) > 0 {
				bad = append(bad, fmt.Sprintf("N=%d: writes %v", N, w))
			}
		}
		sort.Strings(bad)
		d := ""
		if len(bad) > 0 {
			d = fmt.Sprintf("%d mismatches; first: %s", len(bad), bad[0])
		}
		c.check("C07.entries", "psi:(pat).ProgramMap", "N=0..6: exactly N updates, key = program_number (b[9+4i]‖b[10+4i]), value = PID (b[11+4i][4:0]‖b[12+4i]), stored iff program_number > 0", len(bad) == 0, d)
	}
	// ---- SPTSpmtPID
	{
		var bad []string
		for N := 0; N <= 3; N++ {
			sl := 9 + 4*N
			var in0 *Interp
			s, _ := c.summary("C07.spts", "psi:(pat).SPTSpmtPID", &AnalyzeOpts{SliceLen: map[string]int{"pat": 4 + sl}, Pre: patSeed(sl), Setup: func(in *Interp) { in0 = in }})
			if s == nil {
				return
			}
			errNil := in0.nilBit(s.RetN(1))
			name := paramName(s, 0)
			switch {
			case N == 1:
				pn := bitsBV(catBytes(cellBV(name, 9), cellBV(name, 10)), 64)
				pn.Signed = true
				isProg := bvLt(constInt(0, 64, true), pn)
				if eq, dec, _ := equivBits(errNil, isProg, 18); !(eq && dec) {
					bad = append(bad, fmt.Sprintf("N=1: succeeds under %s, expected program_number > 0", errNil))
				}
				pid := bitsBV(append(append([]Bit(nil), cellBV(name, 12).Bits...), cellBV(name, 11).Bits[0:5]...), 64)
				fs := newFactSet(nil)
				fs.assume(isProg)
				ret, _ := s.RetN(0).(*BV)
				if ret == nil {
					bad = append(bad, "N=1: non-integer PID")
				} else if ok, d := matchBits(fs.bv(ret), pid.Bits); !ok {
					bad = append(bad, "N=1: returned PID: "+d)
				}
			default:
				if !(isConst(errNil) && !errNil.c) {
					bad = append(bad, fmt.Sprintf("N=%d: does not fail (error nil under %s)", N, errNil))
				}
			}
		}
		c.check("C07.spts", "psi:(pat).SPTSpmtPID", "N=0..3 entries: returns the PMT PID iff exactly one entry and it is a program, an error otherwise", len(bad) == 0, strings.Join(bad, "; "))
	}
	c.checkNewPAT()
	c.checkIsPMT()
	c.checkReadPAT()
}

func (c *Checker) checkNewPAT() {
	const anchor = "psi:NewPAT"
	var bad []string
	for _, n := range []int{0, 12, 13, 64, 187, 188, 189} {
		var in0 *Interp
		s, _ := c.summary("C07.carrier", anchor, &AnalyzeOpts{SliceLen: map[string]int{"patBytes": n}, Setup: func(in *Interp) { in0 = in }})
		if s == nil {
			return
		}
		errNil := in0.nilBit(s.RetN(1))
		src := paramObj(s, 0)
		switch {
		case n < 13:
			if !(isConst(errNil) && !errNil.c) || showVal(s.RetN(1)) != "gots.ErrInvalidPATLength" {
				bad = append(bad, fmt.Sprintf("len=%d: expected the invalid-PAT-length error, got %s", n, showVal(s.RetN(1))))
			}
		case n == 188:
			// payload of a copy of the packet, at the payload offset; error iff no payload flag
			pay := fieldBits(src.Name, tsHeader["PAY"])[0]
			af := fieldBits(src.Name, tsHeader["AF"])[0]
			start := bvMux(af, bvAdd(constInt(5, 64, true), extendBV(cellBV(src.Name, 4), 64, true), false), constInt(4, 64, true))
			inRange := bnot(bvLt(constInt(188, 64, true), start))
			if eq, dec, _ := equivBits(errNil, band(pay, inRange), 14); !(eq && dec) {
				bad = append(bad, fmt.Sprintf("len=188: succeeds under %s, expected payload flag ∧ offset ≤ 188", errNil))
			}
			for _, lf := range muxLeaves(s.RetN(0)) {
				iv, ok := lf.(*IfaceV)
				if !ok {
					continue
				}
				for _, l2 := range muxLeaves(iv.V) {
					sl, ok := l2.(*SliceV)
					if !ok {
						continue
					}
					if sl.Obj == src {
						bad = append(bad, "len=188: the PAT aliases the caller's buffer instead of the packet copy")
					} else if !sameBV(sl.Lo, start) {
						bad = append(bad, fmt.Sprintf("len=188: PAT bytes start at %s, expected the payload offset %s", sl.Lo, start))
					}
				}
			}
		default:
			if !(isConst(errNil) && errNil.c) {
				bad = append(bad, fmt.Sprintf("len=%d: returns an error %s", n, showVal(s.RetN(1))))
			}
			iv, ok := s.RetN(0).(*IfaceV)
			var sl *SliceV
			if ok {
				sl, _ = iv.V.(*SliceV)
			}
			if sl == nil || sl.Obj != src || !sameBV(sl.Lo, constInt(0, 64, true)) || !sameBV(sl.Len, constInt(int64(n), 64, true)) {
				bad = append(bad, fmt.Sprintf("len=%d: PAT is %s, expected the given bytes", n, showVal(s.RetN(0))))
			}
		}
		if w := s.WrittenCells(); len(w) > 0 {
			bad = append(bad, fmt.Sprintf("len=%d: input modified %v", n, w))
		}
	}
	c.check("C07.carrier", anchor, "lengths 0,12 → invalid-length error; 13..187,189 → the bytes themselves; 188 → payload of the packet (copy) at the payload offset, error without payload flag", len(bad) == 0, strings.Join(bad, "; "))
}

func (c *Checker) checkIsPMT() {
	const anchor = "psi:IsPMT"
	var bad []string
	for n := 0; n <= 3; n++ {
		var in0 *Interp
		s, _ := c.summary("C07.ispmt", anchor, &AnalyzeOpts{Setup: func(in *Interp) { in0 = in; in.MapLen = n; in.PureInvoke = true }})
		if s == nil {
			return
		}
		pkt := paramObj(s, 0)
		patNil := in0.nilBit(s.Params[1])
		pid := bitsBV(fieldBits(pkt.Name, tsHeader["PID"]), 64)
		pid.Signed = true
		mapT := types.NewMap(types.Typ[types.Int], types.Typ[types.Int])
		mv := in0.opaqueNamed(mapT, "ProgramMap", s.Params[1]).(*OpaqueV)
		any := U.B0
		for i := 0; i < n; i++ {
			v := in0.opaqueOf(types.Typ[types.Int], fmt.Sprintf("%s.val%d", mv.Why, i)).(*BV)
			any = bor(any, bvEq(pid, v))
		}
		want := band(bnot(patNil), any)
		ret, _ := s.RetN(0).(*BV)
		if ret == nil || ret.W != 1 {
			bad = append(bad, fmt.Sprintf("%d entries: non-boolean result", n))
			continue
		}
		if eq, dec, det := equivBits(ret.Bits[0], want, 12); !(eq && dec) {
			bad = append(bad, fmt.Sprintf("%d entries: result %s, expected %s (%s)", n, ret.Bits[0], want, det))
		}
		// error iff pat == nil, and it is ErrNilPAT
		errNil := in0.nilBit(s.RetN(1))
		if eq, dec, _ := equivBits(errNil, bnot(patNil), 6); !(eq && dec) {
			bad = append(bad, fmt.Sprintf("%d entries: error is nil under %s, expected pat != nil", n, errNil))
		}
		for _, lf := range muxLeaves(s.RetN(1)) {
			if _, isNil := lf.(NilV); !isNil && showVal(lf) != "gots.ErrNilPAT" {
				bad = append(bad, fmt.Sprintf("%d entries: error %s", n, showVal(lf)))
			}
		}
		if w := s.WrittenCells(); len(w) > 0 {
			bad = append(bad, fmt.Sprintf("%d entries: writes %v", n, w))
		}
	}
	c.check("C07.ispmt", anchor, "maps of 0..3 entries: true ⇔ pat ≠ nil ∧ some map value == PID(pkt) (Table 2-2 bits); nil PAT → ErrNilPAT", len(bad) == 0, strings.Join(bad, "; "))
}

func (c *Checker) checkReadPAT() {
	const anchor = "psi:ReadPAT"
	fn, err := c.P.Func(anchor)
	if err != nil {
		c.undecided("C07.reader", anchor, "anchor", err.Error())
		return
	}
	c.analysed[fn.String()] = true
	isPat, _ := c.P.Func("packet:IsPat")
	newPat, _ := c.P.Func("psi:NewPAT")
	payload, _ := c.P.Func("packet:Payload")
	// 1. packets are read with io.ReadFull into the whole packet
	var reads []*ssa.Call
	for _, ci := range allCalls(fn) {
		if call, ok := ci.(*ssa.Call); ok && calleeName(call) == "io.ReadFull" {
			reads = append(reads, call)
		}
	}
	ok := len(reads) == 1 && strings.HasSuffix(sx(reads[0].Call.Args[1]), "[:]")
	c.check("C07.reader", anchor, "reads whole 188-byte packets with io.ReadFull", ok, fmt.Sprintf("%d ReadFull calls", len(reads)))
	// 2. parsing is gated by IsPat on that packet
	gated := false
	for _, ci := range callsTo(fn, newPat) {
		call := ci.(*ssa.Call)
		for b := call.Block(); b != nil; b = b.Idom() {
			id := b.Idom()
			if id == nil {
				break
			}
			if ifi, ok := id.Instrs[len(id.Instrs)-1].(*ssa.If); ok && id.Succs[0] == b {
				if cc, ok := ifi.Cond.(*ssa.Call); ok && cc.Call.StaticCallee() == isPat {
					gated = true
				}
			}
		}
		// argument is a copy of the payload
		arg := sx(call.Call.Args[0])
		c.check("C07.reader", anchor, "PAT built from a copy of the packet's payload", strings.HasPrefix(arg, "make["), "NewPAT argument is "+arg)
	}
	c.check("C07.reader", anchor, "only a packet classified by IsPat (PID 0) is parsed", gated && len(callsTo(fn, payload)) == 1, "NewPAT is not dominated by IsPat(&pkt) == true")
	// 3. end of stream → ErrPATNotFound; other read errors returned
	notFound, propagated := false, false
	for _, b := range fn.Blocks {
		if r, ok := b.Instrs[len(b.Instrs)-1].(*ssa.Return); ok && len(r.Results) == 2 {
			e := sx(r.Results[1])
			if strings.HasSuffix(e, "ErrPATNotFound") {
				notFound = true
			}
			if ex, ok := r.Results[1].(*ssa.Extract); ok {
				if call, ok := ex.Tuple.(*ssa.Call); ok && calleeName(call) == "io.ReadFull" {
					propagated = true
				}
			}
		}
	}
	eofBreak := false
	for _, b := range fn.Blocks {
		if ifi, ok := b.Instrs[len(b.Instrs)-1].(*ssa.If); ok {
			cs := sx(ifi.Cond)
			if strings.Contains(cs, "*@EOF") && strings.Contains(cs, "==") {
				eofBreak = true
			}
		}
	}
	c.check("C07.reader", anchor, "a stream that ends without a PAT yields the PAT-not-found error; other read errors are returned", notFound && propagated && eofBreak, fmt.Sprintf("notFound=%v propagated=%v eofTest=%v", notFound, propagated, eofBreak))
}
