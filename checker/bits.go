package main

// Bit-provenance algebra (engine E1).
//
// An abstract bit is an XOR-affine combination  c ⊕ a1 ⊕ a2 ⊕ …  of atoms, or
// ⊤. Atoms are (i) bit k of a Source (a cell of an input buffer, a scalar
// parameter, the opaque result of an arithmetic term or call), (ii) the AND of
// two or more abstract bits (flattened, sorted). Everything is interned, so
// two abstract bits are semantically-normalised-equal iff they are the same
// pointer. XOR-affine closure is what makes the CRC analysable; AND atoms give
// residual formulas of comparison chains.

import (
	"fmt"
	"sort"
	"strings"
)

type atomKind int

const (
	aSrc atomKind = iota
	aAnd
)

type atom struct {
	id   int32
	kind atomKind
	src  *Source
	bit  int
	ops  []Bit // aAnd: factors, sorted by id, len >= 2
}

type bitNode struct {
	id    int32
	top   bool
	c     bool
	atoms []int32 // sorted, unique
}

// Bit is an interned abstract bit.
type Bit = *bitNode

// Source is a producer of fresh abstract bits.
type Source struct {
	id    int
	Kind  string // "cell", "param", "term", "len", "fresh"
	Name  string
	Width int
	Term  *Term // for Kind=="term"
	Obj   *Obj  // for "cell"/"len"
	Idx   int   // for "cell"
	Def   Bit   // for Kind=="def": the bit this 1-bit source abbreviates
}

// wrapDef abbreviates a large conjunction by a named 1-bit source whose
// definition is kept; the same bit always gets the same name.
func wrapDef(b Bit) Bit {
	if isConst(b) || b.top {
		return b
	}
	s := U.source("def", fmt.Sprintf("def#%d", b.id), 1)
	s.Def = b
	return U.srcBit(s, 0)
}

type universe struct {
	atoms   []*atom
	atomKey map[string]*atom
	bits    map[string]Bit
	nbits   int32
	srcs    []*Source
	srcKey  map[string]*Source
	terms   map[string]*Term
	nterm   int
	B0, B1  Bit
	BTop    Bit
	andMemo map[[2]int32]Bit
}

var U *universe

func newUniverse() *universe {
	u := &universe{atomKey: map[string]*atom{}, bits: map[string]Bit{}, srcKey: map[string]*Source{},
		terms: map[string]*Term{}, andMemo: map[[2]int32]Bit{}}
	u.B0 = u.mk(false, nil)
	u.B1 = u.mk(true, nil)
	u.BTop = &bitNode{id: -1, top: true}
	return u
}

func (u *universe) mk(c bool, atoms []int32) Bit {
	var sb strings.Builder
	if c {
		sb.WriteByte('1')
	} else {
		sb.WriteByte('0')
	}
	for _, a := range atoms {
		fmt.Fprintf(&sb, ",%d", a)
	}
	k := sb.String()
	if b, ok := u.bits[k]; ok {
		return b
	}
	b := &bitNode{id: u.nbits, c: c, atoms: append([]int32(nil), atoms...)}
	u.nbits++
	u.bits[k] = b
	return b
}

func (u *universe) source(kind, name string, width int) *Source {
	k := kind + "|" + name
	if s, ok := u.srcKey[k]; ok {
		return s
	}
	s := &Source{id: len(u.srcs), Kind: kind, Name: name, Width: width}
	u.srcs = append(u.srcs, s)
	u.srcKey[k] = s
	return s
}

func (u *universe) freshSource(kind, name string, width int) *Source {
	s := &Source{id: len(u.srcs), Kind: kind, Name: fmt.Sprintf("%s#%d", name, len(u.srcs)), Width: width}
	u.srcs = append(u.srcs, s)
	return s
}

func (u *universe) srcBit(s *Source, k int) Bit {
	key := fmt.Sprintf("s%d.%d", s.id, k)
	a, ok := u.atomKey[key]
	if !ok {
		a = &atom{id: int32(len(u.atoms)), kind: aSrc, src: s, bit: k}
		u.atoms = append(u.atoms, a)
		u.atomKey[key] = a
	}
	return u.mk(false, []int32{a.id})
}

func isConst(b Bit) bool { return !b.top && len(b.atoms) == 0 }

func bconst(v bool) Bit {
	if v {
		return U.B1
	}
	return U.B0
}

func bxor(a, b Bit) Bit {
	if a.top || b.top {
		return U.BTop
	}
	if len(a.atoms) == 0 && !a.c {
		return b
	}
	if len(b.atoms) == 0 && !b.c {
		return a
	}
	out := make([]int32, 0, len(a.atoms)+len(b.atoms))
	i, j := 0, 0
	for i < len(a.atoms) && j < len(b.atoms) {
		switch {
		case a.atoms[i] == b.atoms[j]:
			i++
			j++
		case a.atoms[i] < b.atoms[j]:
			out = append(out, a.atoms[i])
			i++
		default:
			out = append(out, b.atoms[j])
			j++
		}
	}
	out = append(out, a.atoms[i:]...)
	out = append(out, b.atoms[j:]...)
	return U.mk(a.c != b.c, out)
}

func bnot(a Bit) Bit { return bxor(a, U.B1) }

// factors returns the conjunctive factors of b: the operands if b is exactly
// one AND atom, otherwise b itself.
func factors(b Bit) []Bit {
	if !b.top && !b.c && len(b.atoms) == 1 {
		a := U.atoms[b.atoms[0]]
		if a.kind == aAnd {
			return a.ops
		}
	}
	return []Bit{b}
}

func band(a, b Bit) Bit {
	if isConst(a) {
		if a.c {
			return b
		}
		return U.B0
	}
	if isConst(b) {
		if b.c {
			return a
		}
		return U.B0
	}
	if a.top || b.top {
		return U.BTop
	}
	if a == b {
		return a
	}
	key := [2]int32{a.id, b.id}
	if a.id > b.id {
		key = [2]int32{b.id, a.id}
	}
	if r, ok := U.andMemo[key]; ok {
		return r
	}
	fs := append(append([]Bit(nil), factors(a)...), factors(b)...)
	sort.Slice(fs, func(i, j int) bool { return fs[i].id < fs[j].id })
	out := fs[:0]
	for i, f := range fs {
		if i > 0 && fs[i-1] == f {
			continue
		}
		out = append(out, f)
	}
	fs = out
	// contradiction x ∧ ¬x
	set := map[int32]bool{}
	for _, f := range fs {
		set[f.id] = true
	}
	var res Bit
	for _, f := range fs {
		if set[bnot(f).id] {
			res = U.B0
			break
		}
	}
	if res == nil {
		if len(fs) == 1 {
			res = fs[0]
		} else {
			var sb strings.Builder
			sb.WriteString("&")
			for _, f := range fs {
				fmt.Fprintf(&sb, ",%d", f.id)
			}
			k := sb.String()
			at, ok := U.atomKey[k]
			if !ok {
				at = &atom{id: int32(len(U.atoms)), kind: aAnd, ops: append([]Bit(nil), fs...)}
				U.atoms = append(U.atoms, at)
				U.atomKey[k] = at
			}
			res = U.mk(false, []int32{at.id})
		}
	}
	U.andMemo[key] = res
	return res
}

func bor(a, b Bit) Bit {
	if isConst(a) {
		if a.c {
			return U.B1
		}
		return b
	}
	if isConst(b) {
		if b.c {
			return U.B1
		}
		return a
	}
	if a.top || b.top {
		return U.BTop
	}
	// a ∨ b = ¬(¬a ∧ ¬b): keeps the AND-normal form flat for chains
	return bnot(band(bnot(a), bnot(b)))
}

// bmux(c,t,f) = c ? t : f
func bmux(c, t, f Bit) Bit {
	if t == f {
		return t
	}
	if isConst(c) {
		if c.c {
			return t
		}
		return f
	}
	if c.top || t.top || f.top {
		return U.BTop
	}
	d := bxor(t, f)
	if isConst(d) { // d == 1 here
		return bxor(f, c)
	}
	// f ⊕ c·(t⊕f)
	if isConst(f) && !f.c {
		return band(c, t)
	}
	if isConst(t) && !t.c {
		return band(bnot(c), f)
	}
	if isConst(t) && t.c {
		return bor(c, f)
	}
	if isConst(f) && f.c {
		return bor(bnot(c), t)
	}
	return bxor(f, band(c, d))
}

func (b *bitNode) String() string {
	if b.top {
		return "⊤"
	}
	if len(b.atoms) == 0 {
		if b.c {
			return "1"
		}
		return "0"
	}
	var parts []string
	for _, id := range b.atoms {
		parts = append(parts, U.atoms[id].String())
	}
	s := strings.Join(parts, "⊕")
	if b.c {
		if len(parts) == 1 {
			return "¬" + s
		}
		return "¬(" + s + ")"
	}
	return s
}

func (a *atom) String() string {
	switch a.kind {
	case aSrc:
		if a.src.Width == 1 {
			return a.src.Name
		}
		return fmt.Sprintf("%s.%d", a.src.Name, a.bit)
	default:
		var parts []string
		for _, o := range a.ops {
			parts = append(parts, o.String())
		}
		return "(" + strings.Join(parts, "∧") + ")"
	}
}

// leafAtoms collects the aSrc atoms a bit depends on (through AND atoms).
func leafAtoms(b Bit, into map[int32]*atom) {
	if b.top {
		return
	}
	for _, id := range b.atoms {
		a := U.atoms[id]
		if a.kind == aSrc {
			into[a.id] = a
		} else {
			for _, o := range a.ops {
				leafAtoms(o, into)
			}
		}
	}
}

// evalBit evaluates b under an assignment of leaf atoms. ok=false when a
// needed atom is unassigned or b is ⊤.
func evalBit(b Bit, asg func(a *atom) (bool, bool)) (bool, bool) {
	if b.top {
		return false, false
	}
	v := b.c
	for _, id := range b.atoms {
		a := U.atoms[id]
		var x bool
		if a.kind == aSrc {
			y, ok := asg(a)
			if !ok {
				return false, false
			}
			x = y
		} else {
			x = true
			for _, o := range a.ops {
				y, ok := evalBit(o, asg)
				if !ok {
					return false, false
				}
				if !y {
					x = false
					break
				}
			}
		}
		if x {
			v = !v
		}
	}
	return v, true
}
