package main

import (
	"fmt"
	"go/token"
	"go/types"

	"golang.org/x/tools/go/ssa"
)

// bounds_post.go: postconditions of small loop-free integer functions, proved
// by executing every path over linear facts (division by a positive constant
// is split into its two sign cases) and Fourier–Motzkin refutation, then made
// available to callers as conditional facts about the call's value.

type linState struct {
	facts []aff
	vals  map[ssa.Value]aff
}

func (s *linState) clone() *linState {
	n := &linState{facts: append([]aff(nil), s.facts...), vals: make(map[ssa.Value]aff, len(s.vals))}
	for k, v := range s.vals {
		n.vals[k] = v
	}
	return n
}

type linExec struct {
	fn     *ssa.Function
	onRet  func(facts []aff, ret aff) bool // false: claim fails on this path
	failed bool
	why    string
	paths  int
}

func (x *linExec) ev(st *linState, v ssa.Value) aff {
	if a, ok := st.vals[v]; ok {
		return a
	}
	switch t := v.(type) {
	case *ssa.Const:
		if k, ok := constInt64(t); ok {
			return affConst(k)
		}
	case *ssa.BinOp:
		switch t.Op {
		case token.ADD:
			return x.ev(st, t.X).add(x.ev(st, t.Y), 1)
		case token.SUB:
			return x.ev(st, t.X).add(x.ev(st, t.Y), -1)
		}
	case *ssa.Convert:
		// widening or same-width signed conversions of values known to be small
		if wf, _, ok := intWidth(t.X.Type()); ok {
			if wt, _, ok2 := intWidth(t.Type()); ok2 && wt >= wf {
				return x.ev(st, t.X)
			}
		}
	case *ssa.ChangeType:
		return x.ev(st, t.X)
	case *ssa.Call:
		if b, ok := t.Call.Value.(*ssa.Builtin); ok && b.Name() == "len" {
			return x.lenOf(st, t.Call.Args[0])
		}
	}
	return affAtom(v)
}

// lenOf: length of a slice value; x[lo:hi] is hi − lo, x[:] is len(x).
func (x *linExec) lenOf(st *linState, v ssa.Value) aff {
	switch t := v.(type) {
	case *ssa.Slice:
		if _, isSlice := t.X.Type().Underlying().(*types.Slice); isSlice {
			hi := x.lenOf(st, t.X)
			if t.High != nil {
				hi = x.ev(st, t.High)
			}
			if t.Low != nil {
				return hi.add(x.ev(st, t.Low), -1)
			}
			return hi
		}
	case *ssa.ChangeType:
		return x.lenOf(st, t.X)
	case *ssa.Phi:
		if a, ok := st.vals[v]; ok {
			return a
		}
	}
	return affAtom(lenKey{v})
}

// nonneg adds the type-level lower bounds of the atoms of a.
func (x *linExec) atomFacts(st *linState, a aff) {
	for at := range a.t {
		switch k := at.(type) {
		case lenKey:
			st.facts = append(st.facts, affAtom(at))
		case ssa.Value:
			if tr := typeRange(k.Type()); tr.lo == 0 {
				st.facts = append(st.facts, affAtom(at))
			}
		}
	}
}

func (x *linExec) walk(b *ssa.BasicBlock, pred *ssa.BasicBlock, st *linState, from int, seen map[*ssa.BasicBlock]bool) {
	if x.failed {
		return
	}
	if from == 0 {
		if seen[b] {
			x.failed, x.why = true, "the function has a loop"
			return
		}
		seen[b] = true
		defer delete(seen, b)
	}
	for idx := from; idx < len(b.Instrs); idx++ {
		ins := b.Instrs[idx]
		switch t := ins.(type) {
		case *ssa.Phi:
			for i, p := range b.Preds {
				if p == pred {
					st.vals[t] = x.ev(st, t.Edges[i])
				}
			}
		case *ssa.BinOp:
			if t.Op == token.QUO && isIntType(t.Type()) {
				k, isConst := t.Y.(*ssa.Const)
				kv, ok := int64(0), false
				if isConst {
					kv, ok = constInt64(k)
				}
				if !ok || kv <= 0 {
					continue
				}
				a := x.ev(st, t.X)
				x.atomFacts(st, a)
				q := affAtom(ssa.Value(t))
				// truncated division: a ≥ 0 ⇒ 0 ≤ a − k·q ≤ k−1 ; a ≤ −1 ⇒ −(k−1) ≤ a − k·q ≤ 0
				r := a.add(q, -kv)
				pos := st.clone()
				pos.facts = append(pos.facts, a, r, affConst(kv-1).add(r, -1))
				pos.vals[t] = q
				x.walk(b, pred, pos, idx+1, seen)
				neg := st.clone()
				neg.facts = append(neg.facts, a.scale(-1).add(affConst(1), -1), r.scale(-1), r.add(affConst(kv-1), 1))
				neg.vals[t] = q
				x.walk(b, pred, neg, idx+1, seen)
				return
			}
		case *ssa.If:
			for k, succ := range b.Succs {
				n := st.clone()
				if c, ok := t.Cond.(*ssa.BinOp); ok && isIntType(c.X.Type()) {
					l, r := x.ev(n, c.X), x.ev(n, c.Y)
					x.atomFacts(n, l)
					x.atomFacts(n, r)
					op := c.Op
					if k == 1 {
						op = negCmp(op)
					}
					one := affConst(1)
					switch op {
					case token.LSS:
						n.facts = append(n.facts, r.add(l, -1).add(one, -1))
					case token.LEQ:
						n.facts = append(n.facts, r.add(l, -1))
					case token.GTR:
						n.facts = append(n.facts, l.add(r, -1).add(one, -1))
					case token.GEQ:
						n.facts = append(n.facts, l.add(r, -1))
					case token.EQL:
						n.facts = append(n.facts, l.add(r, -1), r.add(l, -1))
					}
				}
				x.walk(succ, b, n, 0, seen)
			}
			return
		case *ssa.Jump:
			x.walk(b.Succs[0], b, st, 0, seen)
			return
		case *ssa.Return:
			x.paths++
			if len(t.Results) != 1 {
				x.failed, x.why = true, "not a single-result function"
				return
			}
			ret := x.ev(st, t.Results[0])
			x.atomFacts(st, ret)
			if fmUnsat(st.facts) {
				return // infeasible path
			}
			if !x.onRet(st.facts, ret) {
				x.failed, x.why = true, fmt.Sprintf("not provable on a path to %s", x.fn.Prog.Fset.Position(t.Pos()))
			}
			return
		case *ssa.Panic:
			return
		}
	}
}

// provePost proves, on every path of fn, that (ret − 1 ≥ 0) implies claim(ret) ≥ 0.
func provePost(fn *ssa.Function, claim func(ret aff) aff) (bool, string, int) {
	x := &linExec{fn: fn}
	x.onRet = func(facts []aff, ret aff) bool {
		fs := append(append([]aff(nil), facts...), ret.add(affConst(1), -1))
		if fmUnsat(fs) {
			return true // the result cannot be ≥ 1 on this path
		}
		return fmProve(fs, claim(ret))
	}
	if fn.Blocks == nil {
		return false, "no body", 0
	}
	x.walk(fn.Blocks[0], nil, &linState{vals: map[ssa.Value]aff{}}, 0, map[*ssa.BasicBlock]bool{})
	return !x.failed && x.paths > 0, x.why, x.paths
}

// condFact: cond ≥ 0 ⇒ fact ≥ 0.
type condFact struct{ cond, fact aff }

// postconds lists the proved-on-demand postconditions and how a caller's call
// value is related to its arguments.
type postcond struct {
	callee string
	what   string
	// claim in callee terms (ret = result, p = first parameter)
	claim func(fn *ssa.Function, ret aff) aff
	// instantiate for a call c in a caller
	inst func(bf *boundsFn, c *ssa.Call) condFact
}

var postconds = []postcond{
	{
		callee: "psi:(pat).NumPrograms",
		what:   "NumPrograms(pat) ≥ 1 ⇒ len(pat) ≥ 4·NumPrograms(pat) + 9 (8 header bytes, 4 bytes per program, at least one byte of what follows)",
		claim: func(fn *ssa.Function, ret aff) aff {
			return affAtom(lenKey{fn.Params[0]}).add(ret, -4).add(affConst(9), -1)
		},
		inst: func(bf *boundsFn, c *ssa.Call) condFact {
			r := bf.affOf(c)
			return condFact{cond: r.add(affConst(1), -1), fact: bf.lenAff(c.Call.Args[0]).add(r, -4).add(affConst(9), -1)}
		},
	},
}

// applyPostconds proves every listed postcondition on the current tree and
// registers it for use at call sites. Returns report lines.
func (B *Bounds) applyPostconds() []string {
	var out []string
	for _, pc := range postconds {
		fn, err := B.P.Func(pc.callee)
		if err != nil {
			out = append(out, fmt.Sprintf("postcondition NOT established for %s: %v", pc.callee, err))
			continue
		}
		ok, why, paths := provePost(fn, func(ret aff) aff { return pc.claim(fn, ret) })
		if !ok {
			out = append(out, fmt.Sprintf("postcondition NOT established for %s (%s): %s", pc.callee, pc.what, why))
			continue
		}
		if B.posts == nil {
			B.posts = map[*ssa.Function]postcond{}
		}
		B.posts[fn] = pc
		out = append(out, fmt.Sprintf("postcondition established for %s on %d paths: %s", pc.callee, paths, pc.what))
	}
	return out
}
