package main

import (
	"fmt"
	"strings"

	"golang.org/x/tools/go/ssa"
)

// CRC-32/MPEG-2 reference on abstract bits (polynomial 0x04C11DB7, init
// 0xFFFFFFFF, MSB first, no reflection, no final XOR). reg[k] is bit k.
const crcPoly = 0x04C11DB7

// crcStepDirect: one message bit through the direct (non-augmented) form.
func crcStepDirect(reg []Bit, in Bit) []Bit {
	fb := bxor(reg[31], in)
	out := make([]Bit, 32)
	for k := 31; k >= 0; k-- {
		var sh Bit = U.B0
		if k > 0 {
			sh = reg[k-1]
		}
		if crcPoly>>uint(k)&1 == 1 {
			sh = bxor(sh, fb)
		}
		out[k] = sh
	}
	return out
}

// crcStepAug: one bit through the augmented form S(crc,in) = (crc<<1 | in) ^ (crc[31] ? poly : 0).
func crcStepAug(reg []Bit, in Bit) []Bit {
	top := reg[31]
	out := make([]Bit, 32)
	for k := 31; k >= 0; k-- {
		sh := in
		if k > 0 {
			sh = reg[k-1]
		}
		if crcPoly>>uint(k)&1 == 1 {
			sh = bxor(sh, top)
		}
		out[k] = sh
	}
	return out
}

func constBits32(v uint32) []Bit {
	out := make([]Bit, 32)
	for i := range out {
		out[i] = bconst(v>>uint(i)&1 == 1)
	}
	return out
}

// crcReference computes the direct CRC of n symbolic bytes named obj[i].
func crcReference(obj string, n int) []Bit {
	reg := constBits32(0xFFFFFFFF)
	for i := 0; i < n; i++ {
		b := cellBV(obj, i)
		for k := 7; k >= 0; k-- {
			reg = crcStepDirect(reg, b.Bits[k])
		}
	}
	return reg
}

func runC13(c *Checker) {
	c.Level = "proof"
	c.explain = "ComputeCRC is GF(2)-affine; the XOR-affine bit domain is exact on it. (1) For each fixed input length n the whole function is interpreted (all three loops unroll under constant propagation) and its 32 output bits are compared, as affine forms over the 8n input bits, with the checker's own direct CRC-32/MPEG-2 reference; (2) for arbitrary length, one abstract iteration of the data loop from a symbolic register (inductive step) must equal eight applications of the reference augmented step on input[i], MSB first, with i advancing by one under i < len(input) from 0; the initial register A must satisfy S(.,0)^32(A) = 0xFFFFFFFF; the code after the loop must return the big-endian bytes of S(.,0)^32(register) in a fresh slice; (3) the two emitters are interpreted on a few layouts each with an uninterpreted ComputeCRC that records its input: exactly one call, over the emitted section from table_id to the byte before CRC_32 (alignment stuffing included; located by the output's own pointer_field and section_length), its result stored in the next four bytes."
	c.trust("go/ssa + go/types (x/tools v0.29.0)", "E1 transfer functions (XOR-affine bits are exact for &,|,^,<<,>> with constant operands and the γ-join of `if top != 0 { crc ^= poly }`)",
		"lemma (standard): the augmented MSB-first CRC with register A, message m and 32 flush bits equals the direct CRC with init I whenever S(.,0)^32(A) = I (both sides are GF(2)-linear in (register, message) and agree on each part); with no final XOR, appending the CRC gives remainder 0")
	const anchor = ":ComputeCRC"
	fn, err := c.P.Func(anchor)
	if err != nil {
		c.undecided("C13.crc", anchor, "anchor", err.Error())
		return
	}
	c.analysed[fn.String()] = true
	maxN := 4
	if c.Tier == "thorough" {
		maxN = 24
	}
	// (1) whole function for fixed lengths
	for n := 0; n <= maxN; n++ {
		s, _ := c.summary("C13.fixedlen", anchor, &AnalyzeOpts{SliceLen: map[string]int{"input": n}})
		if s == nil {
			return
		}
		con := fmt.Sprintf("len(input)=%d", n)
		rs, ok := s.RetN(0).(*SliceV)
		if !ok || (rs.Obj.Kind != "make" && rs.Obj.Kind != "alloc") {
			c.check("C13.fixedlen", anchor, con+": result is a fresh slice", false, showVal(s.RetN(0)))
			continue
		}
		if l, ok := rs.Len.ConstInt(); !ok || l != 4 {
			c.check("C13.fixedlen", anchor, con+": result has 4 bytes", false, rs.Len.String())
			continue
		}
		want := crcReference(paramName(s, 0), n)
		good := true
		detail := ""
		for bi := 0; bi < 4 && good; bi++ {
			got, _ := s.Cell(rs.Obj, joinPath(rs.Prefix, bi), byteT).(*BV)
			// big endian: byte 0 holds bits 31..24
			exp := make([]Bit, 8)
			for k := 0; k < 8; k++ {
				exp[k] = want[(3-bi)*8+k]
			}
			if got == nil {
				good, detail = false, "non-integer byte"
				break
			}
			for k := 0; k < 8; k++ {
				if got.Bits[k] != exp[k] {
					good = false
					detail = fmt.Sprintf("output byte %d bit %d is %s, reference CRC bit is %s", bi, k, got.Bits[k], exp[k])
					break
				}
			}
		}
		c.check("C13.fixedlen", anchor, con+": 4 big-endian bytes == CRC-32/MPEG-2 of the input (as affine forms over all input bits)", good, detail)
		c.check("C13.fixedlen", anchor, con+": input not modified", len(s.WrittenCells()) == 0, fmt.Sprint(s.WrittenCells()))
	}
	// (2) inductive step
	ls, err := AnalyzeLoop(c.P, fn, nil)
	if err != nil {
		c.undecided("C13.step", anchor, "loop analysis", err.Error())
		return
	}
	var crcPhi, iPhi *ssa.Phi
	for _, p := range ls.Phis {
		if w, _, _ := intWidth(p.Type()); w == 32 {
			crcPhi = p
		} else {
			iPhi = p
		}
	}
	if crcPhi == nil || iPhi == nil || len(ls.Phis) != 2 {
		c.undecided("C13.step", anchor, "loop state", fmt.Sprintf("expected a 32-bit register and a counter, found %d loop variables", len(ls.Phis)))
		return
	}
	reg := ls.Pre[crcPhi].(*BV)
	ctr := ls.Pre[iPhi].(*BV)
	// The loop variable may be the index itself (for i := 0; i < len; i++) or
	// one behind it (range loops: starts at -1, the body uses i+1). In both
	// cases the byte consumed in an iteration is input[e] with e = i + d.
	i0, _ := ls.Init[iPhi].(*BV)
	inext, _ := ls.Next[iPhi].(*BV)
	inObj := paramObj(ls.Sum, 0)
	nreg, _ := ls.Next[crcPhi].(*BV)
	okStart, okCond, good := false, false, false
	detail := "non-integer register"
	condShown := ""
	for _, d := range []int64{0, 1} {
		e := ctr
		if d != 0 {
			e = bvAdd(ctr, constInt(d, ctr.W, ctr.Signed), false)
		}
		start := false
		if i0 != nil {
			if k0, ok := i0.ConstInt(); ok && k0+d == 0 {
				start = true
			}
		}
		wantCond := bvLt(e, inObj.Len)
		condShown = fmt.Sprintf("%s vs %s", ls.Cond, wantCond)
		if !start || ls.Cond != wantCond {
			continue
		}
		okStart, okCond = true, true
		// the byte consumed is input[e]
		item := termBV(mkTerm("cellat:"+inObj.Name+"/", 8, extendBV(e, 64, true).Term()), 8, false)
		wantReg := append([]Bit(nil), reg.Bits...)
		for k := 7; k >= 0; k-- {
			wantReg = crcStepAug(wantReg, item.Bits[k])
		}
		good = nreg != nil
		if good {
			for k := 0; k < 32; k++ {
				if nreg.Bits[k] != wantReg[k] {
					good = false
					detail = fmt.Sprintf("register bit %d after one byte is %s, reference is %s", k, nreg.Bits[k], wantReg[k])
					break
				}
			}
		}
		break
	}
	c.check("C13.step", anchor, "counter starts at 0", okStart, showVal(ls.Init[iPhi]))
	c.check("C13.step", anchor, "counter advances by exactly 1 per byte", inext != nil && sameBV(inext, bvAdd(ctr, constInt(1, ctr.W, ctr.Signed), false)), showVal(ls.Next[iPhi]))
	c.check("C13.step", anchor, "body entered iff counter < len(input)", okCond, condShown)
	c.check("C13.step", anchor, "one iteration == 8 augmented steps S(reg, input[i].bit 7..0), polynomial 0x04C11DB7", good, detail)
	// initial register
	a0, _ := ls.Init[crcPhi].(*BV)
	if a0 == nil {
		c.check("C13.step", anchor, "initial register is a constant", false, showVal(ls.Init[crcPhi]))
	} else if av, ok := a0.ConstVal(); !ok {
		c.check("C13.step", anchor, "initial register is a constant", false, a0.String())
	} else {
		r := constBits32(uint32(av.Uint64()))
		for k := 0; k < 32; k++ {
			r = crcStepAug(r, U.B0)
		}
		all := true
		for k := 0; k < 32; k++ {
			if r[k] != U.B1 {
				all = false
			}
		}
		c.check("C13.step", anchor, fmt.Sprintf("initial register %#x satisfies S(.,0)^32(A) == 0xFFFFFFFF (init of CRC-32/MPEG-2)", av), all, "pre-conditioned initial value does not correspond to init 0xFFFFFFFF")
	}
	// flush + output from a symbolic register
	rs, ok := ls.Ret.(*SliceV)
	if !ok {
		c.check("C13.step", anchor, "epilogue returns a slice", false, showVal(ls.Ret))
	} else {
		fl := append([]Bit(nil), reg.Bits...)
		for k := 0; k < 32; k++ {
			fl = crcStepAug(fl, U.B0)
		}
		good, detail := true, ""
		if l, ok := rs.Len.ConstInt(); !ok || l != 4 {
			good, detail = false, "length "+rs.Len.String()
		}
		for bi := 0; bi < 4 && good; bi++ {
			got, _ := ls.Sum.Cell(rs.Obj, joinPath(rs.Prefix, bi), byteT).(*BV)
			for k := 0; k < 8 && good; k++ {
				if got == nil || got.Bits[k] != fl[(3-bi)*8+k] {
					good = false
					detail = fmt.Sprintf("output byte %d bit %d differs from flush^32(register) bit %d", bi, k, (3-bi)*8+k)
				}
			}
		}
		c.check("C13.step", anchor, "epilogue == big-endian bytes of S(.,0)^32(register), no final XOR, fresh 4-byte slice", good && rs.Obj.Kind != "param", detail)
	}
	c.checkCRCEmitters()
}

// checkCRCEmitters: the two functions that emit sections are interpreted with
// an uninterpreted ComputeCRC that records its input window (the machinery of
// C09 and C14) on a few layouts each; only the checksum clause is compared:
// the window is the emitted section from table_id to the byte before CRC_32
// (stuffing included) and the four result bytes follow it directly.
func (c *Checker) checkCRCEmitters() {
	{
		shapes := s35Shapes(false)
		n, bad, first := 0, 0, ""
		for i, sh := range shapes {
			if i%17 != 0 || sh.pointer != 0 {
				continue
			}
			for _, st := range []int{0, 3} {
				d := c.s35CRCCase(sh, st)
				if strings.HasPrefix(d, "skip: ") {
					continue
				}
				n++
				if d != "" {
					bad++
					if first == "" {
						first = fmt.Sprintf("%s, %d alignment_stuffing bytes: %s", sh.name, st, d)
					}
				}
			}
		}
		c.check("C13.emitter", "scte35:(*scte35).UpdateData", "CRC_32 of the emitted section = ComputeCRC(table_id … byte before CRC_32, alignment stuffing included), stored in the last four bytes; length agrees with section_length", bad == 0, fmt.Sprintf("%d of %d layouts fail; first: %s", bad, n, first))
		c.floorCheck("C13.emitter SCTE-35 layouts", n, 8)
	}
	{
		n, bad, first := 0, 0, ""
		for _, s := range pmt14Shapes {
			for j, pc := range pmt14PidCases(s) {
				if len(pc.pids) == 0 || pc.name != "all streams" && pc.name != "first stream" && pc.name != "last stream" {
					continue
				}
				_ = j
				n++
				if d := c.filterCRCCase(s, pc); d != "" {
					bad++
					if first == "" {
						first = fmt.Sprintf("%s, PIDs %v: %s", s.name, pc.pids, d)
					}
				}
			}
		}
		c.check("C13.emitter", "psi:FilterPMTPacketsToPids", "CRC_32 of the emitted section = ComputeCRC(table_id … byte before CRC_32) over the bytes the returned packets carry (pointer_field and filler excluded), stored directly after", bad == 0, fmt.Sprintf("%d of %d cases fail; first: %s", bad, n, first))
		c.floorCheck("C13.emitter PMT filter cases", n, 6)
	}
}
