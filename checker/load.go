package main

import (
	"fmt"
	"go/token"
	"go/types"
	"os"
	"sort"
	"strings"

	"golang.org/x/tools/go/packages"
	"golang.org/x/tools/go/ssa"
	"golang.org/x/tools/go/ssa/ssautil"
)

const modPath = "github.com/Comcast/gots/v2"

// Program is the loaded, type-checked and SSA-built tree under analysis.
type Program struct {
	Repo  string
	Fset  *token.FileSet
	Pkgs  []*packages.Package // gots packages only (library + cli)
	All   []*packages.Package // every package incl. stdlib closure
	SSA   *ssa.Program
	ByPkg map[string]*ssa.Package // import path -> ssa package
	TPkg  map[string]*packages.Package
	NFunc int
}

// loadProgram loads ./... of repo (tests excluded) with full syntax of the
// dependency closure and builds SSA for everything.
func loadProgram(repo string, extraDirs ...string) (*Program, error) {
	if os.Getenv("GOWORK") != "" && os.Getenv("GOWORK") != "off" {
		return nil, fmt.Errorf("GOWORK must be unset or off")
	}
	cfg := &packages.Config{
		Mode:  packages.LoadAllSyntax,
		Dir:   repo,
		Tests: false,
		Env: append(os.Environ(), "GOFLAGS=-mod=mod", "GOPROXY=off", "GOSUMDB=off",
			"GOTOOLCHAIN=local", "GOWORK=off"),
	}
	pats := append([]string{"./..."}, extraDirs...)
	initial, err := packages.Load(cfg, pats...)
	if err != nil {
		return nil, err
	}
	if len(initial) == 0 {
		return nil, fmt.Errorf("no packages loaded from %s", repo)
	}
	var errs []string
	packages.Visit(initial, nil, func(p *packages.Package) {
		for _, e := range p.Errors {
			errs = append(errs, e.Error())
		}
	})
	if len(errs) > 0 {
		sort.Strings(errs)
		return nil, fmt.Errorf("load errors (%d): %s", len(errs), strings.Join(errs, "; "))
	}
	prog, _ := ssautil.AllPackages(initial, ssa.InstantiateGenerics)
	prog.Build()
	P := &Program{Repo: repo, SSA: prog, ByPkg: map[string]*ssa.Package{}, TPkg: map[string]*packages.Package{}}
	packages.Visit(initial, nil, func(p *packages.Package) {
		P.All = append(P.All, p)
		P.TPkg[p.PkgPath] = p
		if sp := prog.Package(p.Types); sp != nil {
			P.ByPkg[p.PkgPath] = sp
		}
		if P.Fset == nil {
			P.Fset = p.Fset
		}
	})
	for _, p := range initial {
		if p.PkgPath == modPath || strings.HasPrefix(p.PkgPath, modPath+"/") {
			P.Pkgs = append(P.Pkgs, p)
		}
	}
	sort.Slice(P.Pkgs, func(i, j int) bool { return P.Pkgs[i].PkgPath < P.Pkgs[j].PkgPath })
	if len(P.Pkgs) < 8 {
		return nil, fmt.Errorf("expected at least 8 gots packages, loaded %d", len(P.Pkgs))
	}
	P.NFunc = len(ssautil.AllFunctions(prog))
	return P, nil
}

// Func resolves "pkg.Name", "pkg.(*T).M" or "pkg.(T).M" (pkg relative to the
// module path, "" for the root package) to its unique *ssa.Function.
func (P *Program) Func(spec string) (*ssa.Function, error) {
	pkgRel, rest := "", spec
	if i := strings.Index(spec, ":"); i >= 0 {
		pkgRel, rest = spec[:i], spec[i+1:]
	}
	path := modPath
	if pkgRel != "" {
		path = modPath + "/" + pkgRel
	}
	if strings.HasPrefix(pkgRel, "std/") {
		path = pkgRel[4:]
	}
	sp := P.ByPkg[path]
	if sp == nil {
		return nil, fmt.Errorf("anchor %q: package %s not loaded", spec, path)
	}
	if strings.HasPrefix(rest, "(") {
		// method
		j := strings.Index(rest, ").")
		if j < 0 {
			return nil, fmt.Errorf("anchor %q: bad method spec", spec)
		}
		recv, meth := rest[1:j], rest[j+2:]
		ptr := strings.HasPrefix(recv, "*")
		recv = strings.TrimPrefix(recv, "*")
		obj := sp.Pkg.Scope().Lookup(recv)
		tn, ok := obj.(*types.TypeName)
		if !ok {
			return nil, fmt.Errorf("anchor %q: type %s not found", spec, recv)
		}
		var T types.Type = tn.Type()
		if ptr {
			T = types.NewPointer(T)
		}
		sel := P.SSA.MethodSets.MethodSet(T).Lookup(sp.Pkg, meth)
		if sel == nil {
			return nil, fmt.Errorf("anchor %q: method not found", spec)
		}
		fn := P.SSA.MethodValue(sel)
		if fn == nil {
			return nil, fmt.Errorf("anchor %q: no ssa function", spec)
		}
		return fn, nil
	}
	fn := sp.Func(rest)
	if fn == nil {
		return nil, fmt.Errorf("anchor %q: function not found", spec)
	}
	return fn, nil
}

// Global resolves "pkg:Name" to a package-level variable.
func (P *Program) Global(spec string) (*ssa.Global, error) {
	pkgRel, rest := "", spec
	if i := strings.Index(spec, ":"); i >= 0 {
		pkgRel, rest = spec[:i], spec[i+1:]
	}
	path := modPath
	if pkgRel != "" {
		path = modPath + "/" + pkgRel
	}
	sp := P.ByPkg[path]
	if sp == nil {
		return nil, fmt.Errorf("anchor %q: package %s not loaded", spec, path)
	}
	g, ok := sp.Members[rest].(*ssa.Global)
	if !ok {
		return nil, fmt.Errorf("anchor %q: global not found", spec)
	}
	return g, nil
}

func (P *Program) Pos(p token.Pos) string {
	if !p.IsValid() {
		return "-"
	}
	pp := P.Fset.Position(p)
	f := pp.Filename
	if strings.HasPrefix(f, P.Repo+"/") {
		f = f[len(P.Repo)+1:]
	}
	return fmt.Sprintf("%s:%d", f, pp.Line)
}

// LibFuncs returns every function with a body that belongs to the gots
// library packages (cli excluded unless withCli), including methods and
// anonymous functions, sorted by name.
func (P *Program) LibFuncs(withCli bool) []*ssa.Function {
	var out []*ssa.Function
	for fn := range ssautil.AllFunctions(P.SSA) {
		if fn.Blocks == nil || fn.Pkg == nil && fn.Parent() == nil {
			continue
		}
		pk := fn.Pkg
		if pk == nil && fn.Parent() != nil {
			pk = fn.Parent().Pkg
		}
		if pk == nil {
			continue
		}
		pp := pk.Pkg.Path()
		if pp != modPath && !strings.HasPrefix(pp, modPath+"/") {
			continue
		}
		if !withCli && strings.HasSuffix(pp, "/cli") {
			continue
		}
		if fn.Synthetic != "" && fn.Name() != "init" {
			continue
		}
		out = append(out, fn)
	}
	sort.Slice(out, func(i, j int) bool { return out[i].String() < out[j].String() })
	return out
}
