package main

import (
	"fmt"
	"go/types"
	"math/big"
	"strings"
)

// Term is a hash-consed arithmetic expression over bit vectors. It is what
// an operation the bit algebra cannot express (general +, *, /, %, <, opaque
// calls, dynamic loads) leaves behind, so that rules can still say
// "result = base*300 + ext" and compare operands.
type Term struct {
	id   int
	Op   string
	Args []*Term
	K    *big.Int // Op=="const"
	W    int
	bv   *BV        // Op=="bits"
	Coef []*big.Int // Op=="lin": coefficients of Args; K is the constant
	key  string
}

func (t *Term) String() string { return t.key }

func mkTerm(op string, w int, args ...*Term) *Term {
	var sb strings.Builder
	fmt.Fprintf(&sb, "%s/%d(", op, w)
	for i, a := range args {
		if i > 0 {
			sb.WriteByte(',')
		}
		fmt.Fprintf(&sb, "#%d", a.id)
	}
	sb.WriteByte(')')
	k := sb.String()
	if t, ok := U.terms[k]; ok {
		return t
	}
	U.nterm++
	// readable key
	var rb strings.Builder
	fmt.Fprintf(&rb, "%s(", op)
	for i, a := range args {
		if i > 0 {
			rb.WriteByte(',')
		}
		rb.WriteString(a.key)
	}
	rb.WriteByte(')')
	t := &Term{id: U.nterm, Op: op, Args: args, W: w, key: rb.String()}
	if len(t.key) > 400 {
		t.key = fmt.Sprintf("%s#%d(%s…)", op, t.id, t.key[:80])
	}
	U.terms[k] = t
	return t
}

func constTerm(v *big.Int, w int) *Term {
	k := fmt.Sprintf("const/%d:%s", w, v.String())
	if t, ok := U.terms[k]; ok {
		return t
	}
	U.nterm++
	t := &Term{id: U.nterm, Op: "const", K: new(big.Int).Set(v), W: w, key: v.String()}
	U.terms[k] = t
	return t
}

// ---------------------------------------------------------------- values

// Val is an abstract value.
type Val interface{}

// BV is an abstract integer/boolean: Bits[0] is the least significant bit.
type BV struct {
	W      int
	Signed bool
	Bits   []Bit
	term   *Term // set when the vector is exactly the bits of a term source
}

// NilV is the nil pointer/slice/interface/map/func.
type NilV struct{}

// SymConst is an immutable named entity compared by identity: a package-level
// variable treated as a constant (error values), a function value, a type.
type SymConst struct{ Name string }

// Ptr points at a cell of an object. Path elements are constant indices /
// field numbers; Dyn, when set, is a non-constant final index.
type Ptr struct {
	Obj  *Obj
	Path string // canonical "i.j.k"
	Dyn  *BV    // dynamic index relative to Base (added to it)
	Base int
	T    types.Type // pointee type
}

// SliceV is a slice header over an object's cells [Lo, Lo+Len).
type SliceV struct {
	Obj    *Obj
	Prefix string // path prefix of the backing array inside Obj ("" = Obj itself)
	Lo     *BV    // 64-bit, start offset inside the backing array
	Len    *BV    // 64-bit
	Cap    *BV    // 64-bit or nil (unknown)
	Elem   types.Type
}

// StructV is a struct or tuple value.
type StructV struct {
	Fields []Val
	T      types.Type
}

// IfaceV is a non-nil interface holding a concrete value.
type IfaceV struct {
	T types.Type
	V Val
}

// MuxV is a conditional non-integer value: C ? T : F.
type MuxV struct {
	C    Bit
	T, F Val
}

// StrV is a string: constant, or opaque.
type StrV struct {
	Const  *string
	Opaque *Term
}

// OpaqueV is a value the domain does not model (maps, channels, closures …).
type OpaqueV struct {
	Why string
	T   types.Type
}

// MapV is a map whose entries with constant keys are modelled as cells
// "k:<key>" of Obj.
type MapV struct {
	Obj  *Obj
	Elem types.Type
}

// mapEntry is an update with a non-constant key, kept in program order.
type mapEntry struct {
	K, V Val
	Cond Bit
}

// RangeV is a map iterator: the sequence of (present, key, value) it yields.
type RangeV struct {
	Items []rangeItem
	pos   *int
}

type rangeItem struct {
	OK   Bit
	K, V Val
}

// SnapV is a pointer argument of an opaque call together with the contents of
// the array it pointed to at the time of the call.
type SnapV struct {
	Ptr   *Ptr
	Elems *StructV
}

// FuncV is a function value with optional closure bindings.
type FuncV struct {
	Fn       interface{} // *ssa.Function or *ssa.Builtin
	Bindings []Val
}

func (NilV) String() string       { return "nil" }
func (s SymConst) String() string { return s.Name }

func constBV(v *big.Int, w int, signed bool) *BV {
	bits := make([]Bit, w)
	x := new(big.Int).Set(v)
	if x.Sign() < 0 {
		m := new(big.Int).Lsh(big.NewInt(1), uint(w))
		x.Add(x, m)
	}
	for i := 0; i < w; i++ {
		bits[i] = bconst(x.Bit(i) == 1)
	}
	return &BV{W: w, Signed: signed, Bits: bits}
}

func constInt(v int64, w int, signed bool) *BV { return constBV(big.NewInt(v), w, signed) }

func boolBV(b Bit) *BV { return &BV{W: 1, Bits: []Bit{b}} }

func srcBV(s *Source, signed bool) *BV {
	bits := make([]Bit, s.Width)
	for i := range bits {
		bits[i] = U.srcBit(s, i)
	}
	return &BV{W: s.Width, Signed: signed, Bits: bits}
}

func topBV(w int, signed bool) *BV {
	bits := make([]Bit, w)
	for i := range bits {
		bits[i] = U.BTop
	}
	return &BV{W: w, Signed: signed, Bits: bits}
}

// ConstVal returns the value of v if all its bits are constant.
func (v *BV) ConstVal() (*big.Int, bool) {
	x := new(big.Int)
	for i, b := range v.Bits {
		if !isConst(b) {
			return nil, false
		}
		if b.c {
			x.SetBit(x, i, 1)
		}
	}
	if v.Signed && v.W > 0 && v.Bits[v.W-1].c {
		m := new(big.Int).Lsh(big.NewInt(1), uint(v.W))
		x.Sub(x, m)
	}
	return x, true
}

func (v *BV) ConstInt() (int64, bool) {
	x, ok := v.ConstVal()
	if !ok || !x.IsInt64() {
		return 0, false
	}
	return x.Int64(), true
}

func (v *BV) HasTop() bool {
	for _, b := range v.Bits {
		if b.top {
			return true
		}
	}
	return false
}

// Term gives the canonical term of a bit vector.
func (v *BV) Term() *Term {
	if x, ok := v.ConstVal(); ok {
		return constTerm(x, v.W)
	}
	if v.term != nil {
		return v.term
	}
	// drop leading zero bits (unsigned) so widths do not matter for
	// zero-extended data: bits(lo..hi)
	n := v.W
	for n > 1 && isConst(v.Bits[n-1]) && !v.Bits[n-1].c {
		n--
	}
	if v.HasTop() {
		U.nterm++
		return &Term{id: U.nterm, Op: "top", W: v.W, key: fmt.Sprintf("⊤#%d", U.nterm)}
	}
	var sb strings.Builder
	sb.WriteString("bits:")
	for i := 0; i < n; i++ {
		fmt.Fprintf(&sb, "%d,", v.Bits[i].id)
	}
	if v.Signed && n == v.W {
		sb.WriteString("s")
	}
	k := sb.String()
	if t, ok := U.terms[k]; ok {
		return t
	}
	U.nterm++
	t := &Term{id: U.nterm, Op: "bits", W: n, bv: &BV{W: n, Signed: v.Signed && n == v.W, Bits: append([]Bit(nil), v.Bits[:n]...)}}
	if t.bv.Signed {
		// a full-width signed vector: evaluate as 64-bit two's complement
		t.W = v.W
	}
	t.key = describeBits(t.bv)
	if len(t.key) > 160 {
		t.key = fmt.Sprintf("bits#%d{%s…}", t.id, t.key[:60])
	}
	U.terms[k] = t
	return t
}

// describeBits renders a bit vector compactly: runs of consecutive bits of the
// same source are shown as name[hi:lo].
func describeBits(v *BV) string {
	var parts []string
	i := v.W - 1
	for i >= 0 {
		b := v.Bits[i]
		if !b.top && !b.c && len(b.atoms) == 1 && U.atoms[b.atoms[0]].kind == aSrc {
			a := U.atoms[b.atoms[0]]
			j := i
			for j-1 >= 0 {
				nb := v.Bits[j-1]
				if nb.top || nb.c || len(nb.atoms) != 1 {
					break
				}
				na := U.atoms[nb.atoms[0]]
				if na.kind != aSrc || na.src != a.src || na.bit != U.atoms[v.Bits[j].atoms[0]].bit-1 {
					break
				}
				j--
			}
			lo := U.atoms[v.Bits[j].atoms[0]].bit
			if a.bit == lo {
				if a.src.Width == 1 {
					parts = append(parts, a.src.Name)
				} else {
					parts = append(parts, fmt.Sprintf("%s.%d", a.src.Name, lo))
				}
			} else if lo == 0 && a.bit == a.src.Width-1 {
				parts = append(parts, a.src.Name)
			} else {
				parts = append(parts, fmt.Sprintf("%s[%d:%d]", a.src.Name, a.bit, lo))
			}
			i = j - 1
			continue
		}
		// run of constants
		if isConst(b) {
			j := i
			s := ""
			for j >= 0 && isConst(v.Bits[j]) {
				if v.Bits[j].c {
					s += "1"
				} else {
					s += "0"
				}
				j--
			}
			parts = append(parts, "0b"+s)
			i = j
			continue
		}
		parts = append(parts, "{"+b.String()+"}")
		i--
	}
	return strings.Join(parts, "‖")
}

func (v *BV) String() string {
	if x, ok := v.ConstVal(); ok {
		if v.W == 1 {
			if x.Sign() != 0 {
				return "true"
			}
			return "false"
		}
		return fmt.Sprintf("0x%x", x)
	}
	return describeBits(v)
}

// termBV returns the bit vector of the (interned) term source for t.
func termBV(t *Term, w int, signed bool) *BV {
	if t.Op == "const" {
		return constBV(t.K, w, signed)
	}
	if t.Op == "bits" && t.bv != nil {
		return extendBV(t.bv, w, signed)
	}
	s := U.source("term", t.key+fmt.Sprintf("/%d#%d", w, t.id), w)
	s.Term = t
	v := srcBV(s, signed)
	v.term = t
	return v
}

// extendBV converts v to width w using v's signedness for extension.
func extendBV(v *BV, w int, signed bool) *BV {
	bits := make([]Bit, w)
	for i := 0; i < w; i++ {
		switch {
		case i < v.W:
			bits[i] = v.Bits[i]
		case v.Signed && v.W > 0:
			bits[i] = v.Bits[v.W-1]
		default:
			bits[i] = U.B0
		}
	}
	r := &BV{W: w, Signed: signed, Bits: bits}
	if w == v.W {
		r.term = v.term
	}
	return r
}

func sameBV(a, b *BV) bool {
	if a.W != b.W {
		return false
	}
	for i := range a.Bits {
		if a.Bits[i] != b.Bits[i] || a.Bits[i].top {
			return false
		}
	}
	return true
}

// ------------------------------------------------------------ bit-vector ops

func bvBitwise(op string, a, b *BV) *BV {
	r := &BV{W: a.W, Signed: a.Signed, Bits: make([]Bit, a.W)}
	for i := 0; i < a.W; i++ {
		x, y := a.Bits[i], b.Bits[i]
		switch op {
		case "&":
			r.Bits[i] = band(x, y)
		case "|":
			r.Bits[i] = bor(x, y)
		case "^":
			r.Bits[i] = bxor(x, y)
		case "&^":
			r.Bits[i] = band(x, bnot(y))
		}
	}
	return r
}

func bvNot(a *BV) *BV {
	r := &BV{W: a.W, Signed: a.Signed, Bits: make([]Bit, a.W)}
	for i := range a.Bits {
		r.Bits[i] = bnot(a.Bits[i])
	}
	return r
}

func bvShl(a *BV, n int) *BV {
	r := &BV{W: a.W, Signed: a.Signed, Bits: make([]Bit, a.W)}
	for i := 0; i < a.W; i++ {
		if i-n >= 0 && i-n < a.W {
			r.Bits[i] = a.Bits[i-n]
		} else {
			r.Bits[i] = U.B0
		}
	}
	return r
}

func bvShr(a *BV, n int) *BV {
	r := &BV{W: a.W, Signed: a.Signed, Bits: make([]Bit, a.W)}
	for i := 0; i < a.W; i++ {
		switch {
		case i+n < a.W:
			r.Bits[i] = a.Bits[i+n]
		case a.Signed && a.W > 0:
			r.Bits[i] = a.Bits[a.W-1]
		default:
			r.Bits[i] = U.B0
		}
	}
	return r
}

// bvAdd adds with ripple carry when every carry is a constant; otherwise the
// result is the term source add(a,b).
func bvAdd(a, b *BV, sub bool) *BV {
	if x, ok := a.ConstVal(); ok {
		if y, ok := b.ConstVal(); ok {
			z := new(big.Int)
			if sub {
				z.Sub(x, y)
			} else {
				z.Add(x, y)
			}
			return wrapConst(z, a.W, a.Signed)
		}
	}
	if !sub {
		if y, ok := b.ConstVal(); ok && y.Sign() == 0 {
			return a
		}
		if x, ok := a.ConstVal(); ok && x.Sign() == 0 {
			return b
		}
	} else if y, ok := b.ConstVal(); ok && y.Sign() == 0 {
		return a
	}
	bb := b
	carry := U.B0
	if sub {
		bb = bvNot(b)
		carry = U.B1
	}
	r := &BV{W: a.W, Signed: a.Signed, Bits: make([]Bit, a.W)}
	okAll := true
	for i := 0; i < a.W; i++ {
		x, y := a.Bits[i], bb.Bits[i]
		if x.top || y.top {
			okAll = false
			break
		}
		r.Bits[i] = bxor(bxor(x, y), carry)
		// carry' = xy ⊕ c(x⊕y); require constant
		var nc Bit
		switch {
		case isConst(x) && isConst(y):
			nc = bconst((x.c && y.c) || (carry.c && (x.c != y.c)))
		case isConst(x) && !x.c && !carry.c, isConst(y) && !y.c && !carry.c:
			nc = U.B0
		case isConst(x) && x.c && carry.c, isConst(y) && y.c && carry.c:
			nc = U.B1
		default:
			okAll = false
		}
		if !okAll {
			break
		}
		carry = nc
	}
	if okAll {
		return r
	}
	sign := int64(1)
	if sub {
		sign = -1
	}
	return linBV(linOfBV(a).add(linOfBV(b), sign), a.W, a.Signed)
}

func wrapConst(z *big.Int, w int, signed bool) *BV {
	m := new(big.Int).Lsh(big.NewInt(1), uint(w))
	z = new(big.Int).Mod(z, m)
	if signed && z.Bit(w-1) == 1 {
		z.Sub(z, m)
	}
	return constBV(z, w, signed)
}

func bvArith(op string, a, b *BV) *BV {
	x, okx := a.ConstVal()
	y, oky := b.ConstVal()
	if okx && oky {
		z := new(big.Int)
		switch op {
		case "mul":
			z.Mul(x, y)
			return wrapConst(z, a.W, a.Signed)
		case "quo":
			if y.Sign() != 0 {
				z.Quo(x, y)
				return wrapConst(z, a.W, a.Signed)
			}
		case "rem":
			if y.Sign() != 0 {
				z.Rem(x, y)
				return wrapConst(z, a.W, a.Signed)
			}
		}
	}
	if op == "mul" {
		// multiplication by a power of two is a shift
		if oky && y.Sign() > 0 && new(big.Int).And(y, new(big.Int).Sub(y, big.NewInt(1))).Sign() == 0 {
			return bvShl(a, y.BitLen()-1)
		}
		if okx && x.Sign() > 0 && new(big.Int).And(x, new(big.Int).Sub(x, big.NewInt(1))).Sign() == 0 {
			return bvShl(b, x.BitLen()-1)
		}
		if (oky && y.Sign() == 0) || (okx && x.Sign() == 0) {
			return constInt(0, a.W, a.Signed)
		}
	}
	if (op == "quo") && oky && !a.Signed && y.Sign() > 0 && new(big.Int).And(y, new(big.Int).Sub(y, big.NewInt(1))).Sign() == 0 {
		return bvShr(a, y.BitLen()-1)
	}
	if op == "rem" && oky && !a.Signed && y.Sign() > 0 && new(big.Int).And(y, new(big.Int).Sub(y, big.NewInt(1))).Sign() == 0 {
		m := constBV(new(big.Int).Sub(y, big.NewInt(1)), a.W, a.Signed)
		return bvBitwise("&", a, m)
	}
	if op == "mul" && oky {
		return linBV(linOfBV(a).scale(y), a.W, a.Signed)
	}
	if op == "mul" && okx {
		return linBV(linOfBV(b).scale(x), a.W, a.Signed)
	}
	ta, tb := a.Term(), b.Term()
	if op == "mul" && ta.id > tb.id {
		ta, tb = tb, ta
	}
	sop := op
	if a.Signed && (op == "quo" || op == "rem") {
		sop = "s" + op
	}
	r := termBV(mkTerm(sop, a.W, ta, tb), a.W, a.Signed)
	// an unsigned remainder by a constant k is below k, an unsigned quotient
	// by k is at most max/k: the bits above those bounds are constant 0
	if !a.Signed && oky && y.Sign() > 0 && (op == "rem" || op == "quo") {
		keep := a.W
		if op == "rem" {
			keep = new(big.Int).Sub(y, big.NewInt(1)).BitLen()
		} else {
			max := new(big.Int).Sub(new(big.Int).Lsh(big.NewInt(1), uint(a.W)), big.NewInt(1))
			keep = max.Quo(max, y).BitLen()
		}
		if keep < a.W {
			r = &BV{W: r.W, Signed: r.Signed, Bits: append([]Bit(nil), r.Bits...)}
			for i := keep; i < r.W; i++ {
				r.Bits[i] = U.B0
			}
		}
	}
	return r
}

// bvEq returns the abstract bit a == b.
func bvEq(a, b *BV) Bit {
	if a.W == b.W && (isArith(a) || isArith(b)) && !sameBV(a, b) {
		_, ca := a.ConstVal()
		_, cb := b.ConstVal()
		if !(ca && cb) {
			ta, tb := a.Term(), b.Term()
			if ta.id > tb.id {
				ta, tb = tb, ta
			}
			return termBV(mkTerm("eq", 1, ta, tb), 1, false).Bits[0]
		}
	}
	r := U.B1
	for i := 0; i < a.W && i < b.W; i++ {
		r = band(r, bnot(bxor(a.Bits[i], b.Bits[i])))
		if isConst(r) && !r.c {
			return r
		}
	}
	return r
}

// bvLt returns the abstract bit a < b (by a's signedness).
func bvLt(a, b *BV) Bit {
	x, okx := a.ConstVal()
	y, oky := b.ConstVal()
	if okx && oky {
		return bconst(x.Cmp(y) < 0)
	}
	if sameBV(a, b) {
		return U.B0
	}
	if !a.Signed {
		if oky && y.Sign() == 0 {
			return U.B0 // x < 0 unsigned
		}
	}
	// comparisons of a plain bit vector known to be non-negative with 0 or 1
	// are equalities with zero: one canonical, bit-level form for
	// `x > 0`, `x != 0`, `x >= 1`, `!(x == 0)` and for `x < 1`, `x == 0`
	nonNeg := func(v *BV) bool {
		return !isArith(v) && (!v.Signed || (isConst(v.Bits[v.W-1]) && !v.Bits[v.W-1].c))
	}
	isZero := func(v *BV) Bit {
		r := U.B1
		for _, bit := range v.Bits {
			r = band(r, bnot(bit))
		}
		return r
	}
	switch {
	case okx && x.Sign() == 0 && nonNeg(b): // 0 < b
		return bnot(isZero(b))
	case oky && y.Sign() == 0 && nonNeg(a): // a < 0
		return U.B0
	case oky && y.IsInt64() && y.Int64() == 1 && nonNeg(a): // a < 1
		return isZero(a)
	}
	op := "lt"
	if a.Signed {
		op = "slt"
	}
	t := mkTerm(op, 1, a.Term(), b.Term())
	return termBV(t, 1, false).Bits[0]
}

func bvMux(c Bit, t, f *BV) *BV {
	if t == f {
		return t
	}
	if sameBV(t, f) {
		return t
	}
	if isConst(c) {
		if c.c {
			return t
		}
		return f
	}
	if t.W > 1 && (isArith(t) || isArith(f)) && !c.top {
		if c.c { // canonical orientation: positive condition
			c, t, f = bnot(c), f, t
		}
		ct := boolBV(c).Term()
		return termBV(mkTerm("ite", t.W, ct, t.Term(), f.Term()), t.W, t.Signed)
	}
	r := &BV{W: t.W, Signed: t.Signed, Bits: make([]Bit, t.W)}
	same := true
	for i := 0; i < t.W; i++ {
		r.Bits[i] = bmux(c, t.Bits[i], f.Bits[i])
		if t.Bits[i] != f.Bits[i] {
			same = false
		}
	}
	if same {
		return t
	}
	return r
}
