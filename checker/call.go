package main

import (
	"fmt"
	"go/types"

	"golang.org/x/tools/go/ssa"
)

func (f *frame) call(x *ssa.Call, st *State) Val {
	in := f.in
	cc := x.Common()
	args := make([]Val, len(cc.Args))
	for i, a := range cc.Args {
		args[i] = f.val(a)
	}
	rt := x.Type()
	if cc.IsInvoke() {
		recv := f.val(cc.Value)
		return in.invoke(recv, cc.Method, args, rt, st, f)
	}
	switch fn := cc.Value.(type) {
	case *ssa.Builtin:
		return in.builtin(fn.Name(), args, rt, st, cc)
	case *ssa.Function:
		return in.callStatic(fn, args, nil, rt, st, f)
	}
	fv := f.val(cc.Value)
	return in.callValue(fv, args, rt, st, f)
}

func (in *Interp) callValue(fv Val, args []Val, rt types.Type, st *State, f *frame) Val {
	switch v := fv.(type) {
	case *FuncV:
		switch fn := v.Fn.(type) {
		case *ssa.Function:
			return in.callStatic(fn, args, v.Bindings, rt, st, f)
		case *ssa.Builtin:
			return in.builtin(fn.Name(), args, rt, st, nil)
		}
	case *MuxV:
		// conditional callee: evaluate both on copies and merge
		st2 := st.clone()
		a := in.callValue(v.T, args, rt, st, f)
		b := in.callValue(v.F, args, rt, st2, f)
		*st = *in.muxState(v.C, st, st2)
		return in.muxVal(v.C, a, b)
	}
	return in.opaqueCall("dynamic", nil, args, rt, st)
}

// onStack: fn already has two activations (one level of self-recursion is
// interpreted; WritePacket restarts itself once after resetting its state).
func (in *Interp) onStack(fn *ssa.Function) bool {
	n := 0
	for _, g := range in.stack {
		if g == fn {
			n++
		}
	}
	return n >= 2
}

func (in *Interp) callStatic(fn *ssa.Function, args []Val, bindings []Val, rt types.Type, st *State, f *frame) Val {
	if in.Intrinsic != nil {
		if v, ok := in.Intrinsic(fn, args, st); ok {
			return v
		}
	}
	if fn.Blocks == nil || in.onStack(fn) || len(in.stack) >= in.MaxDepth || (in.OpaqueFn != nil && in.OpaqueFn(fn)) {
		return in.opaqueCall(fn.String(), fn, args, rt, st)
	}
	ret, out := in.Call(fn, args, bindings, st)
	if in.Fail != "" {
		return nil
	}
	if out != st {
		*st = *out
	}
	if ret == nil && rt != nil {
		if tup, ok := rt.(*types.Tuple); ok && tup.Len() == 0 {
			return nil
		}
		// callee always panics
		return in.opaque(rt, "noreturn")
	}
	return ret
}

func (in *Interp) invoke(recv Val, m *types.Func, args []Val, rt types.Type, st *State, f *frame) Val {
	switch r := recv.(type) {
	case *IfaceV:
		ms := in.P.SSA.MethodSets.MethodSet(r.T)
		sel := ms.Lookup(m.Pkg(), m.Name())
		if sel != nil {
			if fn := in.P.SSA.MethodValue(sel); fn != nil {
				return in.callStatic(fn, append([]Val{r.V}, args...), nil, rt, st, f)
			}
		}
	case *MuxV:
		st2 := st.clone()
		a := in.invoke(r.T, m, args, rt, st, f)
		b := in.invoke(r.F, m, args, rt, st2, f)
		*st = *in.muxState(r.C, st, st2)
		return in.muxVal(r.C, a, b)
	case NilV:
		in.event(Event{Kind: "panic", Note: "method call on nil interface"})
		return in.opaque(rt, "nilinvoke")
	}
	if in.InvokeHook != nil {
		if v, ok := in.InvokeHook(recv, m, args, rt, st); ok {
			return v
		}
	}
	if in.PureInvoke {
		in.event(Event{Kind: "invoke", Note: m.Name(), Args: append([]Val{recv}, args...)})
		return in.opaqueNamed(rt, m.Name(), append([]Val{recv}, args...)...)
	}
	return in.opaqueCall("invoke:"+m.FullName(), nil, append([]Val{recv}, args...), rt, st)
}

// opaqueCall models a call whose body is not analysed: the result is a fresh
// unknown, and every object reachable through pointer/slice arguments may be
// written.
func (in *Interp) opaqueCall(name string, fn *ssa.Function, args []Val, rt types.Type, st *State) Val {
	snap := make([]Val, len(args))
	for i, a := range args {
		snap[i] = in.snapshot(st, a)
	}
	pure := fn != nil && in.PureFn != nil && in.PureFn(fn)
	if !pure {
		eff := stdEffects[name]
		for i, a := range args {
			switch {
			case eff == effNone:
				continue
			case eff == effRecvOnly && i > 0:
				continue
			}
			in.havocReach(st, a)
		}
	}
	var res Val
	switch {
	case rt == nil:
	case isEmptyTuple(rt):
	case pure:
		res = in.opaqueNamed(rt, name, args...)
	default:
		res = in.opaque(rt, name)
	}
	in.event(Event{Kind: "call", Note: name, Args: snap, Val: res})
	return res
}

func isEmptyTuple(t types.Type) bool {
	tup, ok := t.(*types.Tuple)
	return ok && tup.Len() == 0
}

func (in *Interp) havocReach(st *State, v Val) {
	switch p := v.(type) {
	case *Ptr:
		in.havocObj(st, p.Obj)
	case *SliceV:
		in.havocObj(st, p.Obj)
	case *MuxV:
		in.havocReach(st, p.T)
		in.havocReach(st, p.F)
	case *IfaceV:
		in.havocReach(st, p.V)
	case *StructV:
		for _, f := range p.Fields {
			in.havocReach(st, f)
		}
	}
}

func (in *Interp) lenOf(v Val) *BV {
	switch s := v.(type) {
	case *SliceV:
		return s.Len
	case NilV:
		return constInt(0, 64, true)
	case *StrV:
		if s.Const != nil {
			return constInt(int64(len(*s.Const)), 64, true)
		}
		return termBV(mkTerm("len", 64, s.Opaque), 64, true)
	case *MuxV:
		a, b := in.lenOf(s.T), in.lenOf(s.F)
		if a != nil && b != nil {
			return bvMux(s.C, a, b)
		}
	case *StructV: // array value
		return constInt(int64(len(s.Fields)), 64, true)
	case *Ptr:
		if at, ok := s.T.Underlying().(*types.Array); ok {
			return constInt(at.Len(), 64, true)
		}
	}
	return nil
}

func (in *Interp) builtin(name string, args []Val, rt types.Type, st *State, cc *ssa.CallCommon) Val {
	switch name {
	case "len":
		if l := in.lenOf(args[0]); l != nil {
			return l
		}
		return in.opaqueNamed(rt, "len", args[0])
	case "cap":
		if s, ok := args[0].(*SliceV); ok && s.Cap != nil {
			return s.Cap
		}
		if s, ok := args[0].(*Ptr); ok {
			if at, ok := s.T.Underlying().(*types.Array); ok {
				return constInt(at.Len(), 64, true)
			}
		}
		return in.opaque(rt, "cap")
	case "copy":
		return in.copyBuiltin(args[0], args[1], st)
	case "append":
		return in.appendBuiltin(args[0], args[1], rt, st)
	case "panic":
		in.event(Event{Kind: "panic", Val: args[0]})
		return nil
	case "print", "println":
		return nil
	case "min", "max":
		if len(args) == 2 {
			a, aok := asBV(args[0])
			b, bok := asBV(args[1])
			if aok && bok {
				lt := bvLt(a, b)
				if name == "min" {
					return bvMux(lt, a, b)
				}
				return bvMux(lt, b, a)
			}
		}
	case "delete":
		in.event(Event{Kind: "mapdelete", Args: args})
		return nil
	case "ssa:wrapnilchk":
		return args[0]
	}
	return in.opaqueCall("builtin:"+name, nil, args, rt, st)
}

// copyBuiltin models copy(dst, src): exact when both windows are constant,
// otherwise the destination object loses precision and the event records the
// two windows for the rules to inspect.
func (in *Interp) copyBuiltin(dst, src Val, st *State) Val {
	d, dok := dst.(*SliceV)
	if m, ok := dst.(*MuxV); ok {
		_ = m
		in.fail("copy into conditional slice")
		return nil
	}
	if !dok {
		if _, isNil := dst.(NilV); isNil {
			return constInt(0, 64, true)
		}
		in.havocReach(st, dst)
		return in.opaque(types.Typ[types.Int], "copy")
	}
	var sLen *BV
	s, sok := src.(*SliceV)
	switch x := src.(type) {
	case *SliceV:
		sLen = x.Len
	case *StrV:
		sLen = in.lenOf(x)
	case NilV:
		return constInt(0, 64, true)
	}
	in.event(Event{Kind: "copy", Obj: d.Obj, Path: d.Prefix, Idx: d.Lo, Args: []Val{dst, src}})
	if sLen == nil {
		in.havocObj(st, d.Obj)
		return in.opaque(types.Typ[types.Int], "copy")
	}
	dl, dlok := d.Len.ConstInt()
	sl, slok := sLen.ConstInt()
	dlo, dlook := d.Lo.ConstInt()
	n := bvMux(bvLt(d.Len, sLen), d.Len, sLen)
	if dlok && slok && dlook && sok {
		if slo, ok := s.Lo.ConstInt(); ok {
			k := dl
			if sl < k {
				k = sl
			}
			vals := make([]Val, k)
			for i := int64(0); i < k; i++ {
				vals[i] = in.loadPath(st, s.Obj, joinPath(s.Prefix, int(slo+i)), s.Elem)
			}
			for i := int64(0); i < k; i++ {
				in.storePath(st, d.Obj, joinPath(d.Prefix, int(dlo+i)), d.Elem, vals[i])
			}
			return constInt(k, 64, true)
		}
	}
	if dlok && slok && dlook {
		if str, ok := src.(*StrV); ok && str.Const != nil {
			k := dl
			if sl < k {
				k = sl
			}
			for i := int64(0); i < k; i++ {
				in.storePath(st, d.Obj, joinPath(d.Prefix, int(dlo+i)), d.Elem, constInt(int64((*str.Const)[i]), 8, false))
			}
			return constInt(k, 64, true)
		}
	}
	in.havocObj(st, d.Obj)
	return n
}

func (in *Interp) appendBuiltin(a, b Val, rt types.Type, st *State) Val {
	in.event(Event{Kind: "append", Args: []Val{a, b}})
	// exact model for constant-length operands: a fresh object holding both
	al := in.lenOf(a)
	bl := in.lenOf(b)
	et := rt.Underlying().(*types.Slice).Elem()
	if al != nil && bl != nil {
		an, aok := al.ConstInt()
		bn, bok := bl.ConstInt()
		// enough known capacity: append writes into the first operand's own
		// backing array (which a caller may still hold) and returns a longer
		// window of it
		if sa, isS := a.(*SliceV); isS && aok && bok && sa.Cap != nil && bn > 0 {
			cp, cok := sa.Cap.ConstInt()
			lo, lok := sa.Lo.ConstInt()
			if cok && lok && an+bn <= cp {
				var vals []Val
				okB := true
				switch sb := b.(type) {
				case *SliceV:
					if blo, ok := sb.Lo.ConstInt(); ok {
						for i := int64(0); i < bn; i++ {
							vals = append(vals, in.loadPath(st, sb.Obj, joinPath(sb.Prefix, int(blo+i)), sb.Elem))
						}
					} else {
						okB = false
					}
				case *StrV:
					if sb.Const != nil {
						for i := int64(0); i < bn; i++ {
							vals = append(vals, constInt(int64((*sb.Const)[i]), 8, false))
						}
					} else {
						okB = false
					}
				default:
					okB = false
				}
				if okB {
					for i, v := range vals {
						in.storePath(st, sa.Obj, joinPath(sa.Prefix, int(lo+an)+i), sa.Elem, v)
					}
					if sa.Obj.Seq && sa.Prefix == "" && sa.Obj.N >= 0 && int(lo+an+bn) > sa.Obj.N && sa.Obj.Kind == "make" {
						sa.Obj.N = int(lo + an + bn)
					}
					return &SliceV{Obj: sa.Obj, Prefix: sa.Prefix, Lo: sa.Lo, Len: constInt(an+bn, 64, true), Cap: sa.Cap, Elem: sa.Elem}
				}
			}
		}
		if aok && bok {
			o := in.newObj(fmt.Sprintf("append#%d", in.nobj+1), "make", et, false)
			o.Seq = true
			o.N = int(an + bn)
			o.Len = constInt(an+bn, 64, true)
			st.born[o] = true
			okAll := true
			get := func(v Val, i int64) Val {
				switch s := v.(type) {
				case *SliceV:
					if lo, ok := s.Lo.ConstInt(); ok {
						return in.loadPath(st, s.Obj, joinPath(s.Prefix, int(lo+i)), s.Elem)
					}
				case *StrV:
					if s.Const != nil {
						return constInt(int64((*s.Const)[i]), 8, false)
					}
				}
				okAll = false
				return nil
			}
			var vals []Val
			for i := int64(0); i < an; i++ {
				vals = append(vals, get(a, i))
			}
			for i := int64(0); i < bn; i++ {
				vals = append(vals, get(b, i))
			}
			if okAll {
				for i, v := range vals {
					in.setCellDeep(st, o, joinPath("", i), et, v)
				}
				return &SliceV{Obj: o, Lo: constInt(0, 64, true), Len: o.Len, Elem: et}
			}
		}
	}
	o := in.newObj(fmt.Sprintf("append#%d", in.nobj+1), "make", et, false)
	o.Seq = true
	in.epoch++
	st.havoc[o] = in.epoch
	st.born[o] = true
	var ln *BV
	if al != nil && bl != nil {
		ln = bvAdd(al, bl, false)
	} else {
		ln = in.opaque(types.Typ[types.Int], "appendlen").(*BV)
	}
	o.Len = ln
	return &SliceV{Obj: o, Lo: constInt(0, 64, true), Len: ln, Elem: et}
}

// snapshot replaces a short constant-length slice argument by its element
// values at the time of the call (the callee may be opaque and havoc it).
func (in *Interp) snapshot(st *State, v Val) Val {
	if p, ok := v.(*Ptr); ok && p.Dyn == nil {
		if at, ok := p.T.Underlying().(*types.Array); ok && at.Len() <= 188 {
			if _, _, isInt := intWidth(at.Elem()); isInt {
				sv := &StructV{T: p.T}
				for i := 0; i < int(at.Len()); i++ {
					sv.Fields = append(sv.Fields, in.loadPath(st, p.Obj, joinPath(p.Path, p.Base+i), at.Elem()))
				}
				return &SnapV{Ptr: p, Elems: sv}
			}
		}
		return v
	}
	s, ok := v.(*SliceV)
	if !ok {
		return v
	}
	n, ok1 := s.Len.ConstInt()
	lo, ok2 := s.Lo.ConstInt()
	if !ok1 || !ok2 || n > 16 {
		return v
	}
	sv := &StructV{}
	for i := int64(0); i < n; i++ {
		sv.Fields = append(sv.Fields, in.loadPath(st, s.Obj, joinPath(s.Prefix, int(lo+i)), s.Elem))
	}
	return sv
}

// stdEffects is the intrinsic effect table for standard-library callees that
// stay opaque: which of their pointer/slice arguments they may write through.
// Anything not listed may write through every argument.
type effect int

const (
	effAll      effect = iota // default: may write through any argument
	effRecvOnly               // writes at most through the receiver (argument 0)
	effNone                   // writes through no argument
)

var stdEffects = map[string]effect{
	"(*bytes.Buffer).Write":          effRecvOnly,
	"(*bytes.Buffer).WriteString":    effRecvOnly,
	"(*bytes.Buffer).WriteByte":      effRecvOnly,
	"(*bytes.Buffer).Reset":          effRecvOnly,
	"(*bytes.Buffer).Next":           effRecvOnly,
	"(*bytes.Buffer).ReadByte":       effRecvOnly,
	"(*bytes.Buffer).UnreadByte":     effRecvOnly,
	"(*bytes.Buffer).Read":           effAll,
	"(*bytes.Buffer).Bytes":          effNone,
	"(*bytes.Buffer).Len":            effNone,
	"(*bytes.Buffer).String":         effNone,
	"bytes.NewBuffer":                effNone,
	"bytes.NewReader":                effNone,
	"bytes.Equal":                    effNone,
	"fmt.Sprintf":                    effNone,
	"fmt.Sprint":                     effNone,
	"fmt.Errorf":                     effNone,
	"fmt.Printf":                     effNone,
	"fmt.Println":                    effNone,
	"errors.New":                     effNone,
	"encoding/hex.EncodeToString":    effNone,
	"strconv.Itoa":                   effNone,
	"encoding/binary.Write":          effRecvOnly, // writes to the io.Writer (argument 0), reads data
	"strings.Join":                   effNone,
	"strings.Contains":               effNone,
	"strings.TrimPrefix":             effNone,
	"strings.Compare":                effNone,
	"strings.HasPrefix":              effNone,
	"(*strings.Builder).WriteString": effRecvOnly,
	"time.Unix":                      effNone,
	"(time.Time).Unix":               effNone,
	"(time.Time).UnixNano":           effNone,
	"(time.Time).Nanosecond":         effNone,
	"(time.Time).Before":             effNone,
	"(time.Time).After":              effNone,
	"(time.Time).Sub":                effNone,
	"(time.Time).Add":                effNone,
}
