package main

import (
	"fmt"
	"go/types"
	"os"
	"regexp"
	"strings"

	"golang.org/x/tools/go/ssa"
)

// canonkey.go: obligation keys must survive a rename of local variables and
// parameters. Constructs are rendered with source names (readable, and what
// the value-numbering keys use); before a construct becomes part of a key the
// names are replaced by positional / type-based tokens:
//
//	$name      -> $p<i>            (i-th parameter, receiver first)
//	$$name     -> $$f<i>           (i-th captured variable)
//	phi[name]  -> phi[<type>#k]    (k-th phi of that type in the function)
//	alloc[n]   -> alloc[<type>#k]
//	make[n]    -> make[<type>#k]

var canonTok = regexp.MustCompile(`\$\$?[A-Za-z_][A-Za-z0-9_]*|phi\[[^\]]*\]|alloc\[[^\]]*\]|make\[[^\]]*\]`)

var canonMaps = map[*ssa.Function]map[string]string{}

func shortType(t types.Type) string {
	return types.TypeString(t, func(p *types.Package) string { return p.Name() })
}

func canonMapOf(fn *ssa.Function) map[string]string {
	if m, ok := canonMaps[fn]; ok {
		return m
	}
	m := map[string]string{}
	for i, p := range fn.Params {
		m["$"+p.Name()] = fmt.Sprintf("$p%d", i)
	}
	for i, f := range fn.FreeVars {
		m["$$"+f.Name()] = fmt.Sprintf("$$f%d", i)
	}
	counts := map[string]int{}
	for _, b := range fn.Blocks {
		for _, ins := range b.Instrs {
			var kind string
			var v ssa.Value
			var t types.Type
			switch y := ins.(type) {
			case *ssa.Phi:
				kind, v, t = "phi", y, y.Type()
			case *ssa.Alloc:
				kind, v, t = "alloc", y, y.Type().(*types.Pointer).Elem()
			case *ssa.MakeSlice:
				kind, v, t = "make", y, y.Type()
			default:
				continue
			}
			ts := shortType(t)
			counts[kind+ts]++
			m[kind+"["+stableName(v)+"]"] = fmt.Sprintf("%s[%s#%d]", kind, ts, counts[kind+ts])
		}
	}
	canonMaps[fn] = m
	return m
}

// canonConstruct rewrites the variable names in a construct of fn.
func canonConstruct(fn *ssa.Function, s string) string {
	if fn == nil || os.Getenv("VERIF_NOCANON") != "" {
		return s
	}
	m := canonMapOf(fn)
	return canonTok.ReplaceAllStringFunc(s, func(tok string) string {
		if r, ok := m[tok]; ok {
			return r
		}
		// a closure's construct may mention names of the enclosing function
		for p := fn.Parent(); p != nil; p = p.Parent() {
			if r, ok := canonMapOf(p)[tok]; ok {
				return "^" + r
			}
		}
		return tok
	})
}

var _ = strings.Contains
