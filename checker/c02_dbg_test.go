package main

import (
	"fmt"
	"os"
	"testing"
)

func TestC02Dbg(t *testing.T) {
	U = newUniverse()
	P, err := loadProgram("/repo")
	if err != nil {
		t.Fatal(err)
	}
	c := newChecker(P, "C02", "quick", "/verif")
	var k spCase
	fmt.Sscanf(os.Getenv("C02CASE"), "%d,%d,%d,%d,%d,%d", &k.afc, &k.shape.L, &k.shape.P, &k.shape.n, &k.shape.m, &k.n)
	ok, d := c.checkSetPayload(k)
	t.Logf("%s: ok=%v %s", k, ok, d)
}
