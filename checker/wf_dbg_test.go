package main

import (
	"os"
	"strings"
	"testing"
)

func TestWriteFreeDbg(t *testing.T) {
	U = newUniverse()
	P, err := loadProgram("/repo")
	if err != nil {
		t.Fatal(err)
	}
	B := newBounds(P)
	for _, name := range strings.Split(os.Getenv("WFN"), ";") {
		fn, err := P.Func(name)
		if err != nil {
			t.Log(err)
			continue
		}
		t.Logf("%s writeFree=%v", name, B.writeFree(fn))
		for _, b := range fn.Blocks {
			for _, ins := range b.Instrs {
				if !B.insWriteFree(ins) {
					t.Logf("   not write-free: %s at %s", ins, P.Pos(ins.Pos()))
				}
			}
		}
	}
}
