package main

// Abstract interpreter over go/ssa for the bit-provenance domain (E1/E4).
//
// Forward dataflow over the acyclic control-flow graph of a function, blocks
// in reverse post-order, abstract state joined at merge points. The join is
// the γ-join of DESIGN.md §2-E1: where two incoming values differ, the result
// is mux(c, v1, v2) with c the (dominator-relative) condition of the incoming
// edge; no path condition is accumulated beyond the branch conditions that
// actually separate the merged edges, and nothing is handed to a solver.
// Loops are evaluated only when every iteration's control decisions are
// compile-time constants under constant propagation (full unrolling, as a
// compiler would do); any other loop makes the summary "failed" (undecided).
// Static callees are inlined to a bounded depth with constants propagated.

import (
	"fmt"
	"go/token"
	"go/types"
	"strings"

	"golang.org/x/tools/go/ssa"
)

type Event struct {
	Kind string // "store", "dynstore", "copy", "call", "panic", "index", "havoc", "append"
	Obj  *Obj
	Path string
	Idx  *BV
	Val  Val
	Cond Bit
	Pos  token.Pos
	Fn   *ssa.Function
	Note string
	Args []Val
}

type Interp struct {
	P        *Program
	nobj     int
	epoch    int
	lazy     map[string]*Obj
	events   []Event
	MaxDepth int
	MaxSteps int
	steps    int
	stack    []*ssa.Function
	condStk  []Bit
	Fail     string
	// OpaqueFn, when non-nil and returning true, keeps a static callee opaque.
	OpaqueFn func(fn *ssa.Function) bool
	// PureFn: opaque callees whose result is a function of the argument terms.
	PureFn  func(fn *ssa.Function) bool
	globals map[*ssa.Global]*Obj
	// PureInvoke: method calls on unknown interface values are modelled as
	// pure functions of receiver and arguments (getter assumption).
	PureInvoke bool
	// WrapEq: equalities of integers wider than 4 bits become one named atom
	// (with its definition kept), so residual formulas stay small.
	WrapEq bool
	// MapLen: assumed number of entries of an opaque map that is ranged over
	// (-1: unknown, ranging fails).
	MapLen int
	// TermEq: equalities of wide integers become eq(term, term) atoms, so the
	// constants compared against stay visible to the rules.
	TermEq bool
	// hooks for rule-specific modelling
	MapLookup  func(f *frame, x *ssa.Lookup, st *State) Val
	Intrinsic  func(fn *ssa.Function, args []Val, st *State) (Val, bool)
	InvokeHook func(recv Val, m *types.Func, args []Val, rt types.Type, st *State) (Val, bool)
	curPos     token.Pos
	curFn      *ssa.Function
	initMode   bool
}

func newInterp(P *Program) *Interp {
	in := &Interp{P: P, lazy: map[string]*Obj{}, MaxDepth: 8, MaxSteps: 400000, globals: map[*ssa.Global]*Obj{}, MapLen: -1}
	in.OpaqueFn = defaultOpaque
	return in
}

func (in *Interp) fail(format string, a ...interface{}) {
	if in.Fail == "" {
		in.Fail = fmt.Sprintf(format, a...)
		if in.curFn != nil {
			in.Fail += " in " + in.curFn.String() + " at " + in.P.Pos(in.curPos)
		}
	}
}

func (in *Interp) curCond() Bit {
	c := U.B1
	for _, x := range in.condStk {
		c = band(c, x)
	}
	return c
}

func (in *Interp) event(e Event) {
	e.Cond = in.curCond()
	e.Pos = in.curPos
	e.Fn = in.curFn
	in.events = append(in.events, e)
}

// Summary is the result of analysing one function from symbolic inputs.
type Summary struct {
	Fn      *ssa.Function
	Params  []Val
	Ret     Val // nil, a single value, or *StructV for tuples
	Out     *State
	Init    *State // state at entry (after seeding)
	Events  []Event
	Failed  string
	in      *Interp
	PanicIf Bit // condition under which an explicit panic is reached
}

type edgeKey struct{ from, to int }

type frame struct {
	in       *Interp
	fn       *ssa.Function
	env      map[ssa.Value]Val
	out      map[int]*State  // block index -> state at block end
	bc       map[edgeKey]Bit // branch condition of edge
	local    map[int]Bit     // reach condition relative to idom
	live     map[int]bool    // block was reached
	rets     []retArrival
	loops    map[int]map[int]bool // header -> body set
	loopExt  map[int]map[int]bool // header -> body plus terminal exit subtrees
	rpo      []*ssa.BasicBlock
	rpoIx    map[int]int
	panicIf  Bit
	refs     map[int]map[*Source]*BV // block -> equalities source==const known to hold there
	facts    map[int]*factSet        // block -> literal facts known to hold there
	cur      *ssa.BasicBlock
	hdrPreds []*ssa.BasicBlock
}

type retArrival struct {
	blk  *ssa.BasicBlock
	vals []Val
	st   *State
	w    Bit // condition of reaching this return, from function entry
}

func rpoOrder(fn *ssa.Function) []*ssa.BasicBlock {
	seen := map[int]bool{}
	var post []*ssa.BasicBlock
	var dfs func(b *ssa.BasicBlock)
	dfs = func(b *ssa.BasicBlock) {
		seen[b.Index] = true
		for _, s := range b.Succs {
			if !seen[s.Index] {
				dfs(s)
			}
		}
		post = append(post, b)
	}
	dfs(fn.Blocks[0])
	for i, j := 0, len(post)-1; i < j; i, j = i+1, j-1 {
		post[i], post[j] = post[j], post[i]
	}
	return post
}

func (f *frame) findLoops() {
	f.loops = map[int]map[int]bool{}
	for _, b := range f.rpo {
		for _, s := range b.Succs {
			if s.Dominates(b) { // back edge b -> s
				body := f.loops[s.Index]
				if body == nil {
					body = map[int]bool{s.Index: true}
					f.loops[s.Index] = body
				}
				// natural loop: all blocks that reach b without passing s
				var stack []*ssa.BasicBlock
				if !body[b.Index] {
					body[b.Index] = true
					stack = append(stack, b)
				}
				for len(stack) > 0 {
					x := stack[len(stack)-1]
					stack = stack[:len(stack)-1]
					for _, p := range x.Preds {
						if !body[p.Index] {
							body[p.Index] = true
							stack = append(stack, p)
						}
					}
				}
			}
		}
	}
}

func (f *frame) computeLoopExt() {
	f.loopExt = map[int]map[int]bool{}
	for h, body := range f.loops {
		ext := map[int]bool{}
		for i := range body {
			ext[i] = true
		}
		for i := range body {
			for _, y := range f.fn.Blocks[i].Succs {
				if body[y.Index] || ext[y.Index] {
					continue
				}
				if sub := f.terminalSubtree(y, body); sub != nil {
					for k := range sub {
						ext[k] = true
					}
				}
			}
		}
		f.loopExt[h] = ext
	}
}

// Call analyses fn with the given arguments in state st (which it may
// update) and returns the merged result value.
func (in *Interp) Call(fn *ssa.Function, args []Val, bindings []Val, st *State) (Val, *State) {
	if fn.Blocks == nil {
		in.fail("no body for %s", fn)
		return nil, st
	}
	f := &frame{in: in, fn: fn, env: map[ssa.Value]Val{}, out: map[int]*State{}, bc: map[edgeKey]Bit{},
		local: map[int]Bit{}, live: map[int]bool{}, rpoIx: map[int]int{}, panicIf: U.B0, refs: map[int]map[*Source]*BV{}, facts: map[int]*factSet{}}
	for i, p := range fn.Params {
		if i < len(args) {
			f.env[p] = args[i]
		}
	}
	for i, fv := range fn.FreeVars {
		if i < len(bindings) {
			f.env[fv] = bindings[i]
		}
	}
	f.rpo = rpoOrder(fn)
	for i, b := range f.rpo {
		f.rpoIx[b.Index] = i
	}
	f.findLoops()
	f.computeLoopExt()
	in.stack = append(in.stack, fn)
	savedFn, savedPos := in.curFn, in.curPos
	in.curFn = fn
	defer func() {
		in.stack = in.stack[:len(in.stack)-1]
		in.curFn, in.curPos = savedFn, savedPos
	}()

	all := map[int]bool{}
	for _, b := range f.rpo {
		all[b.Index] = true
	}
	f.local[fn.Blocks[0].Index] = U.B1
	f.runRegion(all, -1, st, nil)
	if in.Fail != "" {
		return nil, st
	}
	return f.mergeReturns(st)
}

// liveIn lists the live incoming edges of block b restricted by filter.
func (f *frame) liveIn(b *ssa.BasicBlock, filter func(p *ssa.BasicBlock) bool) []*ssa.BasicBlock {
	var out []*ssa.BasicBlock
	seen := map[int]bool{}
	for _, p := range b.Preds {
		if seen[p.Index] {
			continue
		}
		seen[p.Index] = true
		if !f.live[p.Index] || f.out[p.Index] == nil {
			continue
		}
		if filter != nil && !filter(p) {
			continue
		}
		c := f.bc[edgeKey{p.Index, b.Index}]
		if c == nil || (isConst(c) && !c.c) {
			continue
		}
		out = append(out, p)
	}
	return out
}

// chain is the condition of reaching block q given that its dominator d was
// reached.
func (f *frame) chain(q *ssa.BasicBlock, d *ssa.BasicBlock) Bit {
	c := U.B1
	for x := q; x != nil && x != d; x = x.Idom() {
		l := f.local[x.Index]
		if l == nil {
			l = U.B1
		}
		c = band(c, l)
	}
	return c
}

// allReach reports whether every live path from d reaches x (no return, panic
// or loop on the way).
func (f *frame) allReach(d, x *ssa.BasicBlock) bool {
	seen := map[int]bool{}
	var dfs func(b *ssa.BasicBlock) bool
	dfs = func(b *ssa.BasicBlock) bool {
		if b == x {
			return true
		}
		if seen[b.Index] {
			return true
		}
		seen[b.Index] = true
		n := 0
		for _, s := range b.Succs {
			c := f.bc[edgeKey{b.Index, s.Index}]
			if c != nil && isConst(c) && !c.c {
				continue
			}
			if c == nil {
				// not yet evaluated edge (should not happen in RPO order)
				return false
			}
			if s.Dominates(b) && s != x {
				return false // back edge
			}
			n++
			if !dfs(s) {
				return false
			}
		}
		return n > 0
	}
	return dfs(d)
}

// runRegion evaluates the blocks of region (a set of block indices) in RPO
// order. header >= 0 marks a loop body being evaluated for one iteration:
// the header's incoming state/phi selection is supplied by the caller through
// hdrPreds (the predecessor blocks to consider).
func (f *frame) runRegion(region map[int]bool, header int, entry *State, hdrPreds []*ssa.BasicBlock) {
	in := f.in
	for _, b := range f.rpo {
		if !region[b.Index] || in.Fail != "" {
			continue
		}
		if f.inInnerLoop(b, header, region) {
			continue
		}
		if body, isLoop := f.loops[b.Index]; isLoop && b.Index != header {
			// nested (or top-level) loop: evaluate as a unit
			f.runLoop(b, body, entry)
			continue
		}
		var st *State
		var preds []*ssa.BasicBlock
		switch {
		case b.Index == header:
			st = entry // joined by runLoop
		case b == f.fn.Blocks[0]:
			st = entry
		default:
			preds = f.liveIn(b, nil)
			if len(preds) == 0 {
				f.live[b.Index] = false
				continue
			}
			st = f.joinAt(b, preds, false)
		}
		if in.Fail != "" {
			return
		}
		f.live[b.Index] = true
		if b.Index == header {
			preds = f.hdrPreds
		}
		f.computeRefs(b, preds)
		f.execBlock(b, st)
	}
}

// inInnerLoop: b belongs to a loop in this region (other than the one being
// iterated) without being its header: it is evaluated by runLoop, not here.
func (f *frame) inInnerLoop(b *ssa.BasicBlock, header int, region map[int]bool) bool {
	for h := range f.loops {
		if h == header || h == b.Index || !region[h] {
			continue
		}
		if f.loopExt[h][b.Index] {
			return true
		}
	}
	return false
}

// joinAt computes the state at entry of b from its live predecessors and
// assigns b's phi nodes.
func (f *frame) joinAt(b *ssa.BasicBlock, preds []*ssa.BasicBlock, isHeaderIter bool) *State {
	in := f.in
	if len(preds) == 0 {
		in.fail("internal: join with no predecessors at block %d", b.Index)
		return newState()
	}
	d := b.Idom()
	// weights
	ws := make([]Bit, len(preds))
	for i, p := range preds {
		ws[i] = band(f.chain(p, d), f.bc[edgeKey{p.Index, b.Index}])
	}
	wsFold := simplifyChain(ws)
	if !isHeaderIter || f.local[b.Index] == nil {
		if len(preds) == 1 && preds[0] == d {
			f.local[b.Index] = ws[0]
		} else if d != nil && f.allReach(d, b) {
			f.local[b.Index] = U.B1
		} else {
			l := U.B0
			for _, w := range ws {
				l = bxor(l, w)
			}
			if len(preds) == 1 {
				l = ws[0]
			}
			f.local[b.Index] = l
		}
	}
	// phis
	var phiVals []Val
	var phis []*ssa.Phi
	for _, ins := range b.Instrs {
		phi, ok := ins.(*ssa.Phi)
		if !ok {
			break
		}
		phis = append(phis, phi)
		var v Val
		for i := len(preds) - 1; i >= 0; i-- {
			pi := predIndex(b, preds[i])
			saved := f.cur
			f.cur = preds[i] // facts of the predecessor hold along its edge
			ev := f.val(phi.Edges[pi])
			f.cur = saved
			if v == nil {
				v = ev
			} else {
				v = in.muxVal(wsFold[i], ev, v)
			}
		}
		phiVals = append(phiVals, v)
	}
	for i, phi := range phis {
		f.env[phi] = phiVals[i]
	}
	// state
	if len(preds) == 1 {
		p := preds[0]
		nlive := 0
		for _, s := range p.Succs {
			c := f.bc[edgeKey{p.Index, s.Index}]
			if c != nil && !(isConst(c) && !c.c) {
				nlive++
			}
		}
		if nlive == 1 {
			return f.out[p.Index]
		}
		return f.out[p.Index].clone()
	}
	st := f.out[preds[len(preds)-1].Index].clone()
	for i := len(preds) - 2; i >= 0; i-- {
		st = in.muxState(wsFold[i], f.out[preds[i].Index], st)
	}
	return st
}

func predIndex(b, p *ssa.BasicBlock) int {
	for i, q := range b.Preds {
		if q == p {
			return i
		}
	}
	return -1
}

// runLoop evaluates a loop whose control flow is constant in every iteration.
func (f *frame) runLoop(h *ssa.BasicBlock, body map[int]bool, entry *State) {
	in := f.in
	outside := f.liveIn(h, func(p *ssa.BasicBlock) bool { return !body[p.Index] })
	if len(outside) == 0 {
		for i := range body {
			f.live[i] = false
		}
		return
	}
	// extended body: exit targets reached only from the loop whose dominated
	// subtree ends in return/panic ("terminal exits", e.g. `return x` inside a
	// search loop) are evaluated with the iteration that reaches them.
	ext := f.loopExt[h.Index]
	hdrState := f.joinAt(h, outside, false)
	hdrPreds := outside
	nonconstIters := 0
	for iter := 0; ; iter++ {
		if in.Fail != "" {
			return
		}
		if iter > 100000 || nonconstIters > 64 {
			in.curPos = firstPos(h)
			in.fail("loop at block %d of %s: trip count is not a compile-time constant (gave up after %d iterations)", h.Index, f.fn, iter)
			return
		}
		// reset per-iteration facts of body blocks (except header's local)
		for i := range ext {
			if i != h.Index {
				delete(f.local, i)
			}
			f.live[i] = false
			delete(f.out, i)
			for k := range f.bc {
				if k.from == i {
					delete(f.bc, k)
				}
			}
		}
		f.hdrPreds = hdrPreds
		f.runRegion(ext, h.Index, hdrState, nil)
		if in.Fail != "" {
			return
		}
		// live edges leaving the iteration
		var back []*ssa.BasicBlock
		backW := U.B0
		nexit := 0
		for i := range body {
			if !f.live[i] {
				continue
			}
			blk := f.fn.Blocks[i]
			for _, s := range blk.Succs {
				c := f.bc[edgeKey{i, s.Index}]
				if c == nil || (isConst(c) && !c.c) {
					continue
				}
				if s != h && ext[s.Index] {
					continue // edge inside the iteration
				}
				w := band(f.chain(blk, h), c)
				if isConst(w) && !w.c {
					continue
				}
				if s == h {
					back = append(back, blk)
					backW = bxor(backW, w)
				} else {
					nexit++
				}
			}
		}
		if len(back) == 0 {
			return // left through exits / returns of this (last) iteration
		}
		if nexit > 0 {
			// the loop may be left towards the code after it in a non-final
			// iteration: the join after the loop would need every iteration's
			// state, which this domain does not keep
			in.curPos = firstPos(h)
			in.fail("loop at block %d of %s can exit to the following code from a non-final iteration (iteration %d)", h.Index, f.fn, iter)
			return
		}
		if !isConst(backW) {
			nonconstIters++
		}
		hdrState = f.joinAt(h, back, true)
		hdrPreds = back
		f.local[h.Index] = band(f.local[h.Index], backW)
	}
}

// terminalSubtree returns the blocks dominated by y if y is entered only from
// the loop body and every path from y stays in that subtree until it returns
// or panics; nil otherwise.
func (f *frame) terminalSubtree(y *ssa.BasicBlock, body map[int]bool) map[int]bool {
	for _, p := range y.Preds {
		if !body[p.Index] {
			return nil
		}
	}
	sub := map[int]bool{}
	var collect func(b *ssa.BasicBlock)
	collect = func(b *ssa.BasicBlock) {
		sub[b.Index] = true
		for _, d := range b.Dominees() {
			collect(d)
		}
	}
	collect(y)
	for i := range sub {
		if _, isLoop := f.loops[i]; isLoop {
			return nil
		}
		for _, s := range f.fn.Blocks[i].Succs {
			if !sub[s.Index] {
				return nil
			}
		}
	}
	return sub
}

func firstPos(b *ssa.BasicBlock) token.Pos {
	for _, ins := range b.Instrs {
		if ins.Pos().IsValid() {
			return ins.Pos()
		}
	}
	return token.NoPos
}

func (f *frame) mergeReturns(st *State) (Val, *State) {
	in := f.in
	if len(f.rets) == 0 {
		// every path panics
		return nil, st
	}
	n := len(f.rets)
	ws := make([]Bit, n)
	for i, r := range f.rets {
		ws[i] = r.w
	}
	ws = simplifyChain(ws)
	last := f.rets[n-1]
	vals := append([]Val(nil), last.vals...)
	out := last.st
	for i := n - 2; i >= 0; i-- {
		r := f.rets[i]
		for k := range vals {
			vals[k] = in.muxVal(ws[i], r.vals[k], vals[k])
		}
		out = in.muxState(ws[i], r.st, out)
	}
	switch len(vals) {
	case 0:
		return nil, out
	case 1:
		return vals[0], out
	}
	return &StructV{Fields: vals, T: f.fn.Signature.Results()}, out
}

// ---------------------------------------------------------------- merging

func sameVal(a, b Val) bool {
	if a == b {
		return true
	}
	switch x := a.(type) {
	case *BV:
		y, ok := b.(*BV)
		return ok && sameBV(x, y)
	case NilV:
		_, ok := b.(NilV)
		return ok
	case SymConst:
		y, ok := b.(SymConst)
		return ok && x.Name == y.Name
	case *Ptr:
		y, ok := b.(*Ptr)
		if !ok || x.Obj != y.Obj || x.Path != y.Path || x.Base != y.Base {
			return false
		}
		if (x.Dyn == nil) != (y.Dyn == nil) {
			return false
		}
		return x.Dyn == nil || sameBV(x.Dyn, y.Dyn)
	case *SliceV:
		y, ok := b.(*SliceV)
		if !ok || x.Obj != y.Obj || x.Prefix != y.Prefix {
			return false
		}
		return sameBV(x.Lo, y.Lo) && sameBV(x.Len, y.Len)
	case *StructV:
		y, ok := b.(*StructV)
		if !ok || len(x.Fields) != len(y.Fields) {
			return false
		}
		for i := range x.Fields {
			if !sameVal(x.Fields[i], y.Fields[i]) {
				return false
			}
		}
		return true
	case *IfaceV:
		y, ok := b.(*IfaceV)
		return ok && types.Identical(x.T, y.T) && sameVal(x.V, y.V)
	case *StrV:
		y, ok := b.(*StrV)
		if !ok {
			return false
		}
		if x.Const != nil && y.Const != nil {
			return *x.Const == *y.Const
		}
		return x.Opaque != nil && x.Opaque == y.Opaque
	case *MuxV:
		y, ok := b.(*MuxV)
		return ok && x.C == y.C && sameVal(x.T, y.T) && sameVal(x.F, y.F)
	case *FuncV:
		y, ok := b.(*FuncV)
		return ok && x.Fn == y.Fn && len(x.Bindings) == 0 && len(y.Bindings) == 0
	case *MapV:
		y, ok := b.(*MapV)
		return ok && x.Obj == y.Obj
	case *OpaqueV:
		y, ok := b.(*OpaqueV)
		return ok && x.Why == y.Why
	}
	return false
}

func (in *Interp) muxVal(c Bit, t, f Val) Val {
	if isConst(c) {
		if c.c {
			return t
		}
		return f
	}
	if sameVal(t, f) {
		return t
	}
	if t == nil || f == nil {
		if t == nil {
			return f
		}
		return t
	}
	switch x := t.(type) {
	case *BV:
		if y, ok := f.(*BV); ok && x.W == y.W {
			return bvMux(c, x, y)
		}
	case *StructV:
		if y, ok := f.(*StructV); ok && len(x.Fields) == len(y.Fields) {
			r := &StructV{T: x.T, Fields: make([]Val, len(x.Fields))}
			for i := range x.Fields {
				r.Fields[i] = in.muxVal(c, x.Fields[i], y.Fields[i])
			}
			return r
		}
	case *SliceV:
		if y, ok := f.(*SliceV); ok && x.Obj == y.Obj && x.Prefix == y.Prefix {
			return &SliceV{Obj: x.Obj, Prefix: x.Prefix, Lo: bvMux(c, x.Lo, y.Lo), Len: bvMux(c, x.Len, y.Len), Elem: x.Elem}
		}
	}
	if c.c {
		return &MuxV{C: bnot(c), T: f, F: t}
	}
	return &MuxV{C: c, T: t, F: f}
}

func (in *Interp) muxState(c Bit, t, f *State) *State {
	if t == f {
		return t
	}
	out := f.clone()
	objs := map[*Obj]bool{}
	for o := range t.cells {
		objs[o] = true
	}
	for o := range f.cells {
		objs[o] = true
	}
	for o := range t.havoc {
		objs[o] = true
	}
	for o := range f.havoc {
		objs[o] = true
	}
	for o := range t.born {
		out.born[o] = true
	}
	for o, es := range t.ment {
		if len(es) != len(f.ment[o]) {
			// entries added on one side only: keep them, they carry their own
			// condition
			if len(es) > len(f.ment[o]) {
				out.ment[o] = append([]mapEntry(nil), es...)
			}
		}
	}
	for o := range objs {
		if t.born[o] != f.born[o] {
			// the object exists on one side only: its contents are that side's
			src := t
			if f.born[o] {
				src = f
			}
			delete(out.cells, o)
			delete(out.havoc, o)
			if m := src.cells[o]; m != nil {
				mm := make(map[string]Val, len(m))
				for k, v := range m {
					mm[k] = v
				}
				out.cells[o] = mm
			}
			if h := src.havoc[o]; h > 0 {
				out.havoc[o] = h
			}
			out.dirty[o] = src.dirty[o]
			continue
		}
		if t.havoc[o] != f.havoc[o] {
			// one side lost precision on this object: the join loses it too
			in.epoch++
			out.havoc[o] = in.epoch
			out.dirty[o] = true
			delete(out.cells, o)
			continue
		}
		if t.dirty[o] {
			out.dirty[o] = true
		}
		keys := map[string]bool{}
		for k := range t.cells[o] {
			keys[k] = true
		}
		for k := range f.cells[o] {
			keys[k] = true
		}
		for k := range keys {
			tv, tok := t.cells[o][k]
			fv, fok := f.cells[o][k]
			if !tok || !fok {
				typ := in.leafType(o, k)
				if typ == nil {
					in.fail("internal: cannot type cell %s[%s]", o.Name, k)
					continue
				}
				if !tok {
					tv = in.leafInit(t, o, k, typ)
				}
				if !fok {
					fv = in.leafInit(f, o, k, typ)
				}
			}
			in.setCell(out, o, k, in.muxVal(c, tv, fv))
		}
	}
	return out
}

// leafType finds the type of the leaf at path inside o.
func (in *Interp) leafType(o *Obj, path string) types.Type {
	t := o.T
	if path == "" || o.Kind == "map" {
		return t
	}
	parts := splitPath(path)
	if o.Seq {
		parts = parts[1:]
	}
	for _, i := range parts {
		t = compType(t, i)
		if t == nil {
			return nil
		}
	}
	return t
}

func splitPath(p string) []int {
	var out []int
	n := 0
	has := false
	for i := 0; i <= len(p); i++ {
		if i == len(p) || p[i] == '.' {
			if has {
				out = append(out, n)
			}
			n, has = 0, false
			continue
		}
		n = n*10 + int(p[i]-'0')
		has = true
	}
	return out
}

// computeRefs derives the equalities "input source == constant" that hold in
// b: those of its immediate dominator plus the one asserted by the single
// live edge into b when that edge's condition is eq(source, const).
func (f *frame) computeRefs(b *ssa.BasicBlock, preds []*ssa.BasicBlock) {
	var r map[*Source]*BV
	if d := b.Idom(); d != nil {
		r = f.refs[d.Index]
	}
	if len(preds) == 1 {
		c := f.bc[edgeKey{preds[0].Index, b.Index}]
		if src, k := eqSourceConst(c); src != nil {
			nr := map[*Source]*BV{}
			for s, v := range r {
				nr[s] = v
			}
			for s, v := range f.refs[preds[0].Index] {
				nr[s] = v
			}
			nr[src] = k
			r = nr
		} else if pr := f.refs[preds[0].Index]; len(pr) > len(r) {
			r = pr
		}
	}
	f.refs[b.Index] = r
	// literal facts
	var pf *factSet
	if d := b.Idom(); d != nil {
		pf = f.facts[d.Index]
	}
	if len(preds) == 1 {
		if q := f.facts[preds[0].Index]; q != nil && (pf == nil || len(q.atoms) > len(pf.atoms)) {
			pf = q
		}
		c := f.bc[edgeKey{preds[0].Index, b.Index}]
		if c != nil && !isConst(c) && !c.top {
			nf := newFactSet(pf)
			if nf.assume(c) {
				pf = nf
			}
		}
	}
	f.facts[b.Index] = pf
}

// eqSourceConst recognises the bit eq(all bits of one source, const).
func eqSourceConst(c Bit) (*Source, *BV) {
	if c == nil || c.top || c.c || len(c.atoms) != 1 {
		return nil, nil
	}
	a := U.atoms[c.atoms[0]]
	if a.kind != aSrc || a.src.Term == nil || a.src.Term.Op != "eq" {
		return nil, nil
	}
	t := a.src.Term
	x, y := t.Args[0], t.Args[1]
	if x.Op == "const" {
		x, y = y, x
	}
	if y.Op != "const" || x.Op != "bits" || x.bv == nil {
		return nil, nil
	}
	var src *Source
	for i, b := range x.bv.Bits {
		if b.top || b.c || len(b.atoms) != 1 {
			return nil, nil
		}
		at := U.atoms[b.atoms[0]]
		if at.kind != aSrc || at.bit != i || (src != nil && at.src != src) {
			return nil, nil
		}
		src = at.src
	}
	if src == nil || src.Width != x.bv.W {
		return nil, nil
	}
	return src, constBV(y.K, src.Width, false)
}

func refineVal(v Val, r map[*Source]*BV) Val {
	switch x := v.(type) {
	case *BV:
		return refineBV(x, r)
	case *SliceV:
		lo, ln := refineBV(x.Lo, r), refineBV(x.Len, r)
		if lo != x.Lo || ln != x.Len {
			return &SliceV{Obj: x.Obj, Prefix: x.Prefix, Lo: lo, Len: ln, Cap: x.Cap, Elem: x.Elem}
		}
	}
	return v
}

func refineBV(v *BV, r map[*Source]*BV) *BV {
	if v == nil || v.W == 0 {
		return v
	}
	b := v.Bits[0]
	if b.top || b.c || len(b.atoms) != 1 {
		return v
	}
	a := U.atoms[b.atoms[0]]
	if a.kind != aSrc || a.bit != 0 {
		return v
	}
	k, ok := r[a.src]
	if !ok || a.src.Width != v.W {
		return v
	}
	for i, bb := range v.Bits {
		if bb != U.srcBit(a.src, i) {
			return v
		}
	}
	return &BV{W: v.W, Signed: v.Signed, Bits: k.Bits}
}

// defaultOpaque: only gots code and the byte-order helpers of encoding/binary
// are interpreted; every other standard-library callee stays an opaque call.
func defaultOpaque(fn *ssa.Function) bool {
	pk := fn.Pkg
	if pk == nil && fn.Parent() != nil {
		pk = fn.Parent().Pkg
	}
	if pk == nil {
		// synthetic wrappers / instantiations: judge by the receiver's package
		if recv := fn.Signature.Recv(); recv != nil {
			if n, ok := derefNamed(recv.Type()); ok && n.Obj().Pkg() != nil {
				p := n.Obj().Pkg().Path()
				return !(p == modPath || strings.HasPrefix(p, modPath+"/") || p == "encoding/binary")
			}
		}
		return true
	}
	p := pk.Pkg.Path()
	if p == modPath || strings.HasPrefix(p, modPath+"/") {
		return false
	}
	if p == "encoding/binary" {
		n := fn.Name()
		return !(strings.HasPrefix(n, "Uint") || strings.HasPrefix(n, "PutUint"))
	}
	return true
}

func derefNamed(t types.Type) (*types.Named, bool) {
	if p, ok := t.(*types.Pointer); ok {
		t = p.Elem()
	}
	n, ok := t.(*types.Named)
	return n, ok
}

// simplifyChain prepares mutually exclusive conditions w0, w1, … for the fold
// mux(w0, v0, mux(w1, v1, …)): inside the else-branch of w0..w(i-1) those are
// known false, so conjuncts of wi that are implied by their negations are
// dropped (¬c0∧c1 becomes c1 after c0). The fold's meaning is unchanged.
func simplifyChain(ws []Bit) []Bit {
	out := make([]Bit, len(ws))
	known := map[int32]bool{} // ids of bits known true
	for i, w := range ws {
		fs := factors(w)
		if len(known) > 0 && !w.top && len(fs) > 1 {
			r := U.B1
			for _, f := range fs {
				if known[f.id] {
					continue
				}
				r = band(r, f)
			}
			w = r
		} else if len(known) > 0 && known[w.id] {
			w = U.B1
		}
		out[i] = w
		if !w.top {
			known[bnot(w).id] = true
		}
	}
	return out
}
