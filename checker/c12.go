package main

import (
	"fmt"
	"go/types"
	"strings"

	"golang.org/x/tools/go/ssa"
)

// C12: EBP codec. ReadEncoderBoundaryPoint and Data() are abstractly
// interpreted (bytes.Buffer / binary.Write model) on a family of EBP layouts:
// flavour, the layout-deciding flag bits, the grouping chain and the number of
// trailing reserved bytes are constants, every value is symbolic. The time
// conversion is decided on the formulas extracted from insertUtcTime and
// extractUtcTime (c12time.go).

type ebpShape struct {
	cable                               bool
	ext, sap, grouping, time, partition bool
	groups                              []int // grouping ids: constant 0..127, or -1 symbolic
	reserved                            int
}

func (s ebpShape) String() string {
	fl := "Comcast"
	if s.cable {
		fl = "CableLabs"
	}
	var fs []string
	for _, f := range []struct {
		on bool
		n  string
	}{{s.ext, "extension"}, {s.partition, "partition"}, {s.sap, "sap"}, {s.grouping, fmt.Sprintf("grouping%v", s.groups)}, {s.time, "time"}} {
		if f.on {
			fs = append(fs, f.n)
		}
	}
	return fmt.Sprintf("%s [%s] +%d reserved", fl, strings.Join(fs, " "), s.reserved)
}

// encode: the EBP bytes of the shape over input object obj (vals == nil) or
// for given field values.
func (s ebpShape) encode(obj string, vals map[string][]Bit) (cells []*BV, out map[string][]Bit) {
	w := &bitw{obj: obj}
	out = map[string][]Bit{}
	f := func(name string, n int) []Bit {
		var bs []Bit
		if vals == nil {
			bs = w.sym(n)
		} else {
			bs = vals[name]
			if bs == nil {
				bs = zeroBits(n)
			}
			w.put(bs)
		}
		out[name] = bs
		return bs
	}
	if s.cable {
		w.constBits(0xDF, 8)
	} else {
		w.constBits(0xA9, 8)
	}
	lenAt := len(w.bits)
	w.constBits(0, 8)
	start := w.bytePos()
	if s.cable {
		f("format", 32)
	}
	f("fragment", 1)
	f("segment", 1)
	w.constBits(uint64(b2i(s.sap)), 1)
	w.constBits(uint64(b2i(s.grouping)), 1)
	w.constBits(uint64(b2i(s.time)), 1)
	f("flag04", 1)
	f("flag02", 1)
	w.constBits(uint64(b2i(s.ext)), 1)
	if s.ext {
		if s.cable {
			w.constBits(uint64(b2i(s.partition)), 1)
			f("ext7", 7)
		} else {
			f("ext8", 8)
		}
	}
	if s.sap {
		f("sapType", 8)
	}
	if s.grouping {
		for i, g := range s.groups {
			name := fmt.Sprintf("group%d", i)
			width := 8
			if s.cable {
				w.constBits(uint64(b2i(i < len(s.groups)-1)), 1)
				width = 7
			}
			if g >= 0 {
				w.constBits(uint64(g), width)
				out[name] = constMSB(uint64(g), width)
			} else {
				f(name, width)
			}
		}
	}
	if s.time {
		f("seconds", 32)
		f("fraction", 32)
	}
	if s.cable && s.ext && s.partition {
		f("partitionFlags", 8)
	}
	for i := 0; i < s.reserved; i++ {
		f(fmt.Sprintf("reserved%d", i), 8)
	}
	w.patch(lenAt, uint64(w.bytePos()-start), 8)
	return w.cells(), out
}

func ebpShapes(thorough bool) []ebpShape {
	var out []ebpShape
	groupSets := [][]int{{-1}, {0x1C}, {0x1D}, {0x05, 0x1D}, {-1, -1}, {0x1D, 0x1C, 0x00}, {0x7F, -1, 0x1C}}
	for _, cable := range []bool{false, true} {
		for m := 0; m < 32; m++ {
			s := ebpShape{cable: cable, ext: m&1 != 0, sap: m&2 != 0, grouping: m&4 != 0, time: m&8 != 0, partition: m&16 != 0}
			if s.partition && !(cable && s.ext) {
				continue
			}
			gs := [][]int{nil}
			if s.grouping {
				gs = groupSets
				if !cable {
					gs = [][]int{{-1}, {0x1C}, {0x1D}, {0x9C}}
				}
			}
			for gi, g := range gs {
				for _, r := range []int{0, 1, 3} {
					if !thorough && r == 1 && gi > 1 {
						continue
					}
					s2 := s
					s2.groups, s2.reserved = g, r
					out = append(out, s2)
				}
			}
			// a reserved tail that brings the length byte to the top of its
			// range (254 and 255): for the flag-free layout and the fullest one
			if m == 0 || m == 15 || (cable && m == 31) {
				s2 := s
				s2.groups = gs[0]
				cells, _ := s2.encode("probe", nil)
				base := len(cells) - 2
				for _, total := range []int{254, 255} {
					s3 := s2
					s3.reserved = total - base
					out = append(out, s3)
				}
			}
		}
	}
	return out
}

// streamSyncRef: first grouping id equal to 0x1C or 0x1D, else 0xFF.
func streamSyncRef(ids [][]Bit) *BV {
	res := constInt(0xFF, 8, false)
	for i := len(ids) - 1; i >= 0; i-- {
		id := lsbBV(ids[i], 8)
		hit := bor(bvEq(id, constInt(0x1C, 8, false)), bvEq(id, constInt(0x1D, 8, false)))
		res = bvMux(hit, id, res)
	}
	return res
}

func (c *Checker) ebpDecode(s ebpShape) (string, *nav, Val, []*BV, map[string][]Bit) {
	fn, err := c.P.Func("ebp:ReadEncoderBoundaryPoint")
	if err != nil {
		return err.Error(), nil, nil, nil, nil
	}
	c.analysed[fn.String()] = true
	cells, vals := s.encode("data", nil)
	pre := func(in *Interp, st *State, ps []Val) { seedCells(in, st, ps[0].(*SliceV).Obj, 0, cells) }
	sum := Analyze(c.P, fn, &AnalyzeOpts{Pre: pre, SliceLen: map[string]int{"data": len(cells)}, Setup: s35Setup})
	if sum.Failed != "" {
		return "analysis: " + sum.Failed, nil, nil, nil, nil
	}
	if eq, dec, det := equivBits(sum.in.nilBit(sum.RetN(1)), U.B1, 16); !eq || !dec {
		return "a well-formed EBP is rejected: " + det, nil, nil, nil, nil
	}
	if w := sum.WrittenCells(); len(w) > 0 {
		return "the decoder writes its input: " + strings.Join(w, ","), nil, nil, nil, nil
	}
	return "", &nav{sum.in, sum.Out}, sum.RetN(0), cells, vals
}

// compareEBP: what the object reports against the field values.
func compareEBP(n *nav, e Val, s ebpShape, vals map[string][]Bit, total int, m *mism) {
	tag := int64(0xA9)
	if s.cable {
		tag = 0xDF
	}
	m.konst("EBPType", n.call(e, "EBPType"), tag)
	m.boolean("IsEmpty", n.call(e, "IsEmpty"), U.B0)
	m.bits("FragmentFlag", n.call(e, "FragmentFlag"), vals["fragment"], 1)
	m.bits("SegmentFlag", n.call(e, "SegmentFlag"), vals["segment"], 1)
	m.boolean("SapFlag", n.call(e, "SapFlag"), bconst(s.sap))
	m.boolean("GroupingFlag", n.call(e, "GroupingFlag"), bconst(s.grouping))
	m.boolean("TimeFlag", n.call(e, "TimeFlag"), bconst(s.time))
	m.boolean("ExtensionFlag", n.call(e, "ExtensionFlag"), bconst(s.ext))
	if s.cable {
		m.bits("ConcealmentFlag", n.call(e, "ConcealmentFlag"), vals["flag04"], 1)
		m.boolean("PartitionFlag", n.call(e, "PartitionFlag"), bconst(s.ext && s.partition))
		m.bits("FormatIdentifier", n.field(e, "FormatIdentifier"), vals["format"], 32)
		if s.ext && s.partition {
			m.bits("PartitionFlags", n.field(e, "PartitionFlags"), vals["partitionFlags"], 8)
		}
	} else {
		m.bits("DiscontinuityFlag", n.call(e, "DiscontinuityFlag"), vals["flag04"], 1)
	}
	base := n.field(e, "baseEbp")
	if total > 0 {
		m.konst("DataFieldLength", n.field(base, "DataFieldLength"), int64(total-2))
	}
	if s.sap {
		m.bits("Sap", n.call(e, "Sap"), vals["sapType"], 8)
	}
	if s.ext {
		if s.cable {
			m.bits("ExtensionFlags", n.field(base, "ExtensionFlags"), append([]Bit{bconst(s.partition)}, vals["ext7"]...), 8)
		} else {
			m.bits("ExtensionFlags", n.field(base, "ExtensionFlags"), vals["ext8"], 8)
		}
	}
	var ids [][]Bit
	if s.grouping {
		gs, ok := n.elems(n.field(base, "Grouping"))
		if !ok || len(gs) != len(s.groups) {
			m.add("%d grouping ids decoded (%v), encoded %d", len(gs), ok, len(s.groups))
		} else {
			for i, g := range gs {
				id := vals[fmt.Sprintf("group%d", i)]
				ids = append(ids, id)
				m.bits(fmt.Sprintf("grouping id %d", i), g, id, 8)
			}
		}
	}
	want := streamSyncRef(ids)
	if got, ok := n.call(e, "StreamSyncSignal").(*BV); !ok {
		m.add("StreamSyncSignal is not an integer")
	} else if ok, d := matchBits(got, want.Bits); !ok {
		m.add("StreamSyncSignal: %s", d)
	}
	if s.time {
		m.bits("TimeSeconds", n.field(base, "TimeSeconds"), vals["seconds"], 32)
		m.bits("TimeFraction", n.field(base, "TimeFraction"), vals["fraction"], 32)
	}
	var rb []*BV
	for i := 0; i < s.reserved; i++ {
		rb = append(rb, lsbBV(vals[fmt.Sprintf("reserved%d", i)], 8))
	}
	m.byteSeq(n, "reserved bytes", n.field(base, "ReservedBytes"), rb)
	if n.in.Fail != "" {
		m.add("analysis of a getter: %s", n.in.Fail)
	}
}

func (c *Checker) runEBPCodec(thorough bool) {
	shapes := ebpShapes(thorough)
	type agg2 struct{ dec, enc stepAgg }
	groups := map[bool]*agg2{false: {}, true: {}}
	for _, s := range shapes {
		g := groups[s.cable]
		g.dec.n++
		g.enc.n++
		why, n, e, cells, vals := c.ebpDecode(s)
		if why == "" {
			m := &mism{}
			compareEBP(n, e, s, vals, len(cells), m)
			why = m.first
		}
		if why != "" {
			g.dec.bad++
			g.enc.bad++
			if g.dec.first == "" {
				g.dec.first = s.String() + ": " + why
				g.enc.first = s.String() + ": not decoded"
			}
			continue
		}
		// re-encode
		snap := n.st.clone()
		got, why := n.readBytes(n.call(e, "Data"))
		if n.in.Fail != "" {
			why = "analysis of Data: " + n.in.Fail
		}
		if ch := n.changedSince(snap); why == "" && len(ch) > 0 {
			why = fmt.Sprintf("Data() modifies the object it encodes: %v", ch)
		}
		if why == "" {
			if len(got) != len(cells) {
				why = fmt.Sprintf("re-encoding has %d bytes, the input %d", len(got), len(cells))
			}
			for i := 0; why == "" && i < len(got); i++ {
				if ok, d := matchBits(got[i], cells[i].Bits); !ok {
					why = fmt.Sprintf("byte %d: %s", i, d)
				}
			}
		}
		if why != "" {
			g.enc.bad++
			if g.enc.first == "" {
				g.enc.first = s.String() + ": " + why
			}
		}
	}
	for _, cable := range []bool{false, true} {
		name := map[bool]string{false: "Comcast (0xA9)", true: "CableLabs (0xDF)"}[cable]
		g := groups[cable]
		c.check("C12.decode", "ebp:ReadEncoderBoundaryPoint", name+": flags, SAP type, grouping ids, stream-sync signal, time words, partition flags, format identifier and reserved bytes are reported exactly as encoded",
			g.dec.bad == 0, fmt.Sprintf("%d of %d layouts fail; first: %s", g.dec.bad, g.dec.n, g.dec.first))
		c.check("C12.reencode", "ebp:Data", name+": Data() of the decoded object reproduces the input bytes and leaves the object as it was",
			g.enc.bad == 0, fmt.Sprintf("%d of %d layouts fail; first: %s", g.enc.bad, g.enc.n, g.enc.first))
	}
	c.floorCheck("C12 layouts", len(shapes), 100)
	c.extra["layouts"] = len(shapes)
}

func runC12(c *Checker) {
	c.Level = "other"
	c.explain = "ReadEncoderBoundaryPoint and Data() are abstractly interpreted (SSA, bit-provenance domain, bytes.Buffer/binary.Write model) on a family of EBP layouts of both flavours (all combinations of the layout-deciding flags, grouping chains of 1-3 ids with constant and symbolic ids, 0/1/3 reserved bytes; every value symbolic): reported values against the bits that carry them, the stream-sync signal against the reference selection, re-encoding against the input bytes. The time conversion is decided on the formulas extracted from insertUtcTime/extractUtcTime."
	c.trust("go/ssa + go/types (x/tools v0.29.0)", "E1 abstract interpreter", "bytes.Buffer/binary.Write model (bufmodel.go)", "reference layout in c12.go")
	c.runEBPCodec(c.Tier == "thorough")
	c.runEBPBuild()
	c.runEBPNarrow()
	c.runEBPTime(c.Tier == "thorough")
}

// ------------------------------------------------------------ setter API

// ebpBuild creates an EBP through the constructor and the setters (grouping
// ids, extension/partition bytes through the exported fields) and compares
// Data() with the canonical bytes of the resulting layout.
func (c *Checker) ebpBuild(s ebpShape, misuse bool) string {
	in := newInterp(c.P)
	var tm timeModel
	s35Setup(in)
	bufI := in.Intrinsic
	useTimeModel(in, &tm)
	timeI := in.Intrinsic
	in.Intrinsic = func(fn *ssa.Function, args []Val, st *State) (Val, bool) {
		if v, ok := timeI(fn, args, st); ok {
			return v, true
		}
		return bufI(fn, args, st)
	}
	n := &nav{in, in.runInit("ebp", newState())}
	ctor := "ebp:CreateComcastEBP"
	if s.cable {
		ctor = "ebp:CreateCableLabsEbp"
	}
	fn, err := c.P.Func(ctor)
	if err != nil {
		return err.Error()
	}
	v := n.callFn(ctor)
	sv, ok := v.(*StructV)
	if !ok {
		return "constructor returns " + showVal(v)
	}
	t := fn.Signature.Results().At(0).Type()
	o := in.newObj("ebp", "alloc", t, false)
	n.st.born[o] = true
	in.setCellDeep(n.st, o, "", t, sv)
	e := &Ptr{Obj: o, T: t}
	// the base struct is field 0 of both flavours
	basePath := "0"
	bst := structOf(structOf(t).Field(0).Type())
	fieldIdx := func(name string) int {
		for i := 0; i < bst.NumFields(); i++ {
			if bst.Field(i).Name() == name {
				return i
			}
		}
		return -1
	}
	vals := map[string][]Bit{"format": constMSB(0x45425030, 32)}
	n.call(e, "SetFragmentFlag", boolConst(true))
	vals["fragment"] = []Bit{U.B1}
	if s.sap {
		n.call(e, "SetSapFlag", boolConst(true))
		n.call(e, "SetSap", u("sap", 8))
		vals["sapType"] = msbBits(u("sap", 8), 8)
	}
	if s.ext {
		n.call(e, "SetExtensionFlag", boolConst(true))
		if s.cable && s.partition {
			n.call(e, "SetPartitionFlag", boolConst(true))
			pi := -1
			st := structOf(t)
			for i := 0; i < st.NumFields(); i++ {
				if st.Field(i).Name() == "PartitionFlags" {
					pi = i
				}
			}
			in.setCell(n.st, o, fmt.Sprint(pi), u("pf", 8))
			vals["partitionFlags"] = msbBits(u("pf", 8), 8)
		}
	}
	if misuse && s.cable && !s.ext {
		// a setter called although the flag that guards its field is off: whatever
		// the library makes of it, encoder and getters must stay consistent
		// (checked by the decode-back comparison below)
		n.call(e, "SetPartitionFlag", boolConst(true))
	}
	if s.grouping {
		n.call(e, "SetGroupingFlag", boolConst(true))
		var ids []Val
		for i, g := range s.groups {
			if g < 0 {
				g = 0x11 + i
			}
			ids = append(ids, constInt(int64(g), 8, false))
			w := 8
			if s.cable {
				w = 7
			}
			vals[fmt.Sprintf("group%d", i)] = constMSB(uint64(g), w)
		}
		in.setCell(n.st, o, joinPath(basePath, fieldIdx("Grouping")), n.mkSlice("grouping", types.Typ[types.Uint8], ids))
	}
	var secI, fraI *BV
	if s.time {
		n.call(e, "SetTimeFlag", boolConst(true))
		tt := &OpaqueV{Why: "t", T: nil}
		n.call(e, "SetEBPTime", tt)
		secI, _ = in.loadPath(n.st, o, joinPath(basePath, fieldIdx("TimeSeconds")), types.Typ[types.Uint32]).(*BV)
		fraI, _ = in.loadPath(n.st, o, joinPath(basePath, fieldIdx("TimeFraction")), types.Typ[types.Uint32]).(*BV)
		if secI == nil || fraI == nil {
			return "SetEBPTime does not store two integers"
		}
		vals["seconds"], vals["fraction"] = msbBits(secI, 32), msbBits(fraI, 32)
	}
	if in.Fail != "" {
		return "analysis: " + in.Fail
	}
	snap := n.st.clone()
	got, why := n.readBytes(n.call(e, "Data"))
	if in.Fail != "" {
		return "analysis of Data: " + in.Fail
	}
	if why != "" {
		return why
	}
	// the encoder brings the length byte up to date; nothing else may change
	lenCell := fmt.Sprintf("%s[%s]", o.Name, joinPath(basePath, fieldIdx("DataFieldLength")))
	for _, ch := range n.changedSince(snap) {
		if ch != lenCell {
			return "Data() modifies the object it encodes (other than its length byte): " + ch
		}
	}
	if misuse {
		// decode-back: the bytes just produced decode to an object whose flag
		// getters answer as the built object's do
		enc := make([]Val, len(got))
		for i, b := range got {
			enc[i] = b
		}
		dec := n.callFn("ebp:ReadEncoderBoundaryPoint", n.mkSlice("encoded", types.Typ[types.Uint8], enc))
		if in.Fail != "" {
			return "analysis of the decode-back: " + in.Fail
		}
		tup, _ := dec.(*StructV)
		if tup == nil || len(tup.Fields) != 2 {
			return "decode-back: result is " + showVal(dec)
		}
		if eq, dc, det := equivBits(in.nilBit(tup.Fields[1]), bconst(true), 16); !eq || !dc {
			return "the encoding of the built EBP is rejected by the decoder: " + det
		}
		getters := []string{"SegmentFlag", "FragmentFlag", "SapFlag", "GroupingFlag", "TimeFlag", "ExtensionFlag"}
		if s.cable {
			getters = append(getters, "ConcealmentFlag", "PartitionFlag")
		}
		for _, g := range getters {
			a, _ := n.call(e, g).(*BV)
			b, _ := n.call(tup.Fields[0], g).(*BV)
			if in.Fail != "" {
				return "decode-back: " + g + ": " + in.Fail
			}
			if a == nil || b == nil || a.W != 1 || b.W != 1 {
				return "decode-back: " + g + " is not a flag"
			}
			if eq, dc, det := equivBits(a.Bits[0], b.Bits[0], 16); !eq || !dc {
				return fmt.Sprintf("%s() is %s on the built EBP and %s on the EBP decoded from its own encoding (%s)", g, a.Bits[0], b.Bits[0], det)
			}
		}
		return ""
	}
	s2 := s
	s2.reserved = 0
	for i, g := range s2.groups {
		if g < 0 {
			s2.groups = append([]int(nil), s2.groups...)
			s2.groups[i] = 0x11 + i
		}
	}
	want, _ := s2.encode("none", vals)
	if len(got) != len(want) {
		return fmt.Sprintf("Data() has %d bytes, the canonical encoding %d", len(got), len(want))
	}
	for i := range got {
		if ok, d := matchBits(got[i], want[i].Bits); !ok {
			return fmt.Sprintf("byte %d: %s", i, d)
		}
	}
	return ""
}

func (c *Checker) runEBPBuild() {
	for _, cable := range []bool{false, true} {
		a, m := &stepAgg{}, &stepAgg{}
		for _, s := range ebpShapes(false) {
			if s.cable != cable || s.reserved != 0 {
				continue
			}
			a.n++
			if d := c.ebpBuild(s, false); d != "" {
				a.bad++
				if a.first == "" {
					a.first = s.String() + ": " + d
				}
			}
			m.n++
			if d := c.ebpBuild(s, true); d != "" {
				m.bad++
				if m.first == "" {
					m.first = s.String() + ": " + d
				}
			}
		}
		name := map[bool]string{false: "CreateComcastEBP", true: "CreateCableLabsEbp"}[cable]
		c.check("C12.build", "ebp:"+name, "an EBP built through the constructor, the setters and the exported fields encodes to the canonical bytes of its layout (length byte = bytes that follow)",
			a.bad == 0, fmt.Sprintf("%d of %d layouts fail; first: %s", a.bad, a.n, a.first))
		c.check("C12.build", "ebp:"+name, "decode-back: the encoding of a setter-built EBP (also after a setter was called whose guarding flag is off) is accepted by the decoder and every flag getter answers the same on both objects",
			m.bad == 0, fmt.Sprintf("%d of %d layouts fail; first: %s", m.bad, m.n, m.first))
	}
}
