package main

import (
	"fmt"
	"go/types"
	"sort"
	"strings"

	"golang.org/x/tools/go/ssa"
)

// PMT payload shapes: the *length fields* are fixed (that is what makes the
// section walk and the stream/descriptor loops unroll under constant
// propagation); every other bit — table contents, stream types, PIDs,
// descriptor tags and bodies, version — stays symbolic.

type esShape struct{ desc []int }

type pmtShape struct {
	name    string
	ptr     int   // pointer_field value (filler 0xFF bytes follow it)
	pre     []int // section_length values of complete non-PMT sections before the PMT
	post    []int // section_length values of complete non-PMT sections after the PMT
	pil     int   // program_info_length
	streams []esShape
	stuff   int // trailing 0xFF bytes
}

func (es esShape) infoLen() int {
	n := 0
	for _, d := range es.desc {
		n += 2 + d
	}
	return n
}

func (s pmtShape) pmtSectionLength() int {
	n := 9 + s.pil + 4
	for _, es := range s.streams {
		n += 5 + es.infoLen()
	}
	return n
}

// layout returns the total payload length, the offset of the PMT section and
// the constant cells of the shape.
func (s pmtShape) layout() (total int, pmtAt int, consts map[int]func(b *BV) *BV) {
	consts = map[int]func(b *BV) *BV{}
	all := func(v int) func(b *BV) *BV {
		return func(*BV) *BV { return constInt(int64(v), 8, false) }
	}
	low := func(v, nbits int) func(b *BV) *BV {
		return func(b *BV) *BV {
			r := &BV{W: 8, Bits: append([]Bit(nil), b.Bits...)}
			for k := 0; k < nbits; k++ {
				r.Bits[k] = bconst(v>>uint(k)&1 == 1)
			}
			return r
		}
	}
	pos := 0
	consts[pos] = all(s.ptr)
	pos++
	for i := 0; i < s.ptr; i++ {
		consts[pos] = all(0xFF)
		pos++
	}
	for _, sl := range s.pre {
		consts[pos] = all(0x42) // some other table
		consts[pos+1] = low(sl>>8, 2)
		consts[pos+2] = all(sl & 0xff)
		pos += 3 + sl
	}
	pmtAt = pos
	sl := s.pmtSectionLength()
	consts[pos] = all(0x02)
	consts[pos+1] = low(sl>>8, 2)
	consts[pos+2] = all(sl & 0xff)
	consts[pos+10] = low(s.pil>>8, 4)
	consts[pos+11] = all(s.pil & 0xff)
	o := pos + 12 + s.pil
	for _, es := range s.streams {
		il := es.infoLen()
		consts[o+3] = low(il>>8, 4)
		consts[o+4] = all(il & 0xff)
		d := o + 5
		for _, dl := range es.desc {
			consts[d+1] = all(dl)
			d += 2 + dl
		}
		o += 5 + il
	}
	pos += 3 + sl
	for _, sl := range s.post {
		consts[pos] = all(0x42) // some other table
		consts[pos+1] = low(sl>>8, 2)
		consts[pos+2] = all(sl & 0xff)
		pos += 3 + sl
	}
	for i := 0; i < s.stuff; i++ {
		consts[pos] = all(0xFF)
		pos++
	}
	return pos, pmtAt, consts
}

func seedShape(s pmtShape) func(in *Interp, st *State, ps []Val) {
	_, _, consts := s.layout()
	return func(in *Interp, st *State, ps []Val) {
		o := ps[0].(*SliceV).Obj
		for i, f := range consts {
			if i < o.N {
				in.setCell(st, o, fmt.Sprint(i), f(cellBV(o.Name, i)))
			}
		}
	}
}

var pmtShapes = []pmtShape{
	{name: "no streams", ptr: 0},
	{name: "one stream, no descriptors", ptr: 0, streams: []esShape{{}}},
	{name: "two streams, program descriptors", ptr: 0, pil: 4, streams: []esShape{{}, {}}},
	{name: "one descriptor", ptr: 0, streams: []esShape{{desc: []int{3}}}},
	{name: "empty and non-empty descriptors", ptr: 0, streams: []esShape{{desc: []int{0, 2}}, {}, {desc: []int{1}}}},
	{name: "pointer 3", ptr: 3, streams: []esShape{{desc: []int{4}}, {}}},
	{name: "section before", ptr: 0, pre: []int{5}, streams: []esShape{{}}},
	{name: "pointer, two sections before, stuffing", ptr: 2, pre: []int{4, 7}, pil: 2, streams: []esShape{{desc: []int{2, 2}}, {desc: []int{0}}}, stuff: 6},
	// another table behind the PMT in the same payload: the payload is complete
	// only when that section is, too (seed C05h: "done" at the end of the PMT
	// section lets NewPMT run on a payload that cuts the following section)
	{name: "a section after the PMT, stuffing", ptr: 0, streams: []esShape{{desc: []int{2}}}, post: []int{9}, stuff: 2},
	{name: "sections before and after the PMT", ptr: 1, pre: []int{5}, streams: []esShape{{}}, post: []int{4, 6}},
	{name: "trailing stuffing", ptr: 0, streams: []esShape{{}, {desc: []int{5}}}, stuff: 3},
	// length fields that do not fit a byte
	{name: "descriptor of 255 bytes, ES_info_length 262", ptr: 0, streams: []esShape{{desc: []int{255, 3}}, {}}},
	{name: "program_info_length 300", ptr: 1, pil: 300, streams: []esShape{{desc: []int{2}}}},
	// the largest section ISO 13818-1 allows (section_length 1021 = 9 + 0 + (5+3*257) + (5+227) + 4)
	// and the two lengths just below it
	{name: "section_length 1021 (maximum)", ptr: 0, streams: []esShape{{desc: []int{255, 255, 255}}, {desc: []int{225}}}},
	{name: "section_length 1019, pointer_field 7", ptr: 7, streams: []esShape{{desc: []int{255, 255, 255}}, {desc: []int{223}}}},
}

func pmtOpaqueCtors(in *Interp) {
	// the two constructors only store their arguments
	stdEffects[modPath+"/psi.NewPmtElementaryStream"] = effNone
	stdEffects[modPath+"/psi.NewPmtDescriptor"] = effNone
	prev := in.OpaqueFn
	in.OpaqueFn = func(fn *ssa.Function) bool {
		switch fn.String() {
		case modPath + "/psi.NewPmtElementaryStream", modPath + "/psi.NewPmtDescriptor":
			return true
		}
		return prev != nil && prev(fn)
	}
}

func runC06(c *Checker) {
	c.Level = "other"
	c.explain = "PMT parsing is interpreted on payload *shapes*: pointer_field, preceding sections, section_length, program_info_length, every ES_info_length and descriptor length are fixed, so the section walk and both loops unroll under constant propagation, while table contents, stream types, PIDs, descriptor tags/bodies and the version byte stay symbolic. For each shape the parser must create exactly the reference sequence of descriptors (tag = first byte, body = the announced window) and elementary streams (type byte, 13-bit PID, its descriptors in order), the PID list in order, version = s[5][5:1], current_next = s[5].0; the completion predicate is evaluated on every prefix of each shape; the PSI header accessors, the table-header codec, NewPointerField and ExtractCRC are checked by bit provenance; ReadPMT by one abstract iteration of its loop from a symbolic loop state (read replaced by a model that fills the packet with symbolic bytes and seeded PID bits; NewPMT and the accumulator uninterpreted) with a case analysis on the outcomes of the calls. Decides field layout, loop bounds and advances on these shapes. Does not decide: arbitrary section sizes beyond the shapes (same code for each entry), splits across packets (C17's concatenation contract; C06.carrier decides only which bytes of one packet are its payload, for seven adaptation-field lengths)."
	c.trust("go/ssa + go/types (x/tools v0.29.0)", "E1 transfer functions", "layouts transcribed from ISO/IEC 13818-1 Tables 2-29/2-33", "NewPmtDescriptor / NewPmtElementaryStream store their arguments (their own decoders are C20)")
	c.checkPSIAccessors()
	c.checkTableHeaderCodec()
	c.checkPMTShapes()
	c.checkDonePredicate()
	c.checkExtractCRC()
	c.checkReadPMT()
	c.checkCarrier()
	// the two constructors the parser calls per stream and per descriptor are
	// taken as "store their arguments" above; that is sound for a whole table
	// only if they keep no state between calls (seed C06i: a stream-type cache
	// that made the second stream of a table report the first one's type)
	for _, a := range []string{"psi:NewPmtElementaryStream", "psi:NewPmtDescriptor"} {
		fn, err := c.P.Func(a)
		if err != nil {
			c.undecided("C06.parse", a, "anchor", err.Error())
			continue
		}
		gw := globalWrites(fn)
		c.check("C06.parse", a, "keeps no state between calls: no store through a package-level variable in the constructor or its callees", len(gw) == 0, strings.Join(gw, "; "))
	}
}

func (c *Checker) checkPSIAccessors() {
	type acc struct {
		anchor string
		want   func(name string, p int) []Bit
		what   string
	}
	accs := []acc{
		{"psi:PointerField", func(n string, p int) []Bit { return cellBV(n, 0).Bits }, "byte 0"},
		{"psi:TableID", func(n string, p int) []Bit { return cellBV(n, 1+p).Bits }, "byte 1+pointer"},
		{"psi:SectionSyntaxIndicator", func(n string, p int) []Bit { return []Bit{cellBV(n, 2+p).Bits[7]} }, "bit 7 of byte 2+pointer"},
		{"psi:PrivateIndicator", func(n string, p int) []Bit { return []Bit{cellBV(n, 2+p).Bits[6]} }, "bit 6 of byte 2+pointer"},
		{"psi:SectionLength", func(n string, p int) []Bit {
			return append(append([]Bit(nil), cellBV(n, 3+p).Bits...), cellBV(n, 2+p).Bits[0:2]...)
		}, "low 2 bits of byte 2+pointer ‖ byte 3+pointer"},
	}
	for _, a := range accs {
		var bad []string
		for _, p := range []int{0, 1, 5, 20} {
			s, _ := c.summary("C06.header", a.anchor, &AnalyzeOpts{SliceLen: map[string]int{"psi": 64}, Pre: func(in *Interp, st *State, ps []Val) {
				in.setCell(st, ps[0].(*SliceV).Obj, "0", constInt(int64(p), 8, false))
			}})
			if s == nil {
				break
			}
			want := a.want(paramName(s, 0), p)
			if a.anchor == "psi:PointerField" {
				want = constInt(int64(p), 8, false).Bits
			}
			ret, _ := s.RetN(0).(*BV)
			if ok, d := matchBits(ret, want); !ok {
				bad = append(bad, fmt.Sprintf("pointer_field=%d: %s", p, d))
			}
			if w := s.WrittenCells(); len(w) > 0 {
				bad = append(bad, fmt.Sprint("writes ", w))
			}
		}
		c.check("C06.header", a.anchor, "pointer_field 0,1,5,20: returns "+a.what+" of the first section", len(bad) == 0, strings.Join(bad, "; "))
	}
}

func (c *Checker) checkTableHeaderCodec() {
	// decoder
	var dec *Summary
	if s, _ := c.summary("C06.tableheader", "psi:TableHeaderFromBytes", &AnalyzeOpts{SliceLen: map[string]int{"data": 3}}); s != nil {
		dec = s
		n := paramName(s, 0)
		th, _ := s.RetN(0).(*StructV)
		ok := th != nil && len(th.Fields) == 4
		d := "result is " + showVal(s.RetN(0))
		if ok {
			wants := [][]Bit{cellBV(n, 0).Bits, {cellBV(n, 1).Bits[7]}, {cellBV(n, 1).Bits[6]}, append(append([]Bit(nil), cellBV(n, 2).Bits...), cellBV(n, 1).Bits[0:2]...)}
			for i, w := range wants {
				f, _ := th.Fields[i].(*BV)
				if o, dd := matchBits(f, w); !o {
					ok, d = false, fmt.Sprintf("field %d: %s", i, dd)
				}
			}
		}
		c.check("C06.tableheader", "psi:TableHeaderFromBytes", "table_id = b0, section_syntax_indicator = b1.7, private_indicator = b1.6, section_length = b1[1:0]‖b2", ok, d)
	}
	// encoder on symbolic fields
	if s, _ := c.summary("C06.tableheader", "psi:(TableHeader).Data", nil); s != nil {
		rs, ok := s.RetN(0).(*SliceV)
		d := "result is " + showVal(s.RetN(0))
		if ok {
			tid := srcBV(U.source("param", "th.TableID", 8), false)
			ssi := srcBV(U.source("param", "th.SectionSyntaxIndicator", 1), false).Bits[0]
			pi := srcBV(U.source("param", "th.PrivateIndicator", 1), false).Bits[0]
			sl := srcBV(U.source("param", "th.SectionLength", 16), false)
			want := [][]Bit{tid.Bits, {sl.Bits[8], sl.Bits[9], U.B0, U.B0, U.B1, U.B1, pi, ssi}, sl.Bits[0:8]}
			// bits 3:2 of byte 1 are the top of the 12-bit section_length field: 0 for lengths ≤ 1021
			if l, okl := rs.Len.ConstInt(); !okl || l != 3 {
				ok, d = false, "length "+rs.Len.String()
			}
			for i := 0; i < 3 && ok; i++ {
				got, _ := s.Cell(rs.Obj, joinPath(rs.Prefix, i), byteT).(*BV)
				if o, dd := matchBits(got, want[i]); !o {
					ok, d = false, fmt.Sprintf("byte %d: %s", i, dd)
				}
			}
		}
		c.check("C06.tableheader", "psi:(TableHeader).Data", "3 bytes: table_id, SSI‖PI‖reserved '11'‖'00'‖section_length[9:8], section_length[7:0]; decoder∘encoder is the identity on those fields", ok, d)
	}
	_ = dec
	// NewPointerField
	var bad []string
	for n := 0; n <= 4; n++ {
		s, _ := c.summary("C06.tableheader", "psi:NewPointerField", &AnalyzeOpts{Args: map[string]Val{"size": constInt(int64(n), 64, true)}})
		if s == nil {
			break
		}
		rs, ok := s.RetN(0).(*SliceV)
		if !ok {
			bad = append(bad, fmt.Sprintf("n=%d: %s", n, showVal(s.RetN(0))))
			continue
		}
		if l, okl := rs.Len.ConstInt(); !okl || int(l) != n+1 {
			bad = append(bad, fmt.Sprintf("n=%d: length %s", n, rs.Len))
			continue
		}
		for i := 0; i <= n; i++ {
			got, _ := s.Cell(rs.Obj, joinPath(rs.Prefix, i), byteT).(*BV)
			want := 0xFF
			if i == 0 {
				want = n
			}
			if k, okk := int64(-1), false; got != nil {
				k, okk = got.ConstInt()
				if !okk || int(k) != want {
					bad = append(bad, fmt.Sprintf("n=%d: byte %d is %s", n, i, got))
				}
			}
		}
	}
	c.check("C06.tableheader", "psi:NewPointerField", "n=0..4: n followed by n filler bytes 0xFF", len(bad) == 0, strings.Join(bad, "; "))
}

func (c *Checker) checkPMTShapes() {
	const anchor = "psi:NewPMT"
	fn, err := c.P.Func(anchor)
	if err != nil {
		c.undecided("C06.parse", anchor, "anchor", err.Error())
		return
	}
	c.analysed[fn.String()] = true
	fi := map[string]int{}
	for _, n := range []string{"pids", "elementaryStreams", "versionNumber", "currentNextIndicator"} {
		i, _, err := c.P.structFieldIndex("psi", "pmt", n)
		if err != nil {
			c.undecided("C06.parse", anchor, "field "+n, err.Error())
			return
		}
		fi[n] = i
	}
	nShapes := 0
	for _, sh := range pmtShapes {
		total, at, _ := sh.layout()
		var in0 *Interp
		s := Analyze(c.P, fn, &AnalyzeOpts{SliceLen: map[string]int{"pmtBytes": total}, Pre: seedShape(sh), Setup: func(in *Interp) { in0 = in; pmtOpaqueCtors(in) }})
		con := "shape '" + sh.name + "'"
		if s.Failed != "" {
			c.undecided("C06.parse", anchor, con, s.Failed)
			continue
		}
		nShapes++
		var bad []string
		name := paramName(s, 0)
		if e := in0.nilBit(s.RetN(1)); !(isConst(e) && e.c) {
			bad = append(bad, "returns an error: "+showVal(s.RetN(1)))
		}
		// reference walk
		type wantDesc struct{ tagAt, bodyAt, bodyLen int }
		type wantES struct {
			at    int
			descs []wantDesc
		}
		var wantStreams []wantES
		o := at + 12 + sh.pil
		for _, es := range sh.streams {
			w := wantES{at: o}
			d := o + 5
			for _, dl := range es.desc {
				w.descs = append(w.descs, wantDesc{d, d + 2, dl})
				d += 2 + dl
			}
			wantStreams = append(wantStreams, w)
			o += 5 + es.infoLen()
		}
		var descCalls, esCalls []Event
		for _, e := range s.Events {
			if e.Kind != "call" {
				continue
			}
			switch {
			case strings.HasSuffix(e.Note, "psi.NewPmtDescriptor"):
				descCalls = append(descCalls, e)
			case strings.HasSuffix(e.Note, "psi.NewPmtElementaryStream"):
				esCalls = append(esCalls, e)
			}
		}
		nd := 0
		for _, w := range wantStreams {
			nd += len(w.descs)
		}
		if len(esCalls) != len(wantStreams) || len(descCalls) != nd {
			bad = append(bad, fmt.Sprintf("%d streams / %d descriptors created, reference has %d / %d", len(esCalls), len(descCalls), len(wantStreams), nd))
		} else {
			di := 0
			for i, w := range wantStreams {
				e := esCalls[i]
				if !(isConst(e.Cond) && e.Cond.c) {
					bad = append(bad, fmt.Sprintf("stream %d created conditionally (%s)", i, e.Cond))
				}
				st, _ := e.Args[0].(*BV)
				if ok, d := matchBits(st, cellBV(name, w.at).Bits); !ok {
					bad = append(bad, fmt.Sprintf("stream %d type: %s", i, d))
				}
				pid, _ := e.Args[1].(*BV)
				if ok, d := matchBits(pid, append(append([]Bit(nil), cellBV(name, w.at+2).Bits...), cellBV(name, w.at+1).Bits[0:5]...)); !ok {
					bad = append(bad, fmt.Sprintf("stream %d PID: %s", i, d))
				}
				// its descriptors, in order
				var got []Val
				switch dv := e.Args[2].(type) {
				case *StructV:
					got = dv.Fields
				case NilV:
				default:
					bad = append(bad, fmt.Sprintf("stream %d descriptors: %s", i, showVal(e.Args[2])))
				}
				if len(got) != len(w.descs) {
					bad = append(bad, fmt.Sprintf("stream %d has %d descriptors, reference %d", i, len(got), len(w.descs)))
					di += len(w.descs)
					continue
				}
				for j, wd := range w.descs {
					dc := descCalls[di]
					di++
					if !sameVal(got[j], dc.Val) {
						bad = append(bad, fmt.Sprintf("stream %d descriptor %d is not the %d-th created descriptor", i, j, di))
					}
					tag, _ := dc.Args[0].(*BV)
					if ok, d := matchBits(tag, cellBV(name, wd.tagAt).Bits); !ok {
						bad = append(bad, fmt.Sprintf("stream %d descriptor %d tag: %s", i, j, d))
					}
					// body: snapshot of bytes or a slice window
					switch b := dc.Args[1].(type) {
					case *StructV:
						if len(b.Fields) != wd.bodyLen {
							bad = append(bad, fmt.Sprintf("stream %d descriptor %d body has %d bytes, reference %d", i, j, len(b.Fields), wd.bodyLen))
						} else {
							for k, f := range b.Fields {
								fb, _ := f.(*BV)
								if ok, d := matchBits(fb, cellBV(name, wd.bodyAt+k).Bits); !ok {
									bad = append(bad, fmt.Sprintf("stream %d descriptor %d body byte %d: %s", i, j, k, d))
								}
							}
						}
					case *SliceV:
						// long bodies are not snapshotted: the window of the input itself
						lo, ok1 := b.Lo.ConstInt()
						ln, ok2 := b.Len.ConstInt()
						if !ok1 || !ok2 || b.Obj.Name != name || b.Prefix != "" || int(lo) != wd.bodyAt || int(ln) != wd.bodyLen {
							bad = append(bad, fmt.Sprintf("stream %d descriptor %d body is %s, reference %s[%d:+%d]", i, j, showVal(dc.Args[1]), name, wd.bodyAt, wd.bodyLen))
						}
					default:
						bad = append(bad, fmt.Sprintf("stream %d descriptor %d body: %s", i, j, showVal(dc.Args[1])))
					}
				}
			}
		}
		// resulting object
		iv, _ := s.RetN(0).(*IfaceV)
		var pp *Ptr
		if iv != nil {
			pp, _ = iv.V.(*Ptr)
		}
		if pp == nil {
			bad = append(bad, "result is "+showVal(s.RetN(0)))
		} else {
			ver, _ := s.Cell(pp.Obj, fmt.Sprint(fi["versionNumber"]), types.Typ[types.Uint8]).(*BV)
			if ok, d := matchBits(ver, cellBV(name, at+5).Bits[1:6]); !ok {
				bad = append(bad, "version_number: "+d)
			}
			cni, _ := s.Cell(pp.Obj, fmt.Sprint(fi["currentNextIndicator"]), types.Typ[types.Bool]).(*BV)
			if ok, d := matchBits(cni, cellBV(name, at+5).Bits[0:1]); !ok {
				bad = append(bad, "current_next_indicator: "+d)
			}
			// pid list
			pl := s.Cell(pp.Obj, fmt.Sprint(fi["pids"]), types.NewSlice(types.Typ[types.Int]))
			elems := sliceElems(s, pl, types.Typ[types.Int])
			if len(elems) != len(wantStreams) {
				bad = append(bad, fmt.Sprintf("PID list has %d entries, reference %d (%s)", len(elems), len(wantStreams), showVal(pl)))
			} else {
				for i, w := range wantStreams {
					pv, _ := elems[i].(*BV)
					if ok, d := matchBits(pv, append(append([]Bit(nil), cellBV(name, w.at+2).Bits...), cellBV(name, w.at+1).Bits[0:5]...)); !ok {
						bad = append(bad, fmt.Sprintf("PID list entry %d: %s", i, d))
					}
				}
			}
			el := s.Cell(pp.Obj, fmt.Sprint(fi["elementaryStreams"]), types.NewSlice(types.Typ[types.Int]))
			es := sliceElems(s, el, types.Typ[types.Int])
			if len(es) != len(esCalls) {
				bad = append(bad, fmt.Sprintf("stream list has %d entries, %d streams created", len(es), len(esCalls)))
			} else {
				for i := range es {
					if !sameVal(es[i], esCalls[i].Val) {
						bad = append(bad, fmt.Sprintf("stream list entry %d is not the %d-th created stream", i, i))
					}
				}
			}
		}
		if w := s.WrittenCells(); len(w) > 0 {
			for _, x := range w {
				if strings.HasPrefix(x, name+"[") {
					bad = append(bad, "input modified: "+x)
				}
			}
		}
		sort.Strings(bad)
		d := ""
		if len(bad) > 0 {
			d = fmt.Sprintf("%d mismatches; first: %s", len(bad), bad[0])
		}
		c.check("C06.parse", anchor, con+": streams, PIDs, descriptors (tags, bodies, order), version and current_next exactly as encoded", len(bad) == 0, d)
	}
	c.floorCheck("C06.parse shapes analysed", nShapes, len(pmtShapes))
}

// sliceElems reads the elements of a constant-length slice value.
func sliceElems(s *Summary, v Val, et types.Type) []Val {
	sl, ok := v.(*SliceV)
	if !ok {
		return nil
	}
	n, ok1 := sl.Len.ConstInt()
	lo, ok2 := sl.Lo.ConstInt()
	if !ok1 || !ok2 || n > 64 {
		return nil
	}
	var out []Val
	for i := int64(0); i < n; i++ {
		out = append(out, s.in.loadPath(s.Out, sl.Obj, joinPath(sl.Prefix, int(lo+i)), sl.Elem))
	}
	return out
}

func (c *Checker) checkDonePredicate() {
	const anchor = "psi:PmtAccumulatorDoneFunc"
	fn, err := c.P.Func(anchor)
	if err != nil {
		c.undecided("C06.done", anchor, "anchor", err.Error())
		return
	}
	c.analysed[fn.String()] = true
	for _, sh := range pmtShapes {
		total, _, _ := sh.layout()
		// section boundaries: the payload is complete once every announced
		// section is complete; a prefix that cuts a section (or its 3-byte
		// header) is not
		bounds := map[int]bool{}
		pos := 1 + sh.ptr
		for _, sl := range sh.pre {
			pos += 3 + sl
			bounds[pos] = true
		}
		pos += 3 + sh.pmtSectionLength()
		for _, sl := range sh.post {
			bounds[pos] = true
			pos += 3 + sl
		}
		end := pos
		var bad []string
		for k := 0; k <= total; k++ {
			s := Analyze(c.P, fn, &AnalyzeOpts{SliceLen: map[string]int{"b": k}, Pre: seedShape(sh)})
			if s.Failed != "" {
				bad = append(bad, fmt.Sprintf("prefix %d: %s", k, s.Failed))
				break
			}
			ret, _ := s.RetN(0).(*BV)
			v, okc := int64(-1), false
			if ret != nil {
				v, okc = ret.ConstInt()
			}
			var want int64
			switch {
			case k >= end:
				want = 1
			case bounds[k]:
				want = -1 // at a boundary between sections the predicate cannot know more follow: either answer is consistent with the statement
			default:
				want = 0
			}
			if want == -1 {
				continue
			}
			if !okc {
				// symbolic: depends on content (e.g. next byte 0xFF test) — compare as formula
				bad = append(bad, fmt.Sprintf("prefix %d of %d: answer depends on %s", k, total, showVal(s.RetN(0))))
				continue
			}
			if v != want {
				bad = append(bad, fmt.Sprintf("prefix of %d bytes (complete at %d): done=%v", k, end, v == 1))
			}
		}
		d := ""
		if len(bad) > 0 {
			d = fmt.Sprintf("%d prefixes wrong; first: %s", len(bad), bad[0])
		}
		c.check("C06.done", anchor, "shape '"+sh.name+"': false on every prefix that cuts an announced section, true once all are complete", len(bad) == 0, d)
	}
}

func (c *Checker) checkExtractCRC() {
	const anchor = "psi:ExtractCRC"
	var bad []string
	for _, sl := range []int{13, 20, 100} {
		// the payload ends exactly with the section, one byte later, ten bytes later
		for _, extra := range []int{0, 1, 10} {
			var in0 *Interp
			s, _ := c.summary("C06.crc", anchor, &AnalyzeOpts{SliceLen: map[string]int{"payload": 4 + sl + extra}, Setup: func(in *Interp) { in0 = in }, Pre: patSeed(sl)})
			if s == nil {
				return
			}
			n := paramName(s, 0)
			tag := fmt.Sprintf("section_length=%d, %d byte(s) after the section: ", sl, extra)
			if e := in0.nilBit(s.RetN(1)); !(isConst(e) && e.c) {
				bad = append(bad, tag+"error "+showVal(s.RetN(1)))
				continue
			}
			ret, _ := s.RetN(0).(*BV)
			want := catBytes(cellBV(n, sl), cellBV(n, sl+1), cellBV(n, sl+2), cellBV(n, sl+3))
			if ok, d := matchBits(ret, want); !ok {
				bad = append(bad, tag+d)
			}
		}
	}
	c.check("C06.crc", anchor, "pointer_field 0: returns the big-endian word at the section's last four bytes (offset section_length … +3), whether or not anything follows the section", len(bad) == 0, strings.Join(bad, "; "))
}

func (c *Checker) checkReadPMT() {
	const anchor = "psi:ReadPMT"
	fn, err := c.P.Func(anchor)
	if err != nil {
		c.undecided("C06.reader", anchor, "anchor", err.Error())
		return
	}
	c.analysed[fn.String()] = true
	c.checkReadPMTStep(fn)
}

// pidSeed fixes the PID bits of a packet being read: flip < 0 gives exactly
// pid; flip = k gives bit k the complement of pid's bit k and leaves the other
// twelve symbolic (the thirteen classes together are every PID but pid).
func pidSeed(pid, flip int) func(i int64, b *BV) *BV {
	return func(i int64, b *BV) *BV {
		for k := 0; k < 13; k++ {
			at, bit := int64(2), k
			if k >= 8 {
				at, bit = 1, k-8
			}
			if at != i {
				continue
			}
			want := pid>>uint(k)&1 == 1
			switch {
			case flip < 0:
				b.Bits[bit] = bconst(want)
			case k == flip:
				b.Bits[bit] = bconst(!want)
			}
		}
		return b
	}
}

// packetReadModel replaces io.ReadFull by a model that fills a 188-byte
// buffer with symbolic bytes "rd[i]" adjusted by seed and returns an unknown
// count and error; *res receives the call's result, *buf the buffer.
func packetReadModel(res *Val, buf **SliceV, seed func(i int64, b *BV) *BV, also func(in *Interp)) func(in *Interp) {
	return func(in *Interp) {
		if also != nil {
			also(in)
		}
		prev := in.Intrinsic
		in.Intrinsic = func(f *ssa.Function, args []Val, st *State) (Val, bool) {
			if f.String() != "io.ReadFull" || len(args) != 2 {
				if prev != nil {
					return prev(f, args, st)
				}
				return nil, false
			}
			b, ok := args[1].(*SliceV)
			if !ok {
				in.fail("read model: buffer is %s", showVal(args[1]))
				return nil, true
			}
			lo, _ := b.Lo.ConstInt()
			n, _ := b.Len.ConstInt()
			if n != 188 {
				in.fail("read model: the buffer handed to io.ReadFull has %d bytes, not a whole packet", n)
				return nil, true
			}
			for i := int64(0); i < n; i++ {
				v := &BV{W: 8, Bits: append([]Bit(nil), cellBV("rd", int(i)).Bits...)}
				if seed != nil {
					v = seed(i, v)
				}
				in.setCell(st, b.Obj, joinPath(b.Prefix, int(lo+i)), v)
			}
			v := in.opaque(f.Signature.Results(), "io.ReadFull")
			in.event(Event{Kind: "call", Note: "io.ReadFull", Val: v})
			*res = v
			if buf != nil {
				*buf = b
			}
			return v, true
		}
	}
}

// checkReadPMTStep: one abstract iteration of ReadPMT's loop from a symbolic
// loop state (accumulator, table so far, done flag), the read replaced by
// packetReadModel, NewPMT and the accumulator's methods uninterpreted (they
// are decided by C06.parse and C17).
func (c *Checker) checkReadPMTStep(fn *ssa.Function) {
	const anchor = "psi:ReadPMT"
	const rule = "C06.readstep"
	newPMT, _ := c.P.Func("psi:NewPMT")
	doneFn, _ := c.P.Func("psi:PmtAccumulatorDoneFunc")
	type run struct {
		ls  *LoopStep
		rd  Val
		buf *SliceV
		err error
	}
	step := func(pid, flip int) *run {
		r := &run{}
		setup := packetReadModel(&r.rd, &r.buf, pidSeed(pid, flip), func(in *Interp) {
			prev := in.OpaqueFn
			in.OpaqueFn = func(f *ssa.Function) bool { return f == newPMT || (prev != nil && prev(f)) }
		})
		r.ls, r.err = AnalyzeLoop(c.P, fn, &AnalyzeOpts{Args: map[string]Val{pinnedParamName(fn, 1, "pid"): constInt(int64(pid), 64, true)}, Setup: setup})
		return r
	}
	phiOf := func(ls *LoopStep, isT func(t types.Type) bool) *ssa.Phi {
		var out *ssa.Phi
		for _, p := range ls.Phis {
			if isT(p.Type()) {
				if out != nil {
					return nil
				}
				out = p
			}
		}
		return out
	}
	isBool := func(t types.Type) bool { b, ok := t.Underlying().(*types.Basic); return ok && b.Kind() == types.Bool }
	isNamed := func(name string) func(t types.Type) bool {
		return func(t types.Type) bool { return strings.HasSuffix(t.String(), name) }
	}
	// entry facts of an iteration: the loop runs while the table is not complete
	inLoop := func(r *run) (*factSet, Bit, bool) {
		fs := newFactSet(nil)
		tup, _ := r.rd.(*StructV)
		if tup == nil || len(tup.Fields) != 2 {
			return nil, nil, false
		}
		if dp := phiOf(r.ls, isBool); dp != nil {
			if d, ok := r.ls.Pre[dp].(*BV); ok && d.W == 1 {
				fs.assume(bnot(d.Bits[0]))
			}
		}
		return fs, r.ls.Sum.in.nilBit(tup.Fields[1]), true
	}
	callsOf := func(r *run, suffix string) []*Event {
		var out []*Event
		for i := range r.ls.Sum.Events {
			e := &r.ls.Sum.Events[i]
			if e.Kind == "call" && strings.HasSuffix(e.Note, suffix) {
				out = append(out, e)
			}
		}
		return out
	}
	// (a) packets of other PIDs are skipped
	bad, first, n := 0, "", 0
	for _, pid := range []int{0x100, 0x1FFF, 0x0011} {
		for k := 0; k < 13; k++ {
			r := step(pid, k)
			n++
			why := ""
			fs, erNil, ok := inLoop(r)
			switch {
			case r.err != nil:
				why = r.err.Error()
			case !ok:
				why = "no io.ReadFull call in the loop"
			default:
				fs.assume(erNil)
				if cont := fs.bit(r.ls.Cond); !isConst(cont) || !cont.c {
					why = "the loop goes on only under " + cont.String()
				}
				for _, e := range callsOf(r, ".WritePacket") {
					if dc := fs.bit(e.Cond); !isConst(dc) || dc.c {
						why = "the packet is accumulated under " + dc.String()
					}
				}
				for _, p := range r.ls.Phis {
					if why == "" && !sameVal(fs.val(r.ls.Next[p]), fs.val(r.ls.Pre[p])) {
						why = "loop variable " + p.Comment + " changes: " + showVal(fs.val(r.ls.Next[p]))
					}
				}
			}
			if why != "" {
				bad++
				if first == "" {
					first = fmt.Sprintf("requested PID %#x, packet PID differing in bit %d: %s", pid, k, why)
				}
			}
		}
	}
	c.check(rule, anchor, "a packet of another PID is skipped whatever it contains and changes nothing (3 requested PIDs x 13 one-bit classes)", bad == 0, fmt.Sprintf("%d of %d classes fail; first: %s", bad, n, first))
	// (b) a packet of the requested PID
	r := step(0x100, -1)
	fs, erNil, ok := inLoop(r)
	if r.err != nil || !ok {
		c.undecided(rule, anchor, "loop step", fmt.Sprintf("packet of the requested PID: %v", r.err))
		return
	}
	in := r.ls.Sum.in
	accPhi := phiOf(r.ls, isNamed("packet.Accumulator"))
	pmtPhi := phiOf(r.ls, isNamed("psi.PMT"))
	donePhi := phiOf(r.ls, isBool)
	wr, by, np, pd := callsOf(r, ".WritePacket"), callsOf(r, "Accumulator).Bytes"), callsOf(r, "psi.NewPMT"), callsOf(r, "PMT).Pids")
	// the table found and a completion flag are loop state only in some
	// formulations (others return from inside the loop)
	if accPhi == nil || (donePhi == nil) != (pmtPhi == nil) || len(wr) != 1 || len(by) != 1 || len(np) != 1 || len(pd) != 1 {
		c.undecided(rule, anchor, "loop step", fmt.Sprintf("loop state or calls not recognised (accumulator %v, table %v, done %v; %d WritePacket, %d Bytes, %d NewPMT, %d Pids)", accPhi != nil, pmtPhi != nil, donePhi != nil, len(wr), len(by), len(np), len(pd)))
		return
	}
	// the loop starts with a fresh accumulator using the PMT completion predicate
	freshAcc := func(v Val) string {
		iv, ok := v.(*IfaceV)
		if !ok {
			return "is " + showVal(v)
		}
		p, ok := iv.V.(*Ptr)
		if !ok || !r.ls.Sum.Out.born[p.Obj] && p.Obj.Kind == "param" {
			return "is " + showVal(v)
		}
		fi, _, err := c.P.structFieldIndex("packet", "accumulator", "f")
		if err != nil {
			return err.Error()
		}
		st := r.ls.Sum.Out
		for _, b := range r.ls.Back {
			if b != nil && b.cells[p.Obj] != nil {
				st = b
			}
		}
		fv, _ := in.loadPath(st, p.Obj, joinPath(p.Path, fi), doneFn.Signature).(*FuncV)
		if fv == nil || fv.Fn != interface{}(doneFn) {
			return "does not use PmtAccumulatorDoneFunc"
		}
		return ""
	}
	d := freshAcc(r.ls.Init[accPhi])
	c.check(rule, anchor, "accumulation starts with a new accumulator that uses the PMT completion predicate", d == "", "the accumulator "+d)
	werr := wr[0].Val.(*StructV).Fields[1]
	wNil, wDone := in.nilBit(werr), in.eqBit(werr, SymConst{Name: "gots.ErrAccumulatorDone"})
	npRes := np[0].Val.(*StructV)
	npNil := in.nilBit(npRes.Fields[1])
	nPids := in.lenOf(pd[0].Val)
	if nPids == nil {
		nPids, _ = in.opaqueNamed(types.Typ[types.Int], "len", pd[0].Val).(*BV)
	}
	if nPids == nil {
		c.undecided(rule, anchor, "loop step", "the length of the table's PID list is not an integer")
		return
	}
	empty := bvEq(nPids, constInt(0, 64, true))
	with := func(extra ...Bit) *factSet {
		f2 := newFactSet(fs)
		f2.assume(erNil)
		for _, b := range extra {
			f2.assume(b)
		}
		return f2
	}
	{
		f2 := with()
		dc := f2.bit(wr[0].Cond)
		okArg := false
		if len(wr[0].Args) == 2 {
			if sn, isSnap := wr[0].Args[1].(*SnapV); isSnap && r.buf != nil {
				okArg = sn.Ptr.Obj == r.buf.Obj && sn.Ptr.Base == 0 && sameVal(wr[0].Args[0], r.ls.Pre[accPhi])
			}
		}
		c.check(rule, anchor, "a packet of the requested PID is handed to the current accumulator", isConst(dc) && dc.c && okArg, fmt.Sprintf("WritePacket under %s with %s", dc, showVal(wr[0].Args)))
	}
	same := func(f2 *factSet, p *ssa.Phi) bool { return sameVal(f2.val(r.ls.Next[p]), f2.val(r.ls.Pre[p])) }
	goesOn := func(f2 *factSet) bool { b := f2.bit(r.ls.Cond); return isConst(b) && b.c }
	leaves := func(f2 *factSet) bool { b := f2.bit(r.ls.Cond); return isConst(b) && !b.c }
	{
		f2 := with(wNil, bnot(wDone))
		unchanged := true
		for _, p := range r.ls.Phis {
			unchanged = unchanged && same(f2, p)
		}
		c.check(rule, anchor, "accumulator not complete yet: the loop continues with the same accumulator", goesOn(f2) && unchanged, "next accumulator "+showVal(f2.val(r.ls.Next[accPhi])))
	}
	{
		f2 := with(bnot(wNil), wDone)
		dc := f2.bit(np[0].Cond)
		okArg := len(np[0].Args) == 1 && sameVal(np[0].Args[0], by[0].Val) && len(by[0].Args) == 1 && sameVal(by[0].Args[0], r.ls.Pre[accPhi])
		c.check(rule, anchor, "accumulator complete: the table is parsed from that accumulator's bytes", isConst(dc) && dc.c && okArg, fmt.Sprintf("NewPMT under %s with %s", dc, showVal(np[0].Args)))
	}
	{
		// "has streams" in each of the equivalent ways of writing it (a length is not negative)
		zero, one := constInt(0, nPids.W, true), constInt(1, nPids.W, true)
		f2 := with(bnot(wNil), wDone, npNil, bnot(empty), bvLt(zero, nPids), bnot(bvLt(nPids, one)), bnot(bvLt(nPids, zero)))
		good, d := false, ""
		if donePhi == nil {
			got0, got1 := f2.val(r.ls.Sum.RetN(0)), f2.val(r.ls.Sum.RetN(1))
			_, nilErr := got1.(NilV)
			good = leaves(f2) && sameVal(got0, npRes.Fields[0]) && nilErr
			d = fmt.Sprintf("result (%s, %s)", showVal(got0), showVal(got1))
		} else {
			nd, _ := f2.val(r.ls.Next[donePhi]).(*BV)
			okDone := nd != nil && nd.W == 1 && isConst(nd.Bits[0]) && nd.Bits[0].c
			good = goesOn(f2) && okDone && sameVal(f2.val(r.ls.Next[pmtPhi]), npRes.Fields[0])
			d = fmt.Sprintf("done=%s table=%s", showVal(f2.val(r.ls.Next[donePhi])), showVal(f2.val(r.ls.Next[pmtPhi])))
		}
		c.check(rule, anchor, "a table with elementary streams ends the search and becomes the result", good, d)
	}
	// invariant of the loop state: the accumulator carried into the next
	// iteration is the current one or a new one with the PMT predicate
	{
		d := ""
		for _, leaf := range muxLeaves(r.ls.Next[accPhi]) {
			if sameVal(leaf, r.ls.Pre[accPhi]) {
				continue
			}
			if w := freshAcc(leaf); w != "" {
				d = "a next accumulator " + w
			}
		}
		c.check(rule, anchor, "the accumulator carried into the next iteration is the current one or a new one that uses the PMT completion predicate", d == "", d)
	}
	// when the flag is set the loop is left with the table found
	if donePhi != nil {
		f2 := newFactSet(nil)
		if dv, ok := r.ls.Pre[donePhi].(*BV); ok {
			f2.assume(dv.Bits[0])
		}
		got0, got1 := f2.val(r.ls.Sum.RetN(0)), f2.val(r.ls.Sum.RetN(1))
		_, nilErr := got1.(NilV)
		c.check(rule, anchor, "once complete, the table found is returned without error", leaves(f2) && sameVal(got0, r.ls.Pre[pmtPhi]) && nilErr, fmt.Sprintf("result (%s, %s)", showVal(got0), showVal(got1)))
	}
}

// checkCarrier: the "with or without adaptation-field stuffing" clause at the
// level of one packet. The accumulator (C17) appends packet.Payload(pkt); this
// rule decides that those bytes are exactly the ones behind the adaptation
// field for the stuffing amounts a PMT packetiser produces, including the
// one-byte field (adaptation_field_length 0) that leaves 183 payload bytes.
// The full range of lengths is C02.partition.
func (c *Checker) checkCarrier() {
	const anchor = "packet:Payload"
	const rule = "C06.carrier"
	fn, err := c.P.Func(anchor)
	if err != nil {
		c.undecided(rule, anchor, "anchor", err.Error())
		return
	}
	c.analysed[fn.String()] = true
	var bad []string
	n := 0
	for _, L := range []int{-1, 0, 1, 7, 100, 181, 182} {
		L := L
		afc := 3
		if L < 0 {
			afc = 1
		}
		pre := func(in *Interp, st *State, ps []Val) {
			seedAFC(afc, 0)(in, st, ps)
			if L >= 0 {
				in.setCell(st, ps[0].(*Ptr).Obj, "4", constByte(L))
			}
		}
		sum := Analyze(c.P, fn, &AnalyzeOpts{Pre: pre, Setup: deepSetup})
		n++
		start := 4
		name := "no adaptation field"
		if L >= 0 {
			start = 5 + L
			name = fmt.Sprintf("adaptation_field_length %d", L)
		}
		if sum.Failed != "" {
			bad = append(bad, name+": analysis: "+sum.Failed)
			continue
		}
		if w := sum.WrittenCells(); len(w) > 0 {
			bad = append(bad, name+": writes "+strings.Join(w, ","))
			continue
		}
		if eq, dec, det := equivBits(sum.in.nilBit(sum.RetN(1)), bconst(true), 16); !eq || !dec {
			bad = append(bad, name+": a packet with the payload flag is refused: "+det)
			continue
		}
		lo, k, ok, why := windowOf(sum.RetN(0), paramObj(sum, 0))
		if !ok {
			bad = append(bad, name+": "+why)
		} else if lo != start || k != 188-start {
			bad = append(bad, fmt.Sprintf("%s: returns packet[%d:%d], the payload is packet[%d:188]", name, lo, lo+k, start))
		}
	}
	c.check(rule, anchor, "the bytes a PMT packet contributes are packet[payload start:188], without and with adaptation-field stuffing (field lengths 0, 1, 7, 100, 181, 182)", len(bad) == 0, strings.Join(bad, "; "))
	c.floorCheck("C06.carrier cases", n, 7)
}
