package main

import (
	"fmt"
	"sort"
)

// s35spec.go: reference model of the splice_info_section syntax (SCTE 35
// section 9) used by C08 and C09. A *shape* fixes everything that decides the
// layout (command type, flags that guard sub-structures, counts, lengths,
// descriptor kinds); every other bit of the section is symbolic. The encoder
// below turns a shape into the canonical section bytes — constant bits where
// the syntax or the shape fixes them, the section's own input bits elsewhere —
// and records, per logical field, which bits carry it.

type s35Desc struct {
	foreign bool // not a segmentation descriptor: tag + opaque body
	tag     int
	body    int

	cancel        bool
	programSeg    bool
	hasDuration   bool
	notRestricted bool
	comps         int
	upidType      int // 0x0D: multiple UPID list
	upidLen       int // single UPID
	mids          []int
	typeID        int
	hasSub        bool
}

type s35Shape struct {
	name    string
	pointer int
	cmd     int // 0 splice_null, 5 splice_insert, 6 time_signal

	cancel, program, duration, immediate bool
	noTime                               bool   // the command's splice_time has time_specified_flag 0 (encodings only)
	stuffing                             int    // alignment_stuffing bytes between the descriptor loop and the CRC (encodings only)
	compTimes                            []bool // component mode: time_specified per component (only read when !immediate)

	descs []s35Desc
}

// bitw assembles the section as a stream of bits, MSB first.
type bitw struct {
	obj  string
	bits []Bit
	// loc, when set, maps a byte position of the stream to the object and
	// index that holds it (streams spread over several input objects)
	loc func(i int) (string, int)
}

func (w *bitw) constBits(v uint64, n int) {
	for i := n - 1; i >= 0; i-- {
		w.bits = append(w.bits, bconst(v>>uint(i)&1 == 1))
	}
}

// srcBit: the input bit at absolute bit position pos of the section.
func (w *bitw) srcBit(pos int) Bit {
	if w.loc != nil {
		o, i := w.loc(pos / 8)
		return cellBV(o, i).Bits[7-pos%8]
	}
	return cellBV(w.obj, pos/8).Bits[7-pos%8]
}

// sym reserves n symbolic bits (the input's own bits at this position) and
// returns them MSB first.
func (w *bitw) sym(n int) []Bit {
	out := make([]Bit, n)
	for i := 0; i < n; i++ {
		out[i] = w.srcBit(len(w.bits))
		w.bits = append(w.bits, out[i])
	}
	return out
}

func (w *bitw) put(bs []Bit) { w.bits = append(w.bits, bs...) }

func (w *bitw) bytePos() int { return len(w.bits) / 8 }

// patch overwrites n constant bits at bit offset bitPos (length fields).
func (w *bitw) patch(bitPos int, v uint64, n int) {
	for i := 0; i < n; i++ {
		w.bits[bitPos+i] = bconst(v>>uint(n-1-i)&1 == 1)
	}
}

func (w *bitw) cells() []*BV {
	out := make([]*BV, len(w.bits)/8)
	for i := range out {
		b := &BV{W: 8, Bits: make([]Bit, 8)}
		for j := 0; j < 8; j++ {
			b.Bits[j] = w.bits[8*i+(7-j)]
		}
		out[i] = b
	}
	return out
}

// lsbBV turns MSB-first bits into a BV of width w (zero extended).
func lsbBV(bits []Bit, w int) *BV {
	r := &BV{W: w, Bits: make([]Bit, w)}
	for i := range r.Bits {
		r.Bits[i] = U.B0
	}
	for i, b := range bits {
		if k := len(bits) - 1 - i; k < w {
			r.Bits[k] = b
		}
	}
	return r
}

func zeroBits(n int) []Bit {
	r := make([]Bit, n)
	for i := range r {
		r[i] = U.B0
	}
	return r
}

// s35X is an encoded section: its bytes, where things are, and the value
// (MSB-first bits) of every named field.
type s35X struct {
	cells     []*BV
	sectionAt int // byte offset of table_id
	secLen    int
	cmdLen    int
	crcAt     int
	vals      map[string][]Bit
	descAt    []int // byte offset of each descriptor
	descLen   []int // its total length (tag and length byte included)
	other     []*BV // bytes of the foreign descriptors in order
}

func (x *s35X) v(name string) []Bit { return x.vals[name] }

// encode builds the canonical section for a shape. With vals == nil every
// field is symbolic — the input object's own bits at the field's position —
// and the field values are recorded; otherwise field values are taken from
// vals (missing fields: zero), which gives the expected encoding of a logical
// signal whose values are known.
func (sh s35Shape) encode(obj string, vals map[string][]Bit) *s35X {
	w := &bitw{obj: obj}
	x := &s35X{vals: map[string][]Bit{}}
	f := func(name string, n int) []Bit {
		var bs []Bit
		if vals == nil {
			bs = w.sym(n)
		} else {
			bs = vals[name]
			if bs == nil {
				bs = zeroBits(n)
			}
			if len(bs) > n {
				bs = bs[len(bs)-n:]
			}
			for len(bs) < n {
				bs = append([]Bit{U.B0}, bs...)
			}
			w.put(bs)
		}
		x.vals[name] = bs
		return bs
	}
	spliceTime := func(name string, specified bool) {
		if !specified {
			w.constBits(0, 1)
			w.constBits(0x7F, 7) // reserved
			return
		}
		w.constBits(1, 1)
		w.constBits(0x3F, 6) // reserved
		f(name, 33)
	}
	w.constBits(uint64(sh.pointer), 8)
	for i := 0; i < sh.pointer; i++ {
		f(fmt.Sprintf("ptr%d", i), 8)
	}
	x.sectionAt = w.bytePos()
	w.constBits(0xFC, 8)
	f("ssi", 1)
	f("priv", 1)
	w.constBits(3, 2) // reserved
	secLenAt := len(w.bits)
	w.constBits(0, 12)
	f("protocol", 8)
	w.constBits(0, 1) // encrypted_packet
	f("encAlg", 6)
	f("adj", 33)
	f("cw", 8)
	f("tier", 12)
	cmdLenAt := len(w.bits)
	w.constBits(0, 12)
	w.constBits(uint64(sh.cmd), 8)
	cmdStart := w.bytePos()
	switch sh.cmd {
	case 6:
		spliceTime("pts", !sh.noTime)
	case 5:
		f("eventID", 32)
		w.constBits(uint64(b2i(sh.cancel)), 1)
		w.constBits(0x7F, 7)
		if !sh.cancel {
			f("out", 1)
			w.constBits(uint64(b2i(sh.program)), 1)
			w.constBits(uint64(b2i(sh.duration)), 1)
			w.constBits(uint64(b2i(sh.immediate)), 1)
			w.constBits(0xF, 4)
			if sh.program && !sh.immediate {
				spliceTime("pts", !sh.noTime)
			}
			if !sh.program {
				w.constBits(uint64(len(sh.compTimes)), 8)
				for i, ts := range sh.compTimes {
					f(fmt.Sprintf("comp%d.tag", i), 8)
					if !sh.immediate {
						spliceTime(fmt.Sprintf("comp%d.pts", i), ts)
					}
				}
			}
			if sh.duration {
				f("autoReturn", 1)
				w.constBits(0x3F, 6)
				f("breakDur", 33)
			}
			f("progID", 16)
			f("availNum", 8)
			f("availsExp", 8)
		}
	}
	x.cmdLen = w.bytePos() - cmdStart
	w.patch(cmdLenAt, uint64(x.cmdLen), 12)
	loopAt := len(w.bits)
	w.constBits(0, 16)
	loopStart := w.bytePos()
	for j, d := range sh.descs {
		at := w.bytePos()
		x.descAt = append(x.descAt, at)
		p := fmt.Sprintf("d%d.", j)
		if d.foreign {
			w.constBits(uint64(d.tag), 8)
			w.constBits(uint64(d.body), 8)
			for b := 0; b < d.body; b++ {
				f(fmt.Sprintf("%sf%d", p, b), 8)
			}
			x.descLen = append(x.descLen, 2+d.body)
			continue
		}
		w.constBits(0x02, 8)
		lenAt := len(w.bits)
		w.constBits(0, 8)
		bodyStart := w.bytePos()
		w.constBits(0x43554549, 32)
		f(p+"eventID", 32)
		w.constBits(uint64(b2i(d.cancel)), 1)
		w.constBits(0x7F, 7)
		if !d.cancel {
			w.constBits(uint64(b2i(d.programSeg)), 1)
			w.constBits(uint64(b2i(d.hasDuration)), 1)
			w.constBits(uint64(b2i(d.notRestricted)), 1)
			if d.notRestricted {
				w.constBits(0x1F, 5)
			} else {
				f(p+"flags5", 5)
			}
			if !d.programSeg {
				w.constBits(uint64(d.comps), 8)
				for k := 0; k < d.comps; k++ {
					f(fmt.Sprintf("%sc%d.tag", p, k), 8)
					w.constBits(0x7F, 7)
					f(fmt.Sprintf("%sc%d.off", p, k), 33)
				}
			}
			if d.hasDuration {
				f(p+"duration", 40)
			}
			w.constBits(uint64(d.upidType), 8)
			if d.upidType == 0x0D {
				total := 0
				for _, n := range d.mids {
					total += 2 + n
				}
				w.constBits(uint64(total), 8)
				for k, n := range d.mids {
					w.constBits(uint64(midType(k)), 8)
					w.constBits(uint64(n), 8)
					for b := 0; b < n; b++ {
						f(fmt.Sprintf("%smid%d.%d", p, k, b), 8)
					}
				}
			} else {
				w.constBits(uint64(d.upidLen), 8)
				for b := 0; b < d.upidLen; b++ {
					f(fmt.Sprintf("%supid%d", p, b), 8)
				}
			}
			w.constBits(uint64(d.typeID), 8)
			f(p+"segNum", 8)
			f(p+"segsExp", 8)
			if d.hasSub {
				f(p+"subNum", 8)
				f(p+"subExp", 8)
			}
		}
		w.patch(lenAt, uint64(w.bytePos()-bodyStart), 8)
		x.descLen = append(x.descLen, w.bytePos()-at)
	}
	w.patch(loopAt, uint64(w.bytePos()-loopStart), 16)
	for i := 0; i < sh.stuffing; i++ {
		w.constBits(0, 8) // the encoder under analysis zero-fills; SCTE 35 leaves the value open
	}
	x.crcAt = w.bytePos()
	f("crc", 32)
	x.secLen = w.bytePos() - x.sectionAt - 3
	w.patch(secLenAt, uint64(x.secLen), 12)
	x.cells = w.cells()
	for j, d := range sh.descs {
		if d.foreign {
			x.other = append(x.other, x.cells[x.descAt[j]:x.descAt[j]+x.descLen[j]]...)
		}
	}
	return x
}

// midType: the inner UPID types used by the family (constants; they select nothing).
func midType(k int) int { return 0x08 + k%2 }

func (sh s35Shape) String() string { return sh.name }

// s35Shapes enumerates the layout family.
func s35Shapes(thorough bool) []s35Shape {
	seg := func(mod func(d *s35Desc)) s35Desc {
		d := s35Desc{programSeg: true, typeID: 0x30, upidType: 0x09, upidLen: 4}
		if mod != nil {
			mod(&d)
		}
		return d
	}
	plain := seg(nil)
	descSets := map[string][]s35Desc{
		"no descriptors":                                  nil,
		"one program-mode descriptor":                     {plain},
		"cancelled descriptor":                            {seg(func(d *s35Desc) { d.cancel = true })},
		"duration, delivery restricted flags, empty UPID": {seg(func(d *s35Desc) { d.hasDuration = true; d.upidType = 0; d.upidLen = 0; d.typeID = 0x10 })},
		"delivery not restricted":                         {seg(func(d *s35Desc) { d.notRestricted = true; d.typeID = 0x22 })},
		"component mode, 2 components, duration":          {seg(func(d *s35Desc) { d.programSeg = false; d.comps = 2; d.hasDuration = true })},
		"component mode, 0 components":                    {seg(func(d *s35Desc) { d.programSeg = false; d.comps = 0 })},
		// the component list followed by exactly the five fixed trailing bytes
		// (no duration, empty UPID, no sub-segments): the exact-fit case of the
		// component length guard (seed C08f)
		"component mode, 2 components, minimal tail": {seg(func(d *s35Desc) { d.programSeg = false; d.comps = 2; d.upidType = 0; d.upidLen = 0 })},
		"component mode, 0 components, minimal tail": {seg(func(d *s35Desc) { d.programSeg = false; d.comps = 0; d.upidType = 0; d.upidLen = 0 })},
		"multiple UPID (3 and 0 bytes)":              {seg(func(d *s35Desc) { d.upidType = 0x0D; d.mids = []int{3, 0} })},
		"sub-segments (type 0x34)":                   {seg(func(d *s35Desc) { d.typeID = 0x34; d.hasSub = true })},
		"type 0x36 without sub-segments":             {seg(func(d *s35Desc) { d.typeID = 0x36 })},
		"foreign, segmentation, foreign":             {{foreign: true, tag: 0x00, body: 3}, plain, {foreign: true, tag: 0x01, body: 0}},
		// a rich descriptor followed by a plain and a cancelled one: nothing of the
		// first may show in the later ones (seed C08i: one scratch value reused)
		"sub-segmented component descriptor, then a plain and a cancelled one": {seg(func(d *s35Desc) {
			d.programSeg = false
			d.comps = 1
			d.hasDuration = true
			d.typeID = 0x34
			d.hasSub = true
		}), seg(func(d *s35Desc) { d.notRestricted = true }), seg(func(d *s35Desc) { d.cancel = true })},
		"three descriptors of different shapes": {seg(func(d *s35Desc) { d.cancel = true }),
			seg(func(d *s35Desc) {
				d.programSeg = false
				d.comps = 1
				d.hasDuration = true
				d.upidType = 0x0D
				d.mids = []int{2}
			}),
			seg(func(d *s35Desc) {
				d.typeID = 0x36
				d.hasSub = true
				d.notRestricted = true
				d.upidLen = 0
				d.upidType = 0
			})},
	}
	var names []string
	for k := range descSets {
		names = append(names, k)
	}
	sort.Strings(names)
	type cmdShape struct {
		name string
		s    s35Shape
	}
	cmds := []cmdShape{
		{"splice_null", s35Shape{cmd: 0}},
		{"time_signal", s35Shape{cmd: 6}},
		{"splice_insert program timed", s35Shape{cmd: 5, program: true}},
		{"splice_insert program timed with break_duration", s35Shape{cmd: 5, program: true, duration: true}},
		{"splice_insert program immediate", s35Shape{cmd: 5, program: true, immediate: true}},
		{"splice_insert cancelled", s35Shape{cmd: 5, cancel: true}},
		{"splice_insert component mode timed (2 components, one without time)", s35Shape{cmd: 5, compTimes: []bool{true, false}, duration: true}},
		{"splice_insert component mode immediate (1 component)", s35Shape{cmd: 5, immediate: true, compTimes: []bool{false}}},
		{"splice_insert component mode, no components", s35Shape{cmd: 5, compTimes: nil}},
	}
	var out []s35Shape
	ptrs := []int{0, 2}
	if thorough {
		ptrs = []int{0, 1, 2, 7}
	}
	for _, c := range cmds {
		for _, dn := range names {
			for _, ptr := range ptrs {
				s := c.s
				s.pointer = ptr
				s.descs = descSets[dn]
				s.name = fmt.Sprintf("%s; %s; pointer_field %d", c.name, dn, ptr)
				out = append(out, s)
			}
		}
	}
	// descriptors whose length byte is at the top of its range (the loop's
	// byte accounting must not be done in a byte): with the two smallest
	// commands only, pointer_field 0
	long := []struct {
		name string
		d    []s35Desc
	}{
		{"foreign descriptor of 254 bytes", []s35Desc{{foreign: true, tag: 0x00, body: 254}}},
		{"foreign descriptor of 255 bytes, then a segmentation descriptor", []s35Desc{{foreign: true, tag: 0x01, body: 255}, plain}},
		{"segmentation descriptor of 255 bytes (240-byte UPID)", []s35Desc{seg(func(d *s35Desc) { d.upidLen = 240 })}},
		{"segmentation descriptor of 254 bytes (239-byte UPID), then a foreign one", []s35Desc{seg(func(d *s35Desc) { d.upidLen = 239 }), {foreign: true, tag: 0x00, body: 2}}},
	}
	for _, c := range cmds[:2] {
		for _, l := range long {
			s := c.s
			s.descs = l.d
			s.name = fmt.Sprintf("%s; %s; pointer_field 0", c.name, l.name)
			out = append(out, s)
		}
	}
	// pointer_field at the top of its range (offsets derived from it must not
	// be computed in a byte): the two smallest commands, one descriptor
	for _, c := range cmds[:2] {
		for _, ptr := range []int{254, 255} {
			s := c.s
			s.pointer = ptr
			s.descs = descSets["one program-mode descriptor"]
			s.name = fmt.Sprintf("%s; one program-mode descriptor; pointer_field %d", c.name, ptr)
			out = append(out, s)
		}
	}
	return out
}
