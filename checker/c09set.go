package main

import (
	"fmt"
	"go/types"
	"strings"
)

// c09set.go: setter checks of C09. A setter is applied to an object obtained
// by decoding a base shape; the matching getter must report the value
// (truncated to the field width) and the next UpdateData() must be the
// canonical encoding of the updated logical signal.

// s35Edit describes one setter call and its expected effect.
type s35Edit struct {
	target string // sig | cmd | comp<i> | d<j> | d<j>.c<k>
	method string
	what   string // argument class for the obligation key
	// args builds the arguments inside the interpreter state
	args func(n *nav) []Val
	// applies: the base shape has the target and the call is meaningful
	applies func(sh s35Shape) bool
	// effect updates the expected logical signal
	effect func(sh *s35Shape, vals map[string][]Bit)
	// getter to call afterwards on the same target, and what it must return
	getter  string
	getBits func(sh s35Shape, vals map[string][]Bit) ([]Bit, int) // MSB-first value and result width
	ptsTest bool                                                  // the pts_adjustment bits are part of the comparison (sampled)
}

func msbBits(v *BV, n int) []Bit {
	out := make([]Bit, n)
	for i := 0; i < n; i++ {
		if k := n - 1 - i; k < len(v.Bits) {
			out[i] = v.Bits[k]
		} else {
			out[i] = U.B0
		}
	}
	return out
}

func constMSB(v uint64, n int) []Bit {
	out := make([]Bit, n)
	for i := range out {
		out[i] = bconst(v>>uint(n-1-i)&1 == 1)
	}
	return out
}

func cloneVals(v map[string][]Bit) map[string][]Bit {
	n := make(map[string][]Bit, len(v))
	for k, x := range v {
		n[k] = x
	}
	return n
}

func cloneShape(sh s35Shape) s35Shape {
	n := sh
	n.compTimes = append([]bool(nil), sh.compTimes...)
	n.descs = append([]s35Desc(nil), sh.descs...)
	for i := range n.descs {
		n.descs[i].mids = append([]int(nil), sh.descs[i].mids...)
	}
	return n
}

// target resolves the object a setter is applied to. segIdx maps the j-th
// segmentation descriptor to its index in sh.descs.
func (n *nav) s35Target(sig Val, sh s35Shape, target string) (Val, string) {
	switch {
	case target == "sig":
		return sig, ""
	case target == "cmd":
		return n.call(sig, "CommandInfo"), ""
	case strings.HasPrefix(target, "comp"):
		var i int
		fmt.Sscanf(target, "comp%d", &i)
		cs, ok := n.elems(n.call(n.call(sig, "CommandInfo"), "Components"))
		if !ok || i >= len(cs) {
			return nil, "no such component"
		}
		return cs[i], ""
	case strings.HasPrefix(target, "d"):
		var j, k int
		sub := ""
		if p := strings.Index(target, "."); p > 0 {
			fmt.Sscanf(target[:p], "d%d", &j)
			sub = target[p+1:]
		} else {
			fmt.Sscanf(target, "d%d", &j)
		}
		ds, ok := n.elems(n.call(sig, "Descriptors"))
		seg := -1
		for idx, d := range sh.descs {
			if !d.foreign {
				seg++
			}
			if idx == j {
				break
			}
		}
		if !ok || seg < 0 || seg >= len(ds) {
			return nil, "no such descriptor"
		}
		if sub == "" {
			return ds[seg], ""
		}
		if strings.HasPrefix(sub, "mid") {
			fmt.Sscanf(sub, "mid%d", &k)
			ms, ok := n.elems(n.call(ds[seg], "MID"))
			if !ok || k >= len(ms) {
				return nil, "no such UPID in the list"
			}
			return ms[k], ""
		}
		fmt.Sscanf(sub, "c%d", &k)
		cs, ok := n.elems(n.call(ds[seg], "Components"))
		if !ok || k >= len(cs) {
			return nil, "no such descriptor component"
		}
		return cs[k], ""
	}
	return nil, "unknown target"
}

func boolEdit(target, method, getter string, applies func(sh s35Shape) bool, eff func(v bool, sh *s35Shape, vals map[string][]Bit)) []s35Edit {
	var out []s35Edit
	for _, v := range []bool{true, false} {
		v := v
		out = append(out, s35Edit{target: target, method: method, what: fmt.Sprintf("(%v)", v),
			args: func(n *nav) []Val { return []Val{boolConst(v)} }, applies: applies,
			effect: func(sh *s35Shape, vals map[string][]Bit) { eff(v, sh, vals) },
			getter: getter, getBits: func(sh s35Shape, vals map[string][]Bit) ([]Bit, int) { return []Bit{bconst(v)}, 1 }})
	}
	return out
}

// valueEdit: setter of an integer field: argument of argW bits (symbolic), the
// field keeps fieldW bits, the getter returns a getW-bit integer.
func valueEdit(target, method, getter, field string, argW, fieldW, getW int, applies func(sh s35Shape) bool) s35Edit {
	arg := func() *BV { return uintArg(fmt.Sprintf("value%d", argW), argW, argW, false) }
	return s35Edit{target: target, method: method, what: "(value)",
		args: func(n *nav) []Val { return []Val{arg()} }, applies: applies,
		effect: func(sh *s35Shape, vals map[string][]Bit) { vals[field] = msbBits(arg(), fieldW) },
		getter: getter, getBits: func(sh s35Shape, vals map[string][]Bit) ([]Bit, int) { return msbBits(arg(), fieldW), getW }}
}

func symBoolEdit(target, method, getter, field string, applies func(sh s35Shape) bool) s35Edit {
	return s35Edit{target: target, method: method, what: "(value)",
		args: func(n *nav) []Val { return []Val{boolArg("flag")} }, applies: applies,
		effect: func(sh *s35Shape, vals map[string][]Bit) { vals[field] = []Bit{boolArg("flag").Bits[0]} },
		getter: getter, getBits: func(sh s35Shape, vals map[string][]Bit) ([]Bit, int) { return []Bit{boolArg("flag").Bits[0]}, 1 }}
}

func isInsert(sh s35Shape) bool   { return sh.cmd == 5 }
func liveInsert(sh s35Shape) bool { return sh.cmd == 5 && !sh.cancel }
func timedCommand(sh s35Shape) bool {
	return sh.cmd == 6 || sh.cmd == 5 && !sh.cancel && sh.program && !sh.immediate
}

func segAt(j int, pred func(d s35Desc) bool) func(sh s35Shape) bool {
	return func(sh s35Shape) bool {
		return j < len(sh.descs) && !sh.descs[j].foreign && (pred == nil || pred(sh.descs[j]))
	}
}

func liveDesc(d s35Desc) bool { return !d.cancel }

// s35Edits: the setter table. Descriptor setters are instantiated for
// descriptor index j.
func s35Edits() []s35Edit {
	var es []s35Edit
	any := func(sh s35Shape) bool { return true }
	// ---- signal
	es = append(es, valueEdit("sig", "SetTier", "Tier", "tier", 16, 12, 16, any))
	for _, k := range []int{0, 3} {
		k := k
		es = append(es, s35Edit{target: "sig", method: "SetAlignmentStuffing", what: fmt.Sprintf("(%d)", k), applies: any,
			args:   func(n *nav) []Val { return []Val{constInt(int64(k), 64, false)} },
			effect: func(sh *s35Shape, vals map[string][]Bit) { sh.stuffing = k },
			getter: "AlignmentStuffing", getBits: func(sh s35Shape, vals map[string][]Bit) ([]Bit, int) { return constMSB(uint64(k), 64), 64 }})
	}
	// replacing the command: the new command has no fields set; the signal keeps its (adjusted) time
	for _, ctor := range []struct {
		fn  string
		cmd int
	}{{"scte35:CreateSpliceNull", 0}, {"scte35:CreateTimeSignalCommand", 6}, {"scte35:CreateSpliceInsertCommand", 5}} {
		ctor := ctor
		es = append(es, s35Edit{target: "sig", method: "SetCommandInfo", what: "(" + strings.TrimPrefix(ctor.fn, "scte35:") + "())", applies: any, ptsTest: true,
			args: func(n *nav) []Val { return []Val{n.callFn(ctor.fn)} },
			effect: func(sh *s35Shape, vals map[string][]Bit) {
				// signal time: pts_time + adjustment if the old command had a time, else what the decoder stored
				old := vals["adj"]
				if timedCommand(*sh) {
					sum := bvAdd(lsbBV(vals["pts"], 64), lsbBV(vals["adj"], 64), false)
					old = msbBits(sum, 33)
				} else if sh.cmd == 5 && sh.cancel {
					old = vals["adj"]
				}
				for k := range vals {
					if !strings.HasPrefix(k, "d") && k != "tier" && k != "ssi" && k != "priv" && k != "protocol" && k != "encAlg" && k != "cw" {
						delete(vals, k)
					}
				}
				vals["adj"] = old // the new command's time is 0
				*sh = s35Shape{name: sh.name, pointer: sh.pointer, cmd: ctor.cmd, descs: sh.descs, noTime: true, program: ctor.cmd == 5}
			},
			getter: "Command", getBits: func(sh s35Shape, vals map[string][]Bit) ([]Bit, int) { return constMSB(uint64(ctor.cmd), 16), 16 }})
	}
	// ---- splice_insert
	es = append(es, valueEdit("cmd", "SetEventID", "EventID", "eventID", 32, 32, 32, isInsert))
	es = append(es, symBoolEdit("cmd", "SetIsOut", "IsOut", "out", liveInsert))
	// a splice_time that comes into existence has no time unless one was decoded
	es = append(es, boolEdit("cmd", "SetIsProgramSplice", "IsProgramSplice", liveInsert, func(v bool, sh *s35Shape, vals map[string][]Bit) {
		had := timedCommand(*sh)
		sh.program = v
		sh.noTime = !had
	})...)
	es = append(es, boolEdit("cmd", "SetSpliceImmediate", "SpliceImmediate", liveInsert, func(v bool, sh *s35Shape, vals map[string][]Bit) {
		had := timedCommand(*sh)
		sh.immediate = v
		sh.noTime = !had
		if !v && !sh.program {
			// components get a splice_time each: unspecified unless decoded with one
			for i := range sh.compTimes {
				sh.compTimes[i] = sh.compTimes[i] && !sh.immediate && vals[fmt.Sprintf("comp%d.pts", i)] != nil
			}
		}
	})...)
	es = append(es, boolEdit("cmd", "SetIsEventCanceled", "IsEventCanceled", isInsert, func(v bool, sh *s35Shape, vals map[string][]Bit) { sh.cancel = v })...)
	// time of the command
	hasTimeSlot := func(sh s35Shape) bool { return sh.cmd == 6 || liveInsert(sh) }
	setHas := func(v bool, sh *s35Shape, vals map[string][]Bit) { sh.noTime = !v }
	es = append(es, boolEdit("cmd", "SetHasPTS", "HasPTS", hasTimeSlot, setHas)...)
	es = append(es, boolEdit("sig", "SetHasPTS", "HasPTS", hasTimeSlot, setHas)...)
	es = append(es, valueEdit("cmd", "SetPTS", "PTS", "pts", 64, 33, 64, timedCommand))
	{
		arg := func() *BV { return uintArg("value64", 64, 64, false) }
		es = append(es, s35Edit{target: "sig", method: "SetPTS", what: "(value)", applies: timedCommand, ptsTest: true,
			args: func(n *nav) []Val { return []Val{arg()} },
			effect: func(sh *s35Shape, vals map[string][]Bit) {
				vals["pts"] = msbBits(arg(), 33)
				vals["adj"] = zeroBits(33)
			},
			getter: "PTS", getBits: func(sh s35Shape, vals map[string][]Bit) ([]Bit, int) { return msbBits(arg(), 33), 64 }})
		es = append(es, s35Edit{target: "sig", method: "SetAdjustPTS", what: "(value)", applies: timedCommand, ptsTest: true,
			args: func(n *nav) []Val { return []Val{arg()} },
			effect: func(sh *s35Shape, vals map[string][]Bit) {
				diff := bvAdd(arg(), lsbBV(vals["pts"], 64), true)
				vals["adj"] = msbBits(diff, 33)
			},
			getter: "PTS", getBits: func(sh s35Shape, vals map[string][]Bit) ([]Bit, int) { return msbBits(arg(), 33), 64 }})
	}
	es = append(es, boolEdit("cmd", "SetHasDuration", "HasDuration", liveInsert, func(v bool, sh *s35Shape, vals map[string][]Bit) { sh.duration = v })...)
	es = append(es, valueEdit("cmd", "SetDuration", "Duration", "breakDur", 64, 33, 64, func(sh s35Shape) bool { return liveInsert(sh) && sh.duration }))
	es = append(es, symBoolEdit("cmd", "SetIsAutoReturn", "IsAutoReturn", "autoReturn", func(sh s35Shape) bool { return liveInsert(sh) && sh.duration }))
	es = append(es, valueEdit("cmd", "SetUniqueProgramId", "UniqueProgramId", "progID", 16, 16, 16, liveInsert))
	es = append(es, valueEdit("cmd", "SetAvailNum", "AvailNum", "availNum", 8, 8, 8, liveInsert))
	es = append(es, valueEdit("cmd", "SetAvailsExpected", "AvailsExpected", "availsExp", 8, 8, 8, liveInsert))
	// component of a splice_insert
	compOK := func(sh s35Shape) bool { return liveInsert(sh) && !sh.program && len(sh.compTimes) > 0 }
	es = append(es, valueEdit("comp0", "SetComponentTag", "ComponentTag", "comp0.tag", 8, 8, 8, compOK))
	es = append(es, valueEdit("comp0", "SetPTS", "PTS", "comp0.pts", 64, 33, 64, func(sh s35Shape) bool { return compOK(sh) && !sh.immediate && sh.compTimes[0] }))
	es = append(es, boolEdit("comp0", "SetHasPTS", "HasPTS", func(sh s35Shape) bool { return compOK(sh) && !sh.immediate },
		func(v bool, sh *s35Shape, vals map[string][]Bit) { sh.compTimes[0] = v })...)
	// ---- descriptors (index 0 and 1)
	for _, j := range []int{0, 1} {
		t := fmt.Sprintf("d%d", j)
		p := t + "."
		live := segAt(j, liveDesc)
		es = append(es, valueEdit(t, "SetEventID", "EventID", p+"eventID", 32, 32, 32, segAt(j, nil)))
		es = append(es, boolEdit(t, "SetIsEventCanceled", "IsEventCanceled", segAt(j, nil), func(v bool, sh *s35Shape, vals map[string][]Bit) {
			if !v && sh.descs[j].cancel {
				// nothing after the indicator was decoded: all remaining fields are zero
				sh.descs[j] = s35Desc{}
			}
			sh.descs[j].cancel = v
		})...)
		es = append(es, boolEdit(t, "SetHasDuration", "HasDuration", live, func(v bool, sh *s35Shape, vals map[string][]Bit) { sh.descs[j].hasDuration = v })...)
		es = append(es, valueEdit(t, "SetDuration", "Duration", p+"duration", 64, 40, 64, segAt(j, func(d s35Desc) bool { return liveDesc(d) && d.hasDuration })))
		es = append(es, boolEdit(t, "SetHasProgramSegmentation", "HasProgramSegmentation", live, func(v bool, sh *s35Shape, vals map[string][]Bit) {
			sh.descs[j].programSeg = v
		})...)
		es = append(es, boolEdit(t, "SetIsDeliveryNotRestricted", "IsDeliveryNotRestricted", live, func(v bool, sh *s35Shape, vals map[string][]Bit) {
			sh.descs[j].notRestricted = v
		})...)
		restricted := segAt(j, func(d s35Desc) bool { return liveDesc(d) && !d.notRestricted })
		flagBit := func(method, getter string, idx int) s35Edit {
			return s35Edit{target: t, method: method, what: "(value)", applies: restricted,
				args: func(n *nav) []Val { return []Val{boolArg("flag")} },
				effect: func(sh *s35Shape, vals map[string][]Bit) {
					f := append([]Bit(nil), vals[p+"flags5"]...)
					f[idx] = boolArg("flag").Bits[0]
					vals[p+"flags5"] = f
				},
				getter: getter, getBits: func(sh s35Shape, vals map[string][]Bit) ([]Bit, int) { return []Bit{boolArg("flag").Bits[0]}, 1 }}
		}
		es = append(es, flagBit("SetIsWebDeliveryAllowed", "IsWebDeliveryAllowed", 0), flagBit("SetHasNoRegionalBlackout", "HasNoRegionalBlackout", 1), flagBit("SetIsArchiveAllowed", "IsArchiveAllowed", 2))
		es = append(es, s35Edit{target: t, method: "SetDeviceRestrictions", what: "(value)", applies: restricted,
			args: func(n *nav) []Val { return []Val{uintArg("value8", 8, 8, false)} },
			effect: func(sh *s35Shape, vals map[string][]Bit) {
				f := append([]Bit(nil), vals[p+"flags5"]...)
				a := msbBits(uintArg("value8", 8, 8, false), 2)
				f[3], f[4] = a[0], a[1]
				vals[p+"flags5"] = f
			},
			getter: "DeviceRestrictions", getBits: func(sh s35Shape, vals map[string][]Bit) ([]Bit, int) {
				return msbBits(uintArg("value8", 8, 8, false), 2), 8
			}})
		es = append(es, valueEdit(t, "SetSegmentNumber", "SegmentNumber", p+"segNum", 8, 8, 8, live))
		es = append(es, valueEdit(t, "SetSegmentsExpected", "SegmentsExpected", p+"segsExp", 8, 8, 8, live))
		hasSub := segAt(j, func(d s35Desc) bool { return liveDesc(d) && d.hasSub })
		es = append(es, valueEdit(t, "SetSubSegmentNumber", "SubSegmentNumber", p+"subNum", 8, 8, 8, hasSub))
		es = append(es, valueEdit(t, "SetSubSegmentsExpected", "SubSegmentsExpected", p+"subExp", 8, 8, 8, hasSub))
		es = append(es, boolEdit(t, "SetHasSubSegments", "HasSubSegments", segAt(j, func(d s35Desc) bool { return liveDesc(d) && (d.typeID == 0x34 || d.typeID == 0x36) }),
			func(v bool, sh *s35Shape, vals map[string][]Bit) { sh.descs[j].hasSub = v })...)
		// the flag set on a descriptor whose type has no sub-segment fields in
		// SCTE 35 (anything but 0x34/0x36): the encoding stays the canonical one
		// without them — the decoder would not read them back (seed C09i)
		es = append(es, s35Edit{target: t, method: "SetHasSubSegments", what: "(true) on a type without sub-segment fields",
			applies: segAt(j, func(d s35Desc) bool { return liveDesc(d) && d.typeID != 0x34 && d.typeID != 0x36 }),
			args:    func(n *nav) []Val { return []Val{boolConst(true)} },
			effect:  func(sh *s35Shape, vals map[string][]Bit) {}})
		for _, ty := range []int{0x10, 0x34, 0x36, 0x30} {
			ty := ty
			es = append(es, s35Edit{target: t, method: "SetTypeID", what: fmt.Sprintf("(%#x)", ty), applies: live,
				args: func(n *nav) []Val { return []Val{constInt(int64(ty), 8, false)} },
				effect: func(sh *s35Shape, vals map[string][]Bit) {
					sh.descs[j].typeID = ty
					if ty != 0x34 && ty != 0x36 {
						sh.descs[j].hasSub = false
					}
				},
				getter: "TypeID", getBits: func(sh s35Shape, vals map[string][]Bit) ([]Bit, int) { return constMSB(uint64(ty), 8), 8 }})
		}
		// single UPID
		for _, k := range []int{0, 1, 5} {
			k := k
			es = append(es, s35Edit{target: t, method: "SetUPID", what: fmt.Sprintf("(%d bytes)", k),
				applies: segAt(j, func(d s35Desc) bool { return liveDesc(d) && d.upidType != 0x0D }),
				args:    func(n *nav) []Val { return []Val{n.symBytes("upid", k)} },
				effect: func(sh *s35Shape, vals map[string][]Bit) {
					sh.descs[j].upidLen = k
					for b := 0; b < k; b++ {
						vals[fmt.Sprintf("%supid%d", p, b)] = msbBits(cellBV("upid", b), 8)
					}
				}})
		}
		for _, ty := range []int{0x00, 0x08, 0x0D} {
			ty := ty
			es = append(es, s35Edit{target: t, method: "SetUPIDType", what: fmt.Sprintf("(%#x)", ty), applies: live,
				args: func(n *nav) []Val { return []Val{constInt(int64(ty), 8, false)} },
				effect: func(sh *s35Shape, vals map[string][]Bit) {
					d := &sh.descs[j]
					switch {
					case ty == 0x0D:
						if d.upidType != 0x0D {
							d.mids = nil
						}
						d.upidLen = 0
					case ty == 0:
						d.mids, d.upidLen = nil, 0
					default:
						if d.upidType == 0x0D {
							d.upidLen = 0
						}
						d.mids = nil
					}
					d.upidType = ty
				},
				getter: "UPIDType", getBits: func(sh s35Shape, vals map[string][]Bit) ([]Bit, int) { return constMSB(uint64(ty), 8), 8 }})
		}
		// element of the UPID list, reached through MID()
		for _, k := range []int{0, 2, 4} {
			k := k
			es = append(es, s35Edit{target: t + ".mid0", method: "SetUPID", what: fmt.Sprintf("(%d bytes)", k),
				applies: segAt(j, func(d s35Desc) bool { return liveDesc(d) && d.upidType == 0x0D && len(d.mids) > 0 }),
				args:    func(n *nav) []Val { return []Val{n.symBytes("upid", k)} },
				effect: func(sh *s35Shape, vals map[string][]Bit) {
					sh.descs[j].mids[0] = k
					for b := 0; b < k; b++ {
						vals[fmt.Sprintf("%smid0.%d", p, b)] = msbBits(cellBV("upid", b), 8)
					}
				}})
		}
		// descriptor component
		dcomp := segAt(j, func(d s35Desc) bool { return liveDesc(d) && !d.programSeg && d.comps > 0 })
		es = append(es, valueEdit(t+".c0", "SetComponentTag", "ComponentTag", p+"c0.tag", 8, 8, 8, dcomp))
		es = append(es, valueEdit(t+".c0", "SetPTSOffset", "PTSOffset", p+"c0.off", 64, 33, 64, dcomp))
	}
	return es
}

// symBytes creates a fresh caller-owned byte slice of k symbolic bytes.
func (n *nav) symBytes(name string, k int) Val {
	o := n.in.newObj(name, "param", types.Typ[types.Uint8], true)
	o.Seq, o.N, o.Len = true, k, constInt(int64(k), 64, true)
	ln := constInt(int64(k), 64, true)
	return &SliceV{Obj: o, Lo: constInt(0, 64, true), Len: ln, Cap: ln, Elem: types.Typ[types.Uint8]}
}

// runEdit applies one edit to the object decoded from base shape sh.
func (c *Checker) runEdit(e s35Edit, sh s35Shape) string {
	var calls []crcCall
	n, sig, x, why := c.decodeForEncode(sh, &calls)
	if why != "" {
		return why
	}
	tgt, why := n.s35Target(sig, sh, e.target)
	if why != "" || tgt == nil {
		return "target " + e.target + ": " + why
	}
	before, _ := n.call(sig, "Data").(*SliceV)
	var rawBefore []*BV
	if before != nil {
		if rawBefore, why = n.readBytes(before); why != "" {
			return "Data() before " + e.method + ": " + why
		}
	}
	n.call(tgt, e.method, e.args(n)...)
	if n.in.Fail != "" {
		return "analysis of " + e.method + ": " + n.in.Fail
	}
	after, _ := n.call(sig, "Data").(*SliceV)
	if before == nil || after == nil || after.Obj != before.Obj || !sameBV(after.Lo, before.Lo) || !sameBV(after.Len, before.Len) {
		return "the raw-data accessor changes before the signal is encoded again"
	}
	rawAfter, why := n.readBytes(after)
	if why != "" {
		return "Data() after " + e.method + ": " + why
	}
	for i := range rawBefore {
		if !sameBV(rawBefore[i], rawAfter[i]) {
			return fmt.Sprintf("byte %d of the raw data (%s) is overwritten by %s before the signal is encoded again", i, s35Where(x, i), e.method)
		}
	}
	sh2 := cloneShape(sh)
	vals := cloneVals(x.vals)
	e.effect(&sh2, vals)
	if e.getter != "" {
		wantBits, w := e.getBits(sh2, vals)
		got, ok := n.call(tgt, e.getter).(*BV)
		if !ok {
			return e.getter + "() after " + e.method + " is not an integer"
		}
		if got.W != w {
			return fmt.Sprintf("%s() has width %d, expected %d", e.getter, got.W, w)
		}
		if ok, d := matchBits(got, lsbBV(wantBits, w).Bits); !ok {
			return e.getter + "() after " + e.method + ": " + d
		}
	}
	out := n.call(sig, "UpdateData")
	if n.in.Fail != "" {
		return "analysis of UpdateData: " + n.in.Fail
	}
	got, why := n.readBytes(out)
	if why != "" {
		return why
	}
	want := sh2.encode("data", vals)
	mixed, seenSeg := false, false
	for _, d := range sh2.descs {
		if !d.foreign {
			seenSeg = true
		} else if seenSeg {
			mixed = true
		}
	}
	if e.ptsTest {
		argBits := msbBits(uintArg("value64", 64, 64, false), 64)
		envs := sampleEnvs([][]Bit{argBits, x.v("pts"), x.v("adj")}, 100)
		return compareEncoding(got, want, calls, false, mixed, envs...)
	}
	return compareEncoding(got, want, calls, timedCommand(sh) || timedCommand(sh2), mixed)
}

func (c *Checker) runS35Setters(thorough bool) {
	shapes := s35Shapes(false)
	total := 0
	type key struct{ target, method, what string }
	agg := map[key]*stepAgg{}
	var order []key
	for _, e := range s35Edits() {
		k := key{e.target, e.method, e.what}
		if strings.HasPrefix(e.target, "d") {
			// the descriptor index is not part of the obligation
			k.target = "descriptor" + strings.TrimLeft(e.target, "d0123456789")
		}
		a := agg[k]
		if a == nil {
			a = &stepAgg{}
			agg[k] = a
			order = append(order, k)
		}
		used := 0
		for i, sh := range shapes {
			if sh.pointer != 0 || !e.applies(sh) {
				continue
			}
			if !thorough && used >= 12 && i%5 != 0 {
				continue
			}
			used++
			a.n++
			total++
			if d := c.runEdit(e, sh); d != "" {
				a.bad++
				if a.first == "" {
					a.first = sh.name + ": " + d
				}
			}
		}
	}
	names := map[string]string{"sig": "(*scte35)", "cmd": "splice command", "comp0": "(*component)", "descriptor": "(*segmentationDescriptor)", "descriptor.c0": "(*componentOffset)", "descriptor.mid0": "(*upidSt)"}
	for _, k := range order {
		a := agg[k]
		if a.n == 0 {
			c.undecided("C09.setter", "scte35:"+names[k.target]+"."+k.method, k.what, "no base shape of the family offers this target")
			continue
		}
		c.check("C09.setter", "scte35:"+names[k.target]+"."+k.method, k.what+": the getter reports the value (truncated to the field width), Data() is unchanged until the next encoding, which is the canonical section of the updated signal",
			a.bad == 0, fmt.Sprintf("%d of %d base shapes fail; first: %s", a.bad, a.n, a.first))
	}
	c.floorCheck("C09.setter analyses", total, 300)
	c.extra["setter_analyses"] = total
}

// runToggle: a flag set to the opposite of its decoded value and back again.
// The next encoding must be the canonical section of the signal as decoded:
// a flag setter that also disturbs other state (a presence flag cleared on the
// way, a stored time dropped) shows only in such a sequence, because every
// single edit still encodes correctly (seed C09h).
func (c *Checker) runToggle(e s35Edit, sh s35Shape) (string, bool) {
	var calls []crcCall
	n, sig, x, why := c.decodeForEncode(sh, &calls)
	if why != "" {
		return why, true
	}
	tgt, why := n.s35Target(sig, sh, e.target)
	if why != "" || tgt == nil {
		return "target " + e.target + ": " + why, true
	}
	cur, ok := n.call(tgt, e.getter).(*BV)
	if !ok || cur.W != 1 {
		return "", false
	}
	v0, isC := cur.ConstInt()
	if !isC {
		return "", false // the flag is a symbolic bit of the section in this shape
	}
	n.call(tgt, e.method, boolConst(v0 == 0))
	n.call(tgt, e.method, boolConst(v0 != 0))
	if n.in.Fail != "" {
		return "analysis of " + e.method + ": " + n.in.Fail, true
	}
	out := n.call(sig, "UpdateData")
	if n.in.Fail != "" {
		return "analysis of UpdateData: " + n.in.Fail, true
	}
	got, why := n.readBytes(out)
	if why != "" {
		return why, true
	}
	want := sh.encode("data", x.vals)
	mixed, seenSeg := false, false
	for _, d := range sh.descs {
		if !d.foreign {
			seenSeg = true
		} else if seenSeg {
			mixed = true
		}
	}
	return compareEncoding(got, want, calls, timedCommand(sh), mixed), true
}

func (c *Checker) runS35Toggles() {
	shapes := s35Shapes(false)
	type key struct{ target, method string }
	agg := map[key]*stepAgg{}
	var order []key
	total := 0
	for _, e := range s35Edits() {
		if e.what != "(true)" || e.getter == "" {
			continue // one run per boolean setter (boolEdit yields a true and a false entry)
		}
		k := key{e.target, e.method}
		if strings.HasPrefix(e.target, "d") {
			k.target = "descriptor" + strings.TrimLeft(e.target, "d0123456789")
		}
		a := agg[k]
		if a == nil {
			a = &stepAgg{}
			agg[k] = a
			order = append(order, k)
		}
		used := 0
		for _, sh := range shapes {
			if sh.pointer != 0 || !e.applies(sh) || used >= 6 {
				continue
			}
			d, ran := c.runToggle(e, sh)
			if !ran {
				continue
			}
			used++
			a.n++
			total++
			if d != "" {
				a.bad++
				if a.first == "" {
					a.first = sh.name + ": " + d
				}
			}
		}
	}
	names := map[string]string{"sig": "(*scte35)", "cmd": "splice command", "comp0": "(*component)", "descriptor": "(*segmentationDescriptor)", "descriptor.c0": "(*componentOffset)", "descriptor.mid0": "(*upidSt)"}
	for _, k := range order {
		a := agg[k]
		if a.n == 0 {
			continue
		}
		c.check("C09.toggle", "scte35:"+names[k.target]+"."+k.method, "set to the opposite of the decoded value and back: the next encoding is the canonical section of the signal as decoded",
			a.bad == 0, fmt.Sprintf("%d of %d base shapes fail; first: %s", a.bad, a.n, a.first))
	}
	c.extra["toggle_analyses"] = total
}

// ------------------------------------------------------------ creation API

// callFn calls a package-level function inside the same state.
func (n *nav) callFn(anchor string, args ...Val) Val {
	fn, err := n.in.P.Func(anchor)
	if err != nil {
		n.in.fail("%v", err)
		return nil
	}
	ret, out := n.in.Call(fn, args, nil, n.st)
	if n.in.Fail != "" {
		return nil
	}
	n.st = out
	return ret
}

// mkSlice allocates a slice holding vals; elem is the element type.
func (n *nav) mkSlice(name string, elem types.Type, vals []Val) Val {
	o := n.in.newObj(fmt.Sprintf("%s#%d", name, n.in.nobj+1), "make", elem, false)
	o.Seq, o.N, o.Len = true, len(vals), constInt(int64(len(vals)), 64, true)
	n.st.born[o] = true
	for i, v := range vals {
		n.in.setCellDeep(n.st, o, fmt.Sprint(i), elem, v)
	}
	return &SliceV{Obj: o, Lo: constInt(0, 64, true), Len: o.Len, Cap: o.Len, Elem: elem}
}

// paramElem: element type of the slice parameter of a method of recv.
func (n *nav) paramElem(recv Val, method string) types.Type {
	var t types.Type
	switch x := recv.(type) {
	case *IfaceV:
		t = x.T
	case *Ptr:
		t = types.NewPointer(x.T)
	}
	ms := n.in.P.SSA.MethodSets.MethodSet(t)
	for i := 0; i < ms.Len(); i++ {
		if ms.At(i).Obj().Name() == method {
			sig := ms.At(i).Obj().Type().(*types.Signature)
			return sig.Params().At(0).Type().Underlying().(*types.Slice).Elem()
		}
	}
	return nil
}

func u(name string, w int) *BV { return uintArg(name, w, w, false) }

// s35Scenario builds a signal purely through the creation and setter API and
// returns the expected shape and field values.
type s35Scenario struct {
	name  string
	build func(n *nav) (Val, s35Shape, map[string][]Bit)
}

func s35Scenarios() []s35Scenario {
	return []s35Scenario{
		{"default signal (CreateSCTE35 only)", func(n *nav) (Val, s35Shape, map[string][]Bit) {
			s := n.callFn("scte35:CreateSCTE35")
			return s, s35Shape{cmd: 0}, map[string][]Bit{"tier": constMSB(0xFFF, 12)}
		}},
		{"time_signal with a sub-segmented, timed descriptor", func(n *nav) (Val, s35Shape, map[string][]Bit) {
			s := n.callFn("scte35:CreateSCTE35")
			n.call(s, "SetTier", u("tier", 16))
			cmd := n.callFn("scte35:CreateTimeSignalCommand")
			n.call(s, "SetCommandInfo", cmd)
			n.call(s, "SetHasPTS", boolConst(true))
			n.call(s, "SetPTS", u("pts", 64))
			d := n.callFn("scte35:CreateSegmentationDescriptor")
			n.call(d, "SetEventID", u("ev", 32))
			n.call(d, "SetTypeID", constInt(0x34, 8, false))
			n.call(d, "SetHasSubSegments", boolConst(true))
			n.call(d, "SetSubSegmentNumber", u("sn", 8))
			n.call(d, "SetSubSegmentsExpected", u("se", 8))
			n.call(d, "SetHasDuration", boolConst(true))
			n.call(d, "SetDuration", u("dur", 64))
			n.call(d, "SetUPIDType", constInt(0x09, 8, false))
			n.call(d, "SetUPID", n.symBytes("upidA", 3))
			n.call(d, "SetSegmentNumber", u("gn", 8))
			n.call(d, "SetSegmentsExpected", u("ge", 8))
			n.call(d, "SetHasProgramSegmentation", boolConst(true))
			n.call(d, "SetIsWebDeliveryAllowed", boolArg("fw"))
			n.call(d, "SetHasNoRegionalBlackout", boolArg("fb"))
			n.call(d, "SetIsArchiveAllowed", boolArg("fa"))
			n.call(d, "SetDeviceRestrictions", u("dr", 8))
			n.call(s, "SetDescriptors", n.mkSlice("descs", n.paramElem(s, "SetDescriptors"), []Val{d}))
			sh := s35Shape{cmd: 6, descs: []s35Desc{{programSeg: true, hasDuration: true, typeID: 0x34, hasSub: true, upidType: 0x09, upidLen: 3}}}
			dr := msbBits(u("dr", 8), 2)
			vals := map[string][]Bit{"tier": msbBits(u("tier", 16), 12), "pts": msbBits(u("pts", 64), 33),
				"d0.eventID": msbBits(u("ev", 32), 32), "d0.subNum": msbBits(u("sn", 8), 8), "d0.subExp": msbBits(u("se", 8), 8),
				"d0.duration": msbBits(u("dur", 64), 40), "d0.segNum": msbBits(u("gn", 8), 8), "d0.segsExp": msbBits(u("ge", 8), 8),
				"d0.flags5": {boolArg("fw").Bits[0], boolArg("fb").Bits[0], boolArg("fa").Bits[0], dr[0], dr[1]}}
			for b := 0; b < 3; b++ {
				vals[fmt.Sprintf("d0.upid%d", b)] = msbBits(cellBV("upidA", b), 8)
			}
			return s, sh, vals
		}},
		{"splice_insert with break_duration, component-mode descriptor with a UPID list, cancelled descriptor", func(n *nav) (Val, s35Shape, map[string][]Bit) {
			s := n.callFn("scte35:CreateSCTE35")
			cmd := n.callFn("scte35:CreateSpliceInsertCommand")
			n.call(cmd, "SetEventID", u("ev", 32))
			n.call(cmd, "SetIsOut", boolArg("out"))
			n.call(cmd, "SetHasDuration", boolConst(true))
			n.call(cmd, "SetDuration", u("bd", 64))
			n.call(cmd, "SetIsAutoReturn", boolArg("ar"))
			n.call(cmd, "SetUniqueProgramId", u("up", 16))
			n.call(cmd, "SetAvailNum", u("an", 8))
			n.call(cmd, "SetAvailsExpected", u("ae", 8))
			n.call(s, "SetCommandInfo", cmd)
			n.call(s, "SetHasPTS", boolConst(true))
			n.call(s, "SetPTS", u("pts", 64))
			d := n.callFn("scte35:CreateSegmentationDescriptor")
			n.call(d, "SetEventID", u("dev", 32))
			n.call(d, "SetTypeID", constInt(0x30, 8, false))
			n.call(d, "SetIsDeliveryNotRestricted", boolConst(true))
			var comps []Val
			for k := 0; k < 2; k++ {
				c := n.callFn("scte35:CreateComponentOffset")
				n.call(c, "SetComponentTag", u(fmt.Sprintf("ct%d", k), 8))
				n.call(c, "SetPTSOffset", u(fmt.Sprintf("co%d", k), 64))
				comps = append(comps, c)
			}
			n.call(d, "SetComponents", n.mkSlice("comps", n.paramElem(d, "SetComponents"), comps))
			n.call(d, "SetUPIDType", constInt(0x0D, 8, false))
			var ups []Val
			for k, ln := range []int{2, 0} {
				up := n.callFn("scte35:CreateUPID")
				n.call(up, "SetUPIDType", constInt(int64(midType(k)), 8, false))
				n.call(up, "SetUPID", n.symBytes(fmt.Sprintf("mid%d", k), ln))
				ups = append(ups, up)
			}
			n.call(d, "SetMID", n.mkSlice("mids", n.paramElem(d, "SetMID"), ups))
			d2 := n.callFn("scte35:CreateSegmentationDescriptor")
			n.call(d2, "SetEventID", u("dev2", 32))
			n.call(d2, "SetIsEventCanceled", boolConst(true))
			n.call(s, "SetDescriptors", n.mkSlice("descs", n.paramElem(s, "SetDescriptors"), []Val{d, d2}))
			sh := s35Shape{cmd: 5, program: true, duration: true, descs: []s35Desc{
				{notRestricted: true, comps: 2, typeID: 0x30, upidType: 0x0D, mids: []int{2, 0}}, {cancel: true}}}
			vals := map[string][]Bit{"tier": constMSB(0xFFF, 12), "pts": msbBits(u("pts", 64), 33), "eventID": msbBits(u("ev", 32), 32),
				"out": {boolArg("out").Bits[0]}, "autoReturn": {boolArg("ar").Bits[0]}, "breakDur": msbBits(u("bd", 64), 33),
				"progID": msbBits(u("up", 16), 16), "availNum": msbBits(u("an", 8), 8), "availsExp": msbBits(u("ae", 8), 8),
				"d0.eventID": msbBits(u("dev", 32), 32), "d1.eventID": msbBits(u("dev2", 32), 32)}
			for k := 0; k < 2; k++ {
				vals[fmt.Sprintf("d0.c%d.tag", k)] = msbBits(u(fmt.Sprintf("ct%d", k), 8), 8)
				vals[fmt.Sprintf("d0.c%d.off", k)] = msbBits(u(fmt.Sprintf("co%d", k), 64), 33)
			}
			for b := 0; b < 2; b++ {
				vals[fmt.Sprintf("d0.mid0.%d", b)] = msbBits(cellBV("mid0", b), 8)
			}
			return s, sh, vals
		}},
	}
}

func (c *Checker) runS35Build() {
	for _, sc := range s35Scenarios() {
		var calls []crcCall
		in := newInterp(c.P)
		s35EncSetup(&calls)(in)
		n := &nav{in, newState()}
		sig, sh, vals := sc.build(n)
		d := ""
		switch {
		case in.Fail != "":
			d = "analysis: " + in.Fail
		default:
			out := n.call(sig, "UpdateData")
			if in.Fail != "" {
				d = "analysis of UpdateData: " + in.Fail
				break
			}
			got, why := n.readBytes(out)
			if why != "" {
				d = why
				break
			}
			want := sh.encode("none", vals)
			var envs []cenv
			if timedCommand(sh) {
				envs = sampleEnvs([][]Bit{msbBits(u("pts", 64), 64)}, 40)
			}
			d = compareEncoding(got, want, calls, false, false, envs...)
			if d == "" {
				// decoding what was built reports the same values
				m := &mism{}
				compareSignal(n, sig, sh, want, m)
				d = m.first
			}
		}
		c.check("C09.build", "scte35:CreateSCTE35", sc.name+": built through the creation and setter API only, UpdateData() is the canonical section and the getters report the values set", d == "", d)
	}
}
