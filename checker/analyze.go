package main

import (
	_ "embed"
	"encoding/json"
	"fmt"
	"go/types"
	"os"
	"sort"
	"strings"

	"golang.org/x/tools/go/ssa"
)

// AnalyzeOpts configures the symbolic inputs of an analysis.
type AnalyzeOpts struct {
	// SliceLen fixes len() of the named slice parameter to a constant.
	SliceLen map[string]int
	// Args overrides the value of the named parameter.
	Args map[string]Val
	// Rename gives canonical names to parameters (by original name), so that
	// two functions can be analysed over the same input sources.
	Rename map[string]string
	// InitPkg: evaluate this package's initialiser first (relative to the
	// module path, "" = root) so that constant tables have their contents.
	InitPkg *string
	// Sess: reuse an interpreter whose base state already holds evaluated
	// package initialisers.
	Sess *Session
	// Setup tweaks the interpreter before the run.
	Setup func(in *Interp)
	// Pre runs after parameters are built and may seed the initial state.
	Pre func(in *Interp, st *State, params []Val)
}

// paramVal builds the symbolic input for one parameter.
func (in *Interp) paramVal(name string, t types.Type, opts *AnalyzeOpts) Val {
	if opts != nil && opts.Args != nil {
		if v, ok := opts.Args[name]; ok {
			return v
		}
	}
	if w, sg, ok := intWidth(t); ok {
		s := U.source("param", name, w)
		return srcBV(s, sg)
	}
	switch u := t.Underlying().(type) {
	case *types.Pointer:
		o := in.newObj(name, "param", u.Elem(), true)
		in.lazy["param:"+name] = o
		return &Ptr{Obj: o, T: u.Elem()}
	case *types.Slice:
		o := in.newObj(name, "param", u.Elem(), true)
		o.Seq = true
		if opts != nil && opts.SliceLen != nil {
			if n, ok := opts.SliceLen[name]; ok {
				o.N = n
				o.Len = constInt(int64(n), 64, true)
			}
		}
		if o.Len == nil {
			ls := U.source("len", "len("+name+")", 64)
			ls.Obj = o
			o.Len = srcBV(ls, true)
		}
		sv := &SliceV{Obj: o, Lo: constInt(0, 64, true), Len: o.Len, Elem: u.Elem()}
		if o.N > 0 || (opts != nil && opts.SliceLen != nil) {
			if _, fixed := o.Len.ConstInt(); fixed {
				// the capacity of an input slice is at least its length: appends
				// that fit below that bound are known to write in place
				sv.Cap = o.Len
			}
		}
		return sv
	case *types.Basic:
		if u.Info()&types.IsString != 0 {
			return &StrV{Opaque: mkTerm("str:"+name, 0)}
		}
	case *types.Struct:
		sv := &StructV{T: t}
		for i := 0; i < u.NumFields(); i++ {
			sv.Fields = append(sv.Fields, in.paramVal(name+"."+u.Field(i).Name(), u.Field(i).Type(), opts))
		}
		return sv
	case *types.Array:
		sv := &StructV{T: t}
		for i := 0; i < int(u.Len()); i++ {
			sv.Fields = append(sv.Fields, in.paramVal(fmt.Sprintf("%s[%d]", name, i), u.Elem(), opts))
		}
		return sv
	}
	return &OpaqueV{Why: "param " + name, T: t}
}

// Analyze runs fn on fully symbolic inputs.
func Analyze(P *Program, fn *ssa.Function, opts *AnalyzeOpts) *Summary {
	in := newInterp(P)
	st := newState()
	if opts != nil && opts.Sess != nil {
		in = opts.Sess.in
		in.events, in.Fail, in.steps = nil, opts.Sess.fail, 0
		in.PureInvoke, in.InvokeHook, in.MapLookup, in.Intrinsic, in.WrapEq = false, nil, nil, nil, false
		in.MapLen, in.TermEq = -1, false
		st = opts.Sess.base.clone()
	}
	if opts != nil && opts.Setup != nil {
		opts.Setup(in)
	}
	if opts != nil && opts.InitPkg != nil {
		st = in.runInit(*opts.InitPkg, st)
	}
	var params []Val
	for i, p := range fn.Params {
		name := pinnedParamName(fn, i, p.Name())
		if name == "" || name == "_" {
			name = fmt.Sprintf("arg%d", i)
		}
		if opts != nil && opts.Rename != nil {
			if n, ok := opts.Rename[name]; ok {
				name = n
			} else if n, ok := opts.Rename[fmt.Sprintf("#%d", i)]; ok {
				name = n
			}
		}
		params = append(params, in.paramVal(name, p.Type(), opts))
	}
	if opts != nil && opts.Pre != nil {
		opts.Pre(in, st, params)
	}
	sum := &Summary{Fn: fn, Params: params, Init: st.clone()}
	ret, out := in.Call(fn, params, nil, st)
	sum.Ret, sum.Out, sum.Events, sum.Failed = ret, out, in.events, in.Fail
	sum.in = in
	return sum
}

// RetN returns the i-th result.
func (s *Summary) RetN(i int) Val {
	if sv, ok := s.Ret.(*StructV); ok {
		if _, isTuple := sv.T.(*types.Tuple); isTuple {
			if i < len(sv.Fields) {
				return sv.Fields[i]
			}
			return nil
		}
	}
	if i == 0 {
		return s.Ret
	}
	return nil
}

// Cell reads the final value of a leaf cell of an object.
func (s *Summary) Cell(o *Obj, path string, t types.Type) Val {
	return s.in.loadPath(s.Out, o, path, t)
}

// WrittenCells lists the (object, path) pairs whose final value differs from
// the initial one, as "obj[path]".
func (s *Summary) WrittenCells() []string {
	var out []string
	for o, m := range s.Out.cells {
		if o.Kind != "param" && o.Kind != "lazy" && o.Kind != "global" {
			continue
		}
		for k, v := range m {
			t := s.in.leafType(o, k)
			if t == nil {
				out = append(out, fmt.Sprintf("%s[%s]?", o.Name, k))
				continue
			}
			init := s.in.loadPath(s.Init, o, k, t)
			if !sameVal(init, v) {
				out = append(out, fmt.Sprintf("%s[%s]", o.Name, k))
			}
		}
	}
	for o := range s.Out.havoc {
		if o.Kind == "param" || o.Kind == "lazy" || o.Kind == "global" {
			out = append(out, fmt.Sprintf("%s[*]", o.Name))
		}
	}
	sort.Strings(out)
	return out
}

func showVal(v Val) string {
	switch x := v.(type) {
	case nil:
		return "<none>"
	case *BV:
		return x.String()
	case *StructV:
		var parts []string
		for _, f := range x.Fields {
			parts = append(parts, showVal(f))
		}
		if len(parts) > 12 {
			parts = append(parts[:12], fmt.Sprintf("…(%d)", len(x.Fields)))
		}
		return "{" + strings.Join(parts, ", ") + "}"
	case *MuxV:
		return fmt.Sprintf("(%s ? %s : %s)", x.C, showVal(x.T), showVal(x.F))
	case *IfaceV:
		return "iface{" + showVal(x.V) + "}"
	}
	return valKey(v)
}

func (s *Summary) Dump() string {
	var sb strings.Builder
	fmt.Fprintf(&sb, "func %s\n", s.Fn)
	if s.Failed != "" {
		fmt.Fprintf(&sb, "  FAILED: %s\n", s.Failed)
		return sb.String()
	}
	fmt.Fprintf(&sb, "  ret = %s\n", showVal(s.Ret))
	var lines []string
	for o, m := range s.Out.cells {
		for k, v := range m {
			lines = append(lines, fmt.Sprintf("  %s[%s] := %s", o.Name, k, showVal(v)))
		}
	}
	for o := range s.Out.havoc {
		lines = append(lines, fmt.Sprintf("  %s[*] := ?", o.Name))
	}
	sort.Strings(lines)
	if len(lines) > 60 {
		lines = append(lines[:60], fmt.Sprintf("  … %d more", len(lines)-60))
	}
	sb.WriteString(strings.Join(lines, "\n"))
	sb.WriteString("\n")
	for _, e := range s.Events {
		if e.Kind == "store" {
			continue
		}
		fmt.Fprintf(&sb, "  event %s %s cond=%s at %s\n", e.Kind, e.Note, e.Cond, s.in.P.Pos(e.Pos))
	}
	return sb.String()
}

// LoopStep is the result of one abstract iteration of a function's first
// top-level loop from an arbitrary (symbolic) header state.
type LoopStep struct {
	Sum    *Summary
	Header *ssa.BasicBlock
	Phis   []*ssa.Phi
	Pre    map[*ssa.Phi]Val // symbolic value given to each header phi
	Init   map[*ssa.Phi]Val // value on the loop-entry edge
	Next   map[*ssa.Phi]Val // value on the back edge after one iteration
	Cond   Bit              // condition under which the body is entered
	Ret    Val              // function result when the loop is left from this state
	Back   []*State         // memory at the end of each live back-edge block
}

// AnalyzeLoop evaluates the first top-level loop of fn once from a symbolic
// state (the inductive step of an invariant argument): header phis get fresh
// named sources, inner constant-trip loops are unrolled, the back-edge values
// and the function result on the exit path are returned.
func AnalyzeLoop(P *Program, fn *ssa.Function, opts *AnalyzeOpts) (*LoopStep, error) {
	in := newInterp(P)
	if opts != nil && opts.Setup != nil {
		opts.Setup(in)
	}
	st := newState()
	var params []Val
	for i, p := range fn.Params {
		name := pinnedParamName(fn, i, p.Name())
		if name == "" || name == "_" {
			name = fmt.Sprintf("arg%d", i)
		}
		params = append(params, in.paramVal(name, p.Type(), opts))
	}
	f := &frame{in: in, fn: fn, env: map[ssa.Value]Val{}, out: map[int]*State{}, bc: map[edgeKey]Bit{},
		local: map[int]Bit{}, live: map[int]bool{}, rpoIx: map[int]int{}, panicIf: U.B0, refs: map[int]map[*Source]*BV{}, facts: map[int]*factSet{}}
	for i, p := range fn.Params {
		f.env[p] = params[i]
	}
	f.rpo = rpoOrder(fn)
	for i, b := range f.rpo {
		f.rpoIx[b.Index] = i
	}
	f.findLoops()
	f.computeLoopExt()
	var H *ssa.BasicBlock
	for _, b := range f.rpo {
		if _, ok := f.loops[b.Index]; ok {
			H = b
			break
		}
	}
	if H == nil {
		return nil, fmt.Errorf("%s has no loop", fn)
	}
	in.stack = append(in.stack, fn)
	in.curFn = fn
	// blocks before the header (straight-line prologue) are evaluated normally
	pre := map[int]bool{}
	for _, b := range f.rpo {
		if b == H {
			break
		}
		pre[b.Index] = true
	}
	f.local[fn.Blocks[0].Index] = U.B1
	f.runRegion(pre, -1, st, nil)
	if in.Fail != "" {
		return nil, fmt.Errorf("%s", in.Fail)
	}
	ls := &LoopStep{Header: H, Pre: map[*ssa.Phi]Val{}, Init: map[*ssa.Phi]Val{}, Next: map[*ssa.Phi]Val{}}
	body := f.loops[H.Index]
	outside := f.liveIn(H, func(p *ssa.BasicBlock) bool { return !body[p.Index] })
	if len(outside) != 1 {
		return nil, fmt.Errorf("loop header of %s has %d entry edges", fn, len(outside))
	}
	hst := f.out[outside[0].Index]
	for _, ins := range H.Instrs {
		phi, ok := ins.(*ssa.Phi)
		if !ok {
			break
		}
		ls.Phis = append(ls.Phis, phi)
		ls.Init[phi] = f.val(phi.Edges[predIndex(H, outside[0])])
		var v Val
		if w, sg, ok := intWidth(phi.Type()); ok {
			v = srcBV(U.source("param", "loop."+phi.Comment, w), sg)
		} else {
			v = &OpaqueV{Why: "loop." + phi.Comment, T: phi.Type()}
		}
		ls.Pre[phi] = v
		f.env[phi] = v
	}
	f.local[H.Index] = U.B1
	region := map[int]bool{}
	for _, b := range f.rpo[f.rpoIx[H.Index]:] {
		region[b.Index] = true
	}
	f.hdrPreds = outside
	f.runRegion(region, H.Index, hst, nil)
	if in.Fail != "" {
		return nil, fmt.Errorf("%s", in.Fail)
	}
	var back []*ssa.BasicBlock
	for _, p := range H.Preds {
		if body[p.Index] && f.live[p.Index] {
			back = append(back, p)
		}
	}
	if len(back) == 0 {
		return nil, fmt.Errorf("loop of %s has no live back edge", fn)
	}
	// several back edges (continue statements): the body is re-entered when
	// one of them is taken; the edge conditions are mutually exclusive, so the
	// next value of a header phi is the mux over them
	ls.Cond = U.B0
	for _, b := range back {
		ls.Back = append(ls.Back, f.out[b.Index])
	}
	for i := len(back) - 1; i >= 0; i-- {
		ec := band(f.chain(back[i], H), f.bc[edgeKey{back[i].Index, H.Index}])
		for _, phi := range ls.Phis {
			saved := f.cur
			f.cur = back[i] // the facts of the back-edge block hold along its edge
			v := f.val(phi.Edges[predIndex(H, back[i])])
			f.cur = saved
			if os.Getenv("VERIF_DBG_LOOP") != "" {
				fmt.Fprintf(os.Stderr, "back edge %d->%d phi %s = %s under %s\n", back[i].Index, H.Index, phi.Comment, showVal(v), ec)
			}
			if prev, ok := ls.Next[phi]; ok {
				v = in.muxVal(ec, v, prev)
			}
			ls.Next[phi] = v
		}
		ls.Cond = bor(ls.Cond, ec)
	}
	ret, out := f.mergeReturns(hst)
	ls.Ret = ret
	ls.Sum = &Summary{Fn: fn, Params: params, Ret: ret, Out: out, Events: in.events, in: in, Init: newState()}
	return ls, nil
}

// runInit evaluates the package initialiser of pkgRel abstractly (other
// packages' initialisers stay opaque) and returns the resulting state.
func (in *Interp) runInit(pkgRel string, st *State) *State {
	path := modPath
	if pkgRel != "" {
		path = modPath + "/" + pkgRel
	}
	sp := in.P.ByPkg[path]
	if sp == nil {
		in.fail("package %s not loaded", path)
		return st
	}
	initFn := sp.Func("init")
	if g, ok := sp.Members["init$guard"].(*ssa.Global); ok {
		in.setCell(st, in.globalObj(g), "", constInt(0, 1, false))
	}
	saved := in.OpaqueFn
	in.OpaqueFn = func(fn *ssa.Function) bool {
		if fn.Name() == "init" && fn.Pkg != sp {
			return true
		}
		return saved != nil && saved(fn)
	}
	in.initMode = true
	_, out := in.Call(initFn, nil, nil, st)
	in.initMode = false
	in.OpaqueFn = saved
	in.events = nil
	return out
}

// Session is an interpreter with the initialisers of some packages already
// evaluated; analyses started from it share the resulting global state.
type Session struct {
	in   *Interp
	base *State
	fail string
}

func NewSession(P *Program, initPkgs ...string) *Session {
	in := newInterp(P)
	st := newState()
	for _, p := range initPkgs {
		st = in.runInit(p, st)
	}
	return &Session{in: in, base: st, fail: in.Fail}
}

// Parameter names are how checks refer to inputs (argument tables, names of
// input objects in expected values). To keep that independent of the names in
// the source, spec/params.json pins the names by position as they were when
// the checks were written; a function whose parameter count differs from its
// entry is analysed under its own names.
//
//go:embed spec/params.json
var pinnedParamsJSON []byte

var pinnedParams map[string][]string

func pinnedParamName(fn *ssa.Function, i int, actual string) string {
	if pinnedParams == nil {
		pinnedParams = map[string][]string{}
		json.Unmarshal(pinnedParamsJSON, &pinnedParams)
	}
	if ns, ok := pinnedParams[fn.String()]; ok && len(ns) == len(fn.Params) && i < len(ns) {
		return ns[i]
	}
	return actual
}
