package main

import (
	_ "embed"
	"encoding/json"
	"fmt"
	"go/types"
	"sort"
	"strconv"
	"strings"

	"golang.org/x/tools/go/ssa"
)

//go:embed spec/segclose.json
var segcloseJSON []byte

type segcloseSpec struct {
	Rules    map[string]map[string]string `json:"rules"`
	InTypes  []string                     `json:"in_types"`
	OutTypes []string                     `json:"out_types"`
}

func hexInt(s string) int {
	v, _ := strconv.ParseInt(strings.TrimPrefix(s, "0x"), 16, 32)
	return int(v)
}

// closeKindNames maps the values of the segCloseType constants to oracle kind
// names; resolved from the package's constant declarations, not hard-coded
// numbers.
func closeKinds(P *Program) (map[int64]string, error) {
	tp := P.TPkg[modPath+"/scte35"]
	if tp == nil {
		return nil, fmt.Errorf("scte35 not loaded")
	}
	out := map[int64]string{}
	for _, n := range []string{"Normal", "NoBreakaway", "EventID", "Breakaway", "DiffPTS", "NotNested", "EventIDNotNested", "Unconditional"} {
		obj, ok := tp.Types.Scope().Lookup("segClose" + n).(*types.Const)
		if !ok {
			return nil, fmt.Errorf("constant segClose%s not found", n)
		}
		v, _ := strconv.ParseInt(obj.Val().ExactString(), 10, 64)
		out[v] = n
	}
	return out, nil
}

// eqDef is the named abbreviation of "a == b" used for residual formulas.
func eqDef(a, b *BV) Bit { return wrapDef(bvEq(a, b)) }

// sdHooks models the SegmentationDescriptor / SCTE35 interface getters of an
// opaque descriptor as named input sources ("out.EventID", "out.PTS", …) and
// fixes TypeID to a constant when typeID >= 0.
func sdHooks(in *Interp, typeIDs map[string]int) {
	in.WrapEq = true
	in.InvokeHook = func(recv Val, m *types.Func, args []Val, rt types.Type, st *State) (Val, bool) {
		ov, ok := recv.(*OpaqueV)
		if !ok {
			return nil, false
		}
		name := strings.TrimPrefix(ov.Why, "param ")
		switch m.Name() {
		case "TypeID":
			if t, ok := typeIDs[name]; ok && t >= 0 {
				return constInt(int64(t), 8, false), true
			}
			return srcBV(U.source("param", name+".TypeID", 8), false), true
		case "SCTE35":
			return &OpaqueV{Why: name + ".SCTE35", T: rt}, true
		case "PTS":
			return srcBV(U.source("param", strings.TrimSuffix(name, ".SCTE35")+".PTS", 64), false), true
		case "HasPTS":
			return srcBV(U.source("param", strings.TrimSuffix(name, ".SCTE35")+".HasPTS", 1), false), true
		case "EventID":
			return srcBV(U.source("param", name+".EventID", 32), false), true
		case "SegmentNumber", "SegmentsExpected", "SubSegmentNumber", "SubSegmentsExpected":
			return srcBV(U.source("param", name+"."+m.Name(), 8), false), true
		case "HasSubSegments", "IsIn", "IsOut":
			return srcBV(U.source("param", name+"."+m.Name(), 1), false), true
		}
		return nil, false
	}
}

func runC19(c *Checker) {
	c.Level = "proof"
	c.explain = "The closing-rule table is evaluated from the abstractly interpreted package initialiser and compared entry by entry with the oracle table (193 entries); CanClose is interpreted for each of the 256x256 (incoming type, open type) pairs with every other field symbolic and its residual formula must be the oracle rule's formula over the atoms eventEq, ptsEq, segNum==segExpected (false for pairs without a rule); IsIn/IsOut are evaluated for all 256 types; Equal's residual formula is compared by truth table with the reference conjunction of equalities."
	c.trust("go/ssa + go/types (x/tools v0.29.0)", "E1/E4 engine: constant-key map model, abstract evaluation of the scte35 initialiser, interface getters of the other descriptor modelled as named inputs",
		"oracle spec/segclose.json (the documented table as data)",
		"pencil lemma: a conjunction of equalities of projections (plus the unary hasPTS predicates) is symmetric and transitive, reflexive where hasPTS holds, and a congruence for any relation that depends only on those projections — CanClose's verified formulas depend only on type, event id, PTS, segment number/expected of the incoming descriptor, all of which Equal equates")
	var spec segcloseSpec
	if err := json.Unmarshal(segcloseJSON, &spec); err != nil {
		c.undecided("C19.table", "spec/segclose.json", "oracle", err.Error())
		return
	}
	kinds, err := closeKinds(c.P)
	if err != nil {
		c.undecided("C19.table", "scte35:segCloseType", "anchor", err.Error())
		return
	}
	oracle := map[[2]int]string{}
	for a, row := range spec.Rules {
		for b, k := range row {
			oracle[[2]int{hexInt(a), hexInt(b)}] = k
		}
	}
	sess := NewSession(c.P, "scte35")
	if sess.fail != "" {
		c.undecided("C19.table", "scte35:init", "initialiser", sess.fail)
		return
	}
	// ---- 1. evaluated table == oracle
	g, err := c.P.Global("scte35:segCloseRules")
	if err != nil {
		c.undecided("C19.table", "scte35:segCloseRules", "anchor", err.Error())
		return
	}
	got := map[[2]int]string{}
	outer, ok := sess.base.cells[sess.in.globalObj(g)][""].(*MapV)
	if !ok || sess.base.havoc[outer.Obj] > 0 {
		c.check("C19.table", "scte35:segCloseRules", "table is a map built from constant keys and values", false, "initialiser did not yield a fully constant map")
		return
	}
	bad := ""
	for k1, v := range sess.base.cells[outer.Obj] {
		inner, ok := v.(*MapV)
		a, _ := strconv.Atoi(strings.TrimPrefix(k1, "k:"))
		if !ok || sess.base.havoc[inner.Obj] > 0 {
			bad = fmt.Sprintf("row %#x is not a constant map", a)
			continue
		}
		for k2, kv := range sess.base.cells[inner.Obj] {
			b, _ := strconv.Atoi(strings.TrimPrefix(k2, "k:"))
			kb, _ := kv.(*BV)
			kc, ok := int64(-1), false
			if kb != nil {
				kc, ok = kb.ConstInt()
			}
			if !ok {
				bad = fmt.Sprintf("entry [%#x][%#x] is not constant", a, b)
				continue
			}
			got[[2]int{a, b}] = kinds[kc]
		}
	}
	c.check("C19.table", "scte35:segCloseRules", "table is a map built from constant keys and values", bad == "", bad)
	var diffs []string
	for k, v := range oracle {
		if got[k] != v {
			diffs = append(diffs, fmt.Sprintf("[%#x][%#x]: code has %q, documented table has %q", k[0], k[1], got[k], v))
		}
	}
	for k, v := range got {
		if _, ok := oracle[k]; !ok {
			diffs = append(diffs, fmt.Sprintf("[%#x][%#x]: code has %q, documented table has no rule", k[0], k[1], v))
		}
	}
	sort.Strings(diffs)
	c.check("C19.table", "scte35:segCloseRules", "evaluated contents == documented closing-rule table", len(diffs) == 0, strings.Join(diffs, "; "))
	c.floorCheck("C19.table entries evaluated", len(got), 193)
	c.extra["table_entries"] = len(got)

	// single writer
	writers := c.mapWriters(g)
	var foreign []string
	for _, w := range writers {
		if w != "github.com/Comcast/gots/v2/scte35.init" && !strings.HasPrefix(w, "github.com/Comcast/gots/v2/scte35.init#") {
			foreign = append(foreign, w)
		}
	}
	c.check("C19.table", "scte35:segCloseRules", "written only by the package initialiser", len(foreign) == 0, "also written in "+strings.Join(foreign, ", "))

	// ---- 2. IsIn / IsOut for all 256 types
	tIdx, _, err := c.P.structFieldIndex("scte35", "segmentationDescriptor", "typeID")
	if err != nil {
		c.undecided("C19.class", "scte35:segmentationDescriptor", "anchor", err.Error())
		return
	}
	inSetT, outSetT := map[int]bool{}, map[int]bool{}
	for _, s := range spec.InTypes {
		inSetT[hexInt(s)] = true
	}
	for _, s := range spec.OutTypes {
		outSetT[hexInt(s)] = true
	}
	isIn := map[int]bool{}
	for _, m := range []struct {
		anchor string
		set    map[int]bool
		name   string
	}{{"scte35:(*segmentationDescriptor).IsIn", inSetT, "in"}, {"scte35:(*segmentationDescriptor).IsOut", outSetT, "out"}} {
		fn, err := c.P.Func(m.anchor)
		if err != nil {
			c.undecided("C19.class", m.anchor, "anchor", err.Error())
			continue
		}
		c.analysed[fn.String()] = true
		var wrong []string
		for t := 0; t < 256; t++ {
			s := Analyze(c.P, fn, &AnalyzeOpts{Pre: func(in *Interp, st *State, ps []Val) {
				in.setCell(st, ps[0].(*Ptr).Obj, fmt.Sprint(tIdx), constInt(int64(t), 8, false))
			}})
			ret, _ := s.RetN(0).(*BV)
			v, ok := int64(-1), false
			if ret != nil && s.Failed == "" {
				v, ok = ret.ConstInt()
			}
			if !ok {
				wrong = append(wrong, fmt.Sprintf("type %#x: not decided (%s)", t, s.Failed))
				continue
			}
			if (v == 1) != m.set[t] {
				wrong = append(wrong, fmt.Sprintf("type %#x: %v, documented list says %v", t, v == 1, m.set[t]))
			}
			if m.name == "in" {
				isIn[t] = v == 1
			}
		}
		c.check("C19.class", m.anchor, "all 256 types: true exactly for the documented "+m.name+" types", len(wrong) == 0, strings.Join(wrong, "; "))
	}
	both := 0
	for t := range inSetT {
		if outSetT[t] {
			both++
		}
	}
	c.check("C19.class", "spec/segclose.json", "documented in and out lists are disjoint", both == 0, "")

	// ---- 3. CanClose for all 256 x 256 pairs
	c.checkCanClose(sess, oracle, tIdx)

	// ---- 4. Equal
	c.checkSegEqual(tIdx)
}

// mapWriters lists the functions that store to global g or update a map
// loaded from it (one or two lookups deep).
func (c *Checker) mapWriters(g *ssa.Global) []string {
	set := map[string]bool{}
	var derives func(v ssa.Value, d int) bool
	derives = func(v ssa.Value, d int) bool {
		if d == 0 || v == nil {
			return false
		}
		switch x := v.(type) {
		case *ssa.Global:
			return x == g
		case *ssa.UnOp:
			return derives(x.X, d-1)
		case *ssa.Lookup:
			return derives(x.X, d-1)
		case *ssa.Extract:
			return derives(x.Tuple, d-1)
		case *ssa.Phi:
			for _, e := range x.Edges {
				if derives(e, d-1) {
					return true
				}
			}
		}
		return false
	}
	for _, fn := range c.P.LibFuncs(true) {
		for _, b := range fn.Blocks {
			for _, ins := range b.Instrs {
				switch x := ins.(type) {
				case *ssa.Store:
					if x.Addr == ssa.Value(g) {
						set[fn.String()] = true
					}
				case *ssa.MapUpdate:
					if derives(x.Map, 6) {
						set[fn.String()] = true
					}
				case *ssa.Call:
					if b, ok := x.Call.Value.(*ssa.Builtin); ok && b.Name() == "delete" && derives(x.Call.Args[0], 6) {
						set[fn.String()] = true
					}
				}
			}
		}
	}
	var out []string
	for f := range set {
		out = append(out, f)
	}
	sort.Strings(out)
	return out
}

func (c *Checker) checkCanClose(sess *Session, oracle map[[2]int]string, tIdx int) {
	const anchor = "scte35:(*segmentationDescriptor).CanClose"
	fn, err := c.P.Func(anchor)
	if err != nil {
		c.undecided("C19.canclose", anchor, "anchor", err.Error())
		return
	}
	c.analysed[fn.String()] = true
	fidx := func(name string) (int, types.Type) {
		i, t, err := c.P.structFieldIndex("scte35", "segmentationDescriptor", name)
		if err != nil {
			c.undecided("C19.canclose", anchor, "field "+name, err.Error())
			return -1, nil
		}
		return i, t
	}
	evIdx, _ := fidx("eventID")
	snIdx, _ := fidx("segNum")
	seIdx, _ := fidx("segsExpected")
	siIdx, siT := fidx("spliceInfo")
	if evIdx < 0 || snIdx < 0 || seIdx < 0 || siIdx < 0 {
		return
	}
	// reference atoms
	dEvent := srcBV(U.source("cell", fmt.Sprintf("d.%d", evIdx), 32), false)
	dSegNum := srcBV(U.source("cell", fmt.Sprintf("d.%d", snIdx), 8), false)
	dSegExp := srcBV(U.source("cell", fmt.Sprintf("d.%d", seIdx), 8), false)
	oEvent := srcBV(U.source("param", "out.EventID", 32), false)
	dPTS := srcBV(U.source("param", "d.PTS", 64), false)
	oPTS := srcBV(U.source("param", "out.PTS", 64), false)
	eventEq := eqDef(dEvent, oEvent)
	ptsEq := eqDef(dPTS, oPTS)
	segDone := eqDef(dSegNum, dSegExp)

	var wrong []string
	perKind := map[string]int{}
	nPairs := 0
	for a := 0; a < 256; a++ {
		for b := 0; b < 256; b++ {
			s := Analyze(c.P, fn, &AnalyzeOpts{Sess: sess,
				Setup: func(in *Interp) { sdHooks(in, map[string]int{"out": b}) },
				Pre: func(in *Interp, st *State, ps []Val) {
					o := ps[0].(*Ptr).Obj
					in.setCell(st, o, fmt.Sprint(tIdx), constInt(int64(a), 8, false))
					in.setCell(st, o, fmt.Sprint(siIdx), &OpaqueV{Why: "d.SCTE35", T: siT})
				}})
			if s.Failed != "" {
				wrong = append(wrong, fmt.Sprintf("[%#x][%#x]: %s", a, b, s.Failed))
				if len(wrong) > 5 {
					break
				}
				continue
			}
			nPairs++
			kind := oracle[[2]int{a, b}]
			perKind[kind]++
			var want Bit
			switch kind {
			case "":
				want = U.B0
			case "Normal", "Unconditional", "Breakaway", "NoBreakaway":
				want = U.B1
			case "EventID":
				want = eventEq
			case "DiffPTS":
				want = bnot(ptsEq)
			case "EventIDNotNested":
				want = andAll(bconst(containsInt(spec19In, a)), eventEq, segDone)
			default:
				wrong = append(wrong, fmt.Sprintf("[%#x][%#x]: oracle kind %q has no reference formula", a, b, kind))
				continue
			}
			ret, _ := s.RetN(0).(*BV)
			if ret == nil || ret.W != 1 {
				wrong = append(wrong, fmt.Sprintf("[%#x][%#x]: non-boolean result", a, b))
				continue
			}
			if ret.Bits[0] != want {
				eq, dec, det := equivBits(ret.Bits[0], want, 10)
				if !(eq && dec) {
					wrong = append(wrong, fmt.Sprintf("[%#x][%#x] (%s): result %s, rule says %s (%s)", a, b, kind, ret.Bits[0], want, det))
				}
			}
			if w := s.WrittenCells(); len(w) > 0 {
				wrong = append(wrong, fmt.Sprintf("[%#x][%#x]: writes %v", a, b, w))
			}
		}
		if len(wrong) > 5 {
			break
		}
	}
	sort.Strings(wrong)
	d := ""
	if len(wrong) > 0 {
		d = fmt.Sprintf("%d pairs disagree; first: %s", len(wrong), wrong[0])
	}
	c.check("C19.canclose", anchor, "all 65536 type pairs: residual formula == documented rule (true / eventEq / ¬ptsEq / isIn∧eventEq∧segNum=segExpected / false without a rule), depends on nothing else", len(wrong) == 0, d)
	c.floorCheck("C19.canclose type pairs evaluated", nPairs, 65536)
	c.extra["pairs_per_rule_kind"] = perKind
}

var spec19In []int

func containsInt(s []int, v int) bool {
	for _, x := range s {
		if x == v {
			return true
		}
	}
	return false
}

func init() {
	var spec segcloseSpec
	if json.Unmarshal(segcloseJSON, &spec) == nil {
		for _, s := range spec.InTypes {
			spec19In = append(spec19In, hexInt(s))
		}
	}
}

func (c *Checker) checkSegEqual(tIdx int) {
	const anchor = "scte35:(*segmentationDescriptor).Equal"
	fidx := func(name string) int {
		i, _, err := c.P.structFieldIndex("scte35", "segmentationDescriptor", name)
		if err != nil {
			c.undecided("C19.equal", anchor, "field "+name, err.Error())
			return -1
		}
		return i
	}
	siIdx, siT, _ := c.P.structFieldIndex("scte35", "segmentationDescriptor", "spliceInfo")
	var in0 *Interp
	s, _ := c.summary("C19.equal", anchor, &AnalyzeOpts{
		Setup: func(in *Interp) { in0 = in; sdHooks(in, map[string]int{}) },
		Pre: func(in *Interp, st *State, ps []Val) {
			in.setCell(st, ps[0].(*Ptr).Obj, fmt.Sprint(siIdx), &OpaqueV{Why: "d.SCTE35", T: siT})
		}})
	if s == nil {
		return
	}
	cell := func(name string, w int) *BV {
		i := fidx(name)
		return srcBV(U.source("cell", fmt.Sprintf("d.%d", i), w), false)
	}
	par := func(name string, w int) *BV { return srcBV(U.source("param", name, w), false) }
	nilD := in0.nilBit(s.Params[0])
	nilC := in0.nilBit(s.Params[1])
	hasSubD, hasSubC := cell("hasSubSegments", 1).Bits[0], par("c.HasSubSegments", 1).Bits[0]
	want := andAll(
		bnot(nilD), bnot(nilC),
		eqDef(cell("typeID", 8), par("c.TypeID", 8)),
		par("d.HasPTS", 1).Bits[0], par("c.HasPTS", 1).Bits[0],
		eqDef(par("d.PTS", 64), par("c.PTS", 64)),
		eqDef(cell("eventID", 32), par("c.EventID", 32)),
		eqDef(cell("segNum", 8), par("c.SegmentNumber", 8)),
		eqDef(cell("segsExpected", 8), par("c.SegmentsExpected", 8)),
		bnot(bxor(hasSubD, hasSubC)),
		bnot(andAll(hasSubD, hasSubC, bnot(eqDef(cell("subSegNum", 8), par("c.SubSegmentNumber", 8))))),
		bnot(andAll(hasSubD, hasSubC, bnot(eqDef(cell("subSegsExpected", 8), par("c.SubSegmentsExpected", 8))))),
	)
	ret, _ := s.RetN(0).(*BV)
	ok, d := ret != nil && ret.W == 1, "non-boolean result"
	if ok {
		eq, dec, det := equivBits(ret.Bits[0], want, 16)
		ok, d = eq && dec, det
	}
	c.check("C19.equal", anchor, "residual == both non-nil ∧ typeEq ∧ hasPTS(d) ∧ hasPTS(c) ∧ ptsEq ∧ eventEq ∧ segNumEq ∧ segExpEq ∧ hasSubEq ∧ (hasSub ⇒ subNumEq ∧ subExpEq)", ok, d)
	c.check("C19.equal", anchor, "read-only", len(s.WrittenCells()) == 0, fmt.Sprint(s.WrittenCells()))
	_ = tIdx
}
