package main

import (
	"fmt"
	"math/big"
	"sort"
)

// Concrete evaluation of *extracted* abstract values (never of gots code):
// given values for the input sources, compute the value of a bit or term.
// Used to compare an extracted formula with a reference formula exhaustively
// over a small finite input space when they are not syntactically identical.

type cenv map[*Source]*big.Int

var errUneval = fmt.Errorf("not evaluable")

func (e cenv) bit(b Bit) (bool, error) {
	if b.top {
		return false, errUneval
	}
	v := b.c
	for _, id := range b.atoms {
		a := U.atoms[id]
		var x bool
		if a.kind == aSrc {
			val, err := e.src(a.src)
			if err != nil {
				return false, err
			}
			x = val.Bit(a.bit) == 1
		} else {
			x = true
			for _, o := range a.ops {
				y, err := e.bit(o)
				if err != nil {
					return false, err
				}
				if !y {
					x = false
					break
				}
			}
		}
		if x {
			v = !v
		}
	}
	return v, nil
}

func (e cenv) src(s *Source) (*big.Int, error) {
	if v, ok := e[s]; ok {
		return v, nil
	}
	if s.Def != nil {
		x, err := e.bit(s.Def)
		if err != nil {
			return nil, err
		}
		r := big.NewInt(0)
		if x {
			r.SetInt64(1)
		}
		e[s] = r
		return r, nil
	}
	if s.Term != nil {
		v, err := e.term(s.Term)
		if err != nil {
			return nil, err
		}
		v = new(big.Int).And(v, mask(s.Width))
		e[s] = v
		return v, nil
	}
	if seed, ok := e[seedSrc]; ok {
		// sampling mode: every free input gets a reproducible pseudo-random value
		h := uint64(seed.Int64())*0x9E3779B97F4A7C15 + uint64(s.id)*0xBF58476D1CE4E5B9
		h ^= h >> 31
		h *= 0x94D049BB133111EB
		h ^= h >> 29
		v := new(big.Int).SetUint64(h)
		if s.Width > 64 {
			v.Lsh(v, uint(s.Width-64)).Or(v, new(big.Int).SetUint64(h*0x2545F4914F6CDD1D))
		}
		v.And(v, mask(s.Width))
		e[s] = v
		return v, nil
	}
	return nil, fmt.Errorf("no value for source %s", s.Name)
}

// seedSrc, when present in an environment, switches it to sampling mode.
var seedSrc = &Source{id: -1, Name: "<seed>"}

// setField drives the symbolic bits of a field (MSB first, each a single bit
// of an input source) to the value v in env.
func setField(e cenv, bits []Bit, v uint64) {
	for i, b := range bits {
		if b.top || len(b.atoms) != 1 || b.c {
			continue
		}
		a := U.atoms[b.atoms[0]]
		if a.kind != aSrc || a.src.Term != nil || a.src.Def != nil {
			continue
		}
		cur, ok := e[a.src]
		if !ok {
			cur, _ = e.src(a.src)
		}
		n := new(big.Int).Set(cur)
		n.SetBit(n, a.bit, uint(v>>uint(len(bits)-1-i)&1))
		e[a.src] = n
	}
}

// boundaryValues of a w-bit unsigned field.
func boundaryValues(w int) []uint64 {
	m := uint64(1)<<uint(w) - 1
	if w >= 64 {
		m = ^uint64(0)
	}
	vs := []uint64{0, 1, 2, m, m - 1, m >> 1, m>>1 + 1}
	if w > 33 {
		vs = append(vs, 1<<33-1, 1<<33, 1<<33+1)
	}
	if w >= 33 {
		vs = append(vs, 1<<32-1, 1<<32, 1<<32+1)
	}
	return vs
}

// sampleEnvs builds environments in which the given fields run over all
// combinations of their boundary values, plus extra purely random ones.
func sampleEnvs(fields [][]Bit, extra int) []cenv {
	var out []cenv
	seed := int64(1)
	var rec func(i int, e cenv)
	rec = func(i int, e cenv) {
		if i == len(fields) {
			out = append(out, e)
			return
		}
		for _, v := range boundaryValues(len(fields[i])) {
			ne := cenv{}
			for k, x := range e {
				ne[k] = x
			}
			seed++
			ne[seedSrc] = big.NewInt(seed)
			setField(ne, fields[i], v)
			rec(i+1, ne)
		}
	}
	if len(fields) > 0 && len(fields) <= 3 {
		rec(0, cenv{seedSrc: big.NewInt(seed)})
	}
	for k := 0; k < extra; k++ {
		seed++
		out = append(out, cenv{seedSrc: big.NewInt(seed)})
	}
	return out
}

// sampledSame evaluates both vectors in every environment.
func sampledSame(got, want *BV, envs []cenv) (bool, string) {
	for _, e := range envs {
		ce := cenv{}
		for k, v := range e {
			ce[k] = v
		}
		a, err1 := ce.bv(got)
		b, err2 := ce.bv(want)
		if err1 != nil || err2 != nil {
			return false, fmt.Sprintf("not evaluable (%v %v)", err1, err2)
		}
		if a.Cmp(b) != 0 {
			return false, fmt.Sprintf("sample gives %#x, expected %#x", a, b)
		}
	}
	return true, ""
}

func mask(w int) *big.Int {
	return new(big.Int).Sub(new(big.Int).Lsh(big.NewInt(1), uint(w)), big.NewInt(1))
}

func toSigned(v *big.Int, w int) *big.Int {
	if w > 0 && v.Bit(w-1) == 1 {
		return new(big.Int).Sub(v, new(big.Int).Lsh(big.NewInt(1), uint(w)))
	}
	return v
}

func (e cenv) bv(v *BV) (*big.Int, error) {
	r := new(big.Int)
	for i, b := range v.Bits {
		x, err := e.bit(b)
		if err != nil {
			return nil, err
		}
		if x {
			r.SetBit(r, i, 1)
		}
	}
	return r, nil
}

// term evaluates t to its unsigned W-bit value.
func (e cenv) term(t *Term) (*big.Int, error) {
	w := t.W
	arg := func(i int) (*big.Int, error) { return e.term(t.Args[i]) }
	switch t.Op {
	case "const":
		if t.K.Sign() < 0 {
			return new(big.Int).And(t.K, mask(64)), nil
		}
		return t.K, nil
	case "bits":
		return e.bv(t.bv)
	case "lin":
		r := new(big.Int).Set(t.K)
		for i := range t.Args {
			a, err := arg(i)
			if err != nil {
				return nil, err
			}
			r.Add(r, new(big.Int).Mul(a, t.Coef[i]))
		}
		return r.And(r, mask(w)), nil
	case "mul", "quo", "rem", "squo", "srem", "shl", "shr":
		a, err := arg(0)
		if err != nil {
			return nil, err
		}
		b, err := arg(1)
		if err != nil {
			return nil, err
		}
		r := new(big.Int)
		switch t.Op {
		case "mul":
			r.Mul(a, b)
		case "quo":
			if b.Sign() == 0 {
				return nil, errUneval
			}
			r.Quo(a, b)
		case "rem":
			if b.Sign() == 0 {
				return nil, errUneval
			}
			r.Rem(a, b)
		case "squo", "srem":
			a, b = toSigned(a, w), toSigned(b, w)
			if b.Sign() == 0 {
				return nil, errUneval
			}
			if t.Op == "squo" {
				r.Quo(a, b)
			} else {
				r.Rem(a, b)
			}
		case "shl":
			if !b.IsInt64() || b.Int64() > 4096 {
				return big.NewInt(0), nil
			}
			r.Lsh(a, uint(b.Int64()))
		case "shr":
			if !b.IsInt64() || b.Int64() > 4096 {
				return big.NewInt(0), nil
			}
			r.Rsh(a, uint(b.Int64()))
		}
		return r.And(r, mask(w)), nil
	case "eq", "lt", "slt":
		a, err := arg(0)
		if err != nil {
			return nil, err
		}
		b, err := arg(1)
		if err != nil {
			return nil, err
		}
		var x bool
		switch t.Op {
		case "eq":
			x = a.Cmp(b) == 0
		case "lt":
			x = a.Cmp(b) < 0
		case "slt":
			wa := t.Args[0].W
			if t.Args[1].W > wa {
				wa = t.Args[1].W
			}
			x = toSigned(a, 64).Cmp(toSigned(b, 64)) < 0
			_ = wa
		}
		if x {
			return big.NewInt(1), nil
		}
		return big.NewInt(0), nil
	case "ite":
		c, err := arg(0)
		if err != nil {
			return nil, err
		}
		if c.Sign() != 0 {
			return arg(1)
		}
		return arg(2)
	}
	return nil, fmt.Errorf("term %s not evaluable", t.Op)
}

// inputSources collects the non-derived sources a set of bits depends on.
func inputSources(bits []Bit, into map[*Source]bool) bool {
	ok := true
	var walkT func(t *Term)
	var walkB func(b Bit)
	seenT := map[*Term]bool{}
	walkB = func(b Bit) {
		if b.top {
			ok = false
			return
		}
		for _, id := range b.atoms {
			a := U.atoms[id]
			if a.kind == aAnd {
				for _, o := range a.ops {
					walkB(o)
				}
				continue
			}
			switch {
			case a.src.Def != nil:
				walkB(a.src.Def)
			case a.src.Term != nil:
				walkT(a.src.Term)
			default:
				into[a.src] = true
			}
		}
	}
	walkT = func(t *Term) {
		if seenT[t] {
			return
		}
		seenT[t] = true
		if t.bv != nil {
			for _, b := range t.bv.Bits {
				walkB(b)
			}
		}
		for _, a := range t.Args {
			walkT(a)
		}
		switch t.Op {
		case "const", "bits", "lin", "mul", "quo", "rem", "squo", "srem", "shl", "shr", "eq", "lt", "slt", "ite":
		default:
			ok = false
		}
	}
	for _, b := range bits {
		walkB(b)
	}
	return ok
}

// semEqualBits decides whether got[i] == want[i] for all i over every
// assignment of the input sources, provided their total width is ≤ maxBits.
func semEqualBits(got, want []Bit, maxBits int) (equal, decided bool, detail string) {
	same := true
	for i := range got {
		if got[i] != want[i] {
			same = false
		}
	}
	if same {
		return true, true, ""
	}
	srcs := map[*Source]bool{}
	if !inputSources(got, srcs) || !inputSources(want, srcs) {
		return false, false, "not evaluable (⊤ or opaque term)"
	}
	var list []*Source
	total := 0
	for s := range srcs {
		list = append(list, s)
		total += s.Width
	}
	if total > maxBits {
		return false, false, fmt.Sprintf("%d input bits exceed the enumeration bound %d", total, maxBits)
	}
	sort.Slice(list, func(i, j int) bool { return list[i].id < list[j].id })
	for m := uint64(0); m < 1<<uint(total); m++ {
		env := cenv{}
		sh := uint(0)
		for _, s := range list {
			env[s] = new(big.Int).SetUint64(m >> sh & (1<<uint(s.Width) - 1))
			sh += uint(s.Width)
		}
		for i := range got {
			a, err := env.bit(got[i])
			if err != nil {
				return false, false, err.Error()
			}
			b, err := env.bit(want[i])
			if err != nil {
				return false, false, err.Error()
			}
			if a != b {
				d := fmt.Sprintf("bit %d is %v, expected %v when", i, a, b)
				for _, s := range list {
					d += fmt.Sprintf(" %s=%#x", s.Name, env[s])
				}
				return false, true, d
			}
		}
	}
	return true, true, ""
}

// walkTerms visits every term reachable from the given bits.
func walkTerms(bits []Bit, visit func(t *Term)) {
	seenT := map[*Term]bool{}
	seenB := map[int32]bool{}
	var walkT func(t *Term)
	var walkB func(b Bit)
	walkB = func(b Bit) {
		if b.top || seenB[b.id] {
			return
		}
		seenB[b.id] = true
		for _, id := range b.atoms {
			a := U.atoms[id]
			if a.kind == aAnd {
				for _, o := range a.ops {
					walkB(o)
				}
				continue
			}
			if a.src.Def != nil {
				walkB(a.src.Def)
			}
			if a.src.Term != nil {
				walkT(a.src.Term)
			}
		}
	}
	walkT = func(t *Term) {
		if seenT[t] {
			return
		}
		seenT[t] = true
		visit(t)
		if t.bv != nil {
			for _, b := range t.bv.Bits {
				walkB(b)
			}
		}
		for _, a := range t.Args {
			walkT(a)
		}
	}
	for _, b := range bits {
		walkB(b)
	}
}
