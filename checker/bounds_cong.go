package main

import (
	"go/token"

	"golang.org/x/tools/go/ssa"
)

// Congruences. The linear facts cannot express "len(p) is a multiple of 188",
// which is what makes `for rest := p; len(rest) > 0; rest = rest[188:]` safe
// after `len(p)%188 != 0` was rejected. The rule used by proveAt:
//
//	e ≡ 0 (mod k)  ∧  e + (k−1) ≥ 0   ⇒   e ≥ 0
//
// e ≡ 0 (mod k) is established syntactically over the affine form: the
// constant and every coefficient are multiples of k, or the atom is one whose
// remainder modulo k is known to be 0 where the question is asked: it is the
// operand of an `x % c` (k | c) whose result is 0 by the facts of the block,
// or a loop-head phi (or the length of a slice phi) all of whose incoming
// values are multiples under the hypothesis that the phi itself is
// (induction over the iterations).

// moduli lists the constants c > 1 of the `x % c` operations of the function.
func (bf *boundsFn) moduli() []int64 {
	if bf.mods != nil {
		return *bf.mods
	}
	var out []int64
	seen := map[int64]bool{}
	for _, b := range bf.fn.Blocks {
		for _, ins := range b.Instrs {
			bo, ok := ins.(*ssa.BinOp)
			if !ok || bo.Op != token.REM {
				continue
			}
			if c, ok := bo.Y.(*ssa.Const); ok {
				if k, ok := constInt64(c); ok && k > 1 && !seen[k] {
					seen[k] = true
					out = append(out, k)
				}
			}
		}
	}
	bf.mods = &out
	return out
}

func (bf *boundsFn) multipleOf(e aff, k int64, b *ssa.BasicBlock, hyp map[interface{}]bool, depth int) bool {
	if e.k%k != 0 {
		return false
	}
	for _, x := range e.sortedAtoms() {
		if e.t[x]%k == 0 {
			continue
		}
		if !bf.atomMultipleOf(x, k, b, hyp, depth) {
			return false
		}
	}
	return true
}

func (bf *boundsFn) atomMultipleOf(x interface{}, k int64, b *ssa.BasicBlock, hyp map[interface{}]bool, depth int) bool {
	if hyp[x] {
		return true
	}
	if depth > 6 {
		return false
	}
	// x is (up to a multiple of k) the operand of a remainder known to be 0 here
	for _, blk := range bf.fn.Blocks {
		for _, ins := range blk.Instrs {
			bo, ok := ins.(*ssa.BinOp)
			if !ok || bo.Op != token.REM {
				continue
			}
			c, ok := bo.Y.(*ssa.Const)
			if !ok {
				continue
			}
			m, ok := constInt64(c)
			if !ok || m <= 1 || m%k != 0 {
				continue
			}
			a := bf.affOf(bo.X)
			if a.k%k != 0 || len(a.t) != 1 {
				continue
			}
			if co, has := a.t[x]; !has || (co != 1 && co != -1) {
				continue
			}
			if !blk.Dominates(b) {
				continue
			}
			r := affAtom(ssa.Value(bo))
			if bf.proveAt(r.scale(-1), b, nil) && bf.proveAt(r, b, nil) {
				return true
			}
		}
	}
	// loop-carried value: every incoming value is a multiple if the phi is
	var phi *ssa.Phi
	isLen := false
	switch v := x.(type) {
	case lenKey:
		phi, _ = v.v.(*ssa.Phi)
		isLen = true
	case ssa.Value:
		phi, _ = v.(*ssa.Phi)
	}
	if phi == nil {
		return false
	}
	h2 := map[interface{}]bool{x: true}
	for y := range hyp {
		h2[y] = true
	}
	for i, ev := range phi.Edges {
		var a aff
		if isLen {
			a = bf.lenAff(ev)
		} else {
			a = bf.affOf(ev)
		}
		if !bf.multipleOf(a, k, phi.Block().Preds[i], h2, depth+1) {
			return false
		}
	}
	return true
}

// proveByCongruence: e ≥ 0 from e ≡ 0 (mod k) and e ≥ −(k−1).
func (bf *boundsFn) proveByCongruence(e aff, b *ssa.BasicBlock, at ssa.Instruction) bool {
	if bf.inCong {
		return false
	}
	bf.inCong = true
	defer func() { bf.inCong = false }()
	for _, k := range bf.moduli() {
		if bf.multipleOf(e, k, b, nil, 0) && bf.proveAt(e.add(affConst(k-1), 1), b, at) {
			return true
		}
	}
	return false
}

// proveByInduction: e = φ + c for a loop-head phi φ is proved as a loop
// invariant: on every entry edge the incoming value satisfies it (proved
// without the hypothesis), and on every back edge it follows from the facts of
// the latch block together with the hypothesis that it held at the head of
// the iteration. An SSA phi keeps the value it had at the head for the whole
// iteration, so the invariant holds wherever φ is in scope.
func (bf *boundsFn) proveByInduction(e aff) bool {
	if bf.inInd {
		return false
	}
	if len(e.t) != 1 {
		// bring e into the form φ + c with one of the equalities that hold
		// wherever their atoms are defined (lockstep relations)
		for i, g := range bf.global {
			for _, h := range bf.global[i+1:] {
				if z := g.add(h, 1); len(z.t) != 0 || z.k != 0 {
					continue // not a pair g ≥ 0, −g ≥ 0
				}
				for _, l := range []int64{1, -1} {
					if e2 := e.add(g, l); len(e2.t) == 1 && bf.proveByInduction(e2) {
						return true
					}
				}
			}
		}
		return false
	}
	var phi *ssa.Phi
	for x, co := range e.t {
		v, ok := x.(ssa.Value)
		if !ok || co != 1 {
			return false
		}
		phi, _ = v.(*ssa.Phi)
	}
	if phi == nil || !isIntType(phi.Type()) {
		return false
	}
	h := phi.Block()
	loop := false
	for _, p := range h.Preds {
		if h.Dominates(p) {
			loop = true
		}
	}
	if !loop {
		return false
	}
	bf.inInd = true
	defer func() { bf.inInd = false }()
	c := affConst(e.k)
	for i, ev := range phi.Edges {
		pred := h.Preds[i]
		need := bf.affOf(ev).add(c, 1)
		if h.Dominates(pred) {
			saved := bf.global
			bf.global = append(append([]aff(nil), saved...), e)
			ok := bf.proveAt(need, pred, nil)
			bf.global = saved
			if !ok {
				return false
			}
		} else if !bf.proveAt(need, pred, nil) {
			return false
		}
	}
	return true
}
