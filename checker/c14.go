package main

import (
	"fmt"
	"go/types"
	"golang.org/x/tools/go/ssa"
	"strings"
)

// C14: PMT filtering. FilterPMTPacketsToPids is abstractly interpreted
// (bytes.Buffer model, ComputeCRC uninterpreted) on PMT shapes whose length
// fields, elementary PIDs and packetisation are constants while every other
// bit is symbolic, for constant PID lists; the returned packets are compared
// with the reference section of the selected streams re-packetised over the
// original headers.

type pmt14Stream struct {
	pid  int
	desc []int // descriptor body lengths
}

type pmt14Shape struct {
	name    string
	ptr     int
	pil     int
	streams []pmt14Stream
	afLens  []int // one entry per packet: adaptation_field_length, or -1 for none
	pid     int   // PID of the PMT packets
}

func (s pmt14Shape) starts() []int {
	out := make([]int, len(s.afLens))
	for i, a := range s.afLens {
		out[i] = 4
		if a >= 0 {
			out[i] = 5 + a
		}
	}
	return out
}

func pktName(k int) string { return fmt.Sprintf("pkt%d", k) }

// loc maps a byte of the concatenated payload to (packet object, index).
func (s pmt14Shape) loc() func(i int) (string, int) {
	st := s.starts()
	return func(i int) (string, int) {
		for k, b := range st {
			n := 188 - b
			if i < n {
				return pktName(k), b + i
			}
			i -= n
		}
		return "beyond", i
	}
}

func (s pmt14Shape) capacity() int {
	n := 0
	for _, b := range s.starts() {
		n += 188 - b
	}
	return n
}

// encode: pointer_field, filler and the PMT section restricted to the streams
// with keep[i] (nil: all). With vals == nil the bytes are the input's own.
// The four CRC bytes are taken from crc (nil: symbolic input bytes).
func (s pmt14Shape) encode(vals map[string][]Bit, keep []bool, crc []*BV) (cells []*BV, out map[string][]Bit, sectionAt int) {
	return s.encodeTo(&bitw{loc: s.loc()}, vals, keep, crc)
}

// encodeObj: the same layout inside one object.
func (s pmt14Shape) encodeObj(obj string, vals map[string][]Bit) ([]*BV, map[string][]Bit, int) {
	return s.encodeTo(&bitw{obj: obj}, vals, nil, nil)
}

func (s pmt14Shape) encodeTo(w *bitw, vals map[string][]Bit, keep []bool, crc []*BV) (cells []*BV, out map[string][]Bit, sectionAt int) {
	out = map[string][]Bit{}
	f := func(name string, n int) {
		var bs []Bit
		if vals == nil {
			bs = w.sym(n)
		} else {
			bs = vals[name]
			if bs == nil {
				bs = zeroBits(n)
			}
			w.put(bs)
		}
		out[name] = bs
	}
	w.constBits(uint64(s.ptr), 8)
	for i := 0; i < s.ptr; i++ {
		f(fmt.Sprintf("fill%d", i), 8)
	}
	sectionAt = w.bytePos()
	w.constBits(0x02, 8)
	f("hdrHi", 4)
	lenAt := len(w.bits)
	w.constBits(0, 12)
	start := w.bytePos()
	f("programNumber", 16)
	f("version", 8)
	f("sectionNumber", 8)
	f("lastSectionNumber", 8)
	f("pcrPid", 16)
	f("pilHi", 4)
	w.constBits(uint64(s.pil), 12)
	for i := 0; i < s.pil; i++ {
		f(fmt.Sprintf("pinfo%d", i), 8)
	}
	for i, es := range s.streams {
		if keep != nil && !keep[i] {
			continue
		}
		p := fmt.Sprintf("s%d.", i)
		f(p+"type", 8)
		f(p+"res3", 3)
		w.constBits(uint64(es.pid), 13)
		f(p+"res4", 4)
		il := 0
		for _, d := range es.desc {
			il += 2 + d
		}
		w.constBits(uint64(il), 12)
		for j, d := range es.desc {
			f(fmt.Sprintf("%sd%d.tag", p, j), 8)
			w.constBits(uint64(d), 8)
			for b := 0; b < d; b++ {
				f(fmt.Sprintf("%sd%d.%d", p, j, b), 8)
			}
		}
	}
	if crc != nil {
		for _, c := range crc {
			w.put(msbBits(c, 8))
		}
	} else {
		f("crc", 32)
	}
	w.patch(lenAt, uint64(w.bytePos()-start), 12)
	return w.cells(), out, sectionAt
}

var pmt14Shapes = []pmt14Shape{
	{name: "one packet, three streams", ptr: 0, pil: 0, streams: []pmt14Stream{{0x101, []int{4}}, {0x102, nil}, {0x103, []int{2, 0}}}, afLens: []int{-1}, pid: 0x64},
	{name: "one packet, pointer 2, program info, adaptation field", ptr: 2, pil: 5, streams: []pmt14Stream{{0x101, nil}, {0x1FFF, []int{1}}}, afLens: []int{7}, pid: 0x64},
	{name: "two packets (section crosses the boundary), four streams", ptr: 0, pil: 3, streams: []pmt14Stream{{0x21, []int{40}}, {0x22, []int{60, 3}}, {0x23, []int{30}}, {0x24, []int{25}}}, afLens: []int{-1, -1}, pid: 0x20},
	{name: "two packets, second with adaptation field, split inside a descriptor", ptr: 1, pil: 0, streams: []pmt14Stream{{0x31, []int{100}}, {0x32, []int{70}}, {0x33, nil}}, afLens: []int{-1, 100}, pid: 0x30},
	{name: "three packets with short payloads", ptr: 0, pil: 2, streams: []pmt14Stream{{0x41, []int{10}}, {0x42, []int{12}}, {0x43, []int{9}}}, afLens: []int{150, 160, 120}, pid: 0x40},
	{name: "no streams", ptr: 0, pil: 4, streams: nil, afLens: []int{-1}, pid: 0x64},
	// length fields above 255
	{name: "two packets, a stream with ES_info_length 270 (255-byte descriptor)", ptr: 0, pil: 0, streams: []pmt14Stream{{0x51, []int{255, 11}}, {0x52, nil}}, afLens: []int{-1, -1}, pid: 0x50},
	{name: "two packets, program_info_length 258", ptr: 0, pil: 258, streams: []pmt14Stream{{0x61, []int{3}}, {0x62, nil}}, afLens: []int{-1, -1}, pid: 0x60},
}

type pidCase struct {
	name string
	pids []int
}

func pmt14PidCases(s pmt14Shape) []pidCase {
	var all, first, last []int
	for i, es := range s.streams {
		all = append(all, es.pid)
		if i == 0 {
			first = append(first, es.pid)
		}
		if i == len(s.streams)-1 {
			last = append(last, es.pid)
		}
	}
	var rev []int
	for i := len(all) - 1; i >= 0; i-- {
		rev = append(rev, all[i])
	}
	cs := []pidCase{{"empty list", nil}, {"all streams", all}, {"all streams in reverse order", rev}, {"only the PMT PID", []int{s.pid}}, {"PAT and PMT PID", []int{0, s.pid}}, {"one absent PID", []int{0x1ABC}}, {"one absent PID twice", []int{0x1ABC, 0x1ABC}}, {"two absent PIDs, one repeated", []int{0x1ABC, 0x1ABD, 0x1ABC}}}
	if len(all) > 0 {
		cs = append(cs, pidCase{"first stream", first}, pidCase{"last stream", last}, pidCase{"last stream twice", append(append([]int(nil), last...), last...)},
			pidCase{"first stream and an absent PID", append(append([]int(nil), first...), 0x1ABC)}, pidCase{"first stream, PAT PID, absent PID", []int{first[0], 0, 0x1ABC}}, pidCase{"first stream and an absent PID twice", []int{first[0], 0x1ABC, 0x1ABC}})
	}
	if len(all) > 2 {
		cs = append(cs, pidCase{"first and last stream", []int{all[0], all[len(all)-1]}}, pidCase{"middle stream", []int{all[1]}})
	}
	return cs
}

// pmt14Pre builds the packets slice and the pid list in the initial state.
func pmt14Pre(s pmt14Shape, pids []int, objs *[]*Obj) func(in *Interp, st *State, ps []Val) {
	return func(in *Interp, st *State, ps []Val) {
		cells, _, _ := s.encode(nil, nil, nil)
		capTotal := s.capacity()
		pktT := ps[0].(*SliceV).Elem.(*types.Pointer).Elem()
		var ptrs []Val
		pos := 0
		for k, b := range s.starts() {
			o := in.newObj(pktName(k), "param", pktT, true)
			o.NonNil = true
			*objs = append(*objs, o)
			// header: payload flag, adaptation field flag/length, PMT PID
			b1 := cellBV(o.Name, 1)
			b1 = &BV{W: 8, Bits: append([]Bit(nil), b1.Bits...)}
			for i := 0; i < 5; i++ {
				b1.Bits[i] = bconst(s.pid>>uint(8+i)&1 == 1)
			}
			in.setCell(st, o, "1", b1)
			in.setCell(st, o, "2", constByte(s.pid&0xFF))
			b3 := cellBV(o.Name, 3)
			b3 = &BV{W: 8, Bits: append([]Bit(nil), b3.Bits...)}
			b3.Bits[4] = U.B1
			b3.Bits[5] = bconst(s.afLens[k] >= 0)
			in.setCell(st, o, "3", b3)
			if s.afLens[k] >= 0 {
				in.setCell(st, o, "4", constByte(s.afLens[k]))
			}
			for i := b; i < 188; i++ {
				if pos < len(cells) {
					in.setCell(st, o, fmt.Sprint(i), cells[pos])
				} else {
					in.setCell(st, o, fmt.Sprint(i), constByte(0xFF))
				}
				pos++
			}
			ptrs = append(ptrs, &Ptr{Obj: o, T: pktT})
		}
		_ = capTotal
		pk := ps[0].(*SliceV)
		po := pk.Obj
		po.N, po.Len = len(ptrs), constInt(int64(len(ptrs)), 64, true)
		pk.Len = po.Len
		for i, p := range ptrs {
			in.setCell(st, po, fmt.Sprint(i), p)
		}
		pd := ps[1].(*SliceV)
		pd.Obj.N, pd.Obj.Len = len(pids), constInt(int64(len(pids)), 64, true)
		pd.Len = pd.Obj.Len
		for i, v := range pids {
			in.setCell(st, pd.Obj, fmt.Sprint(i), constInt(int64(v), 64, true))
		}
	}
}

func (c *Checker) filterCase(s pmt14Shape, pc pidCase) string {
	fn, err := c.P.Func("psi:FilterPMTPacketsToPids")
	if err != nil {
		return err.Error()
	}
	c.analysed[fn.String()] = true
	if len(s.starts()) == 0 || s.capacity() < 1+s.ptr+12+s.pil+4 {
		return "internal: shape does not fit its packets"
	}
	sum, calls, objs := c.filterRun(fn, s, pc)
	if sum.Failed != "" {
		return "analysis: " + sum.Failed
	}
	if len(pc.pids) == 0 {
		// nothing requested: the input comes back unchanged
		rv, ok := sum.RetN(0).(*SliceV)
		if !ok || rv.Obj != sum.Params[0].(*SliceV).Obj || len(sum.WrittenCells()) > 0 {
			return "an empty PID list does not return the input unchanged"
		}
		if eq, dec, _ := equivBits(sum.in.nilBit(sum.RetN(1)), U.B1, 16); !eq || !dec {
			return "an empty PID list returns an error"
		}
		return ""
	}
	// which streams are kept; which requested PIDs are missing
	in := func(pid int) bool {
		for _, p := range pc.pids {
			if p == pid {
				return true
			}
		}
		return false
	}
	keep := make([]bool, len(s.streams))
	for i, es := range s.streams {
		keep[i] = in(es.pid)
	}
	missing := 0
	for _, p := range pc.pids {
		found := false
		for _, es := range s.streams {
			if es.pid == p {
				found = true
			}
		}
		if !found && p != 0 && p != s.pid {
			missing++
		}
	}
	wantErr := missing > 0
	wantNone := missing == len(pc.pids)
	if eq, dec, det := equivBits(sum.in.nilBit(sum.RetN(1)), bconst(!wantErr), 16); !eq || !dec {
		if wantErr {
			return "a requested PID is not in the PMT but no error is returned " + det
		}
		return "every requested PID is in the PMT but an error is returned " + det
	}
	for _, o := range objs {
		for _, w := range sum.WrittenCells() {
			if strings.HasPrefix(w, o.Name+"[") {
				return "an input packet is modified: " + w
			}
		}
	}
	n := &nav{sum.in, sum.Out}
	outPk, ok := n.elems(sum.RetN(0))
	if !ok {
		return "result is " + showVal(sum.RetN(0))
	}
	if wantNone {
		if len(outPk) != 0 {
			return fmt.Sprintf("none of the requested PIDs is in the PMT but %d packets are returned", len(outPk))
		}
		return ""
	}
	if len(calls) == 0 {
		return "ComputeCRC is never called"
	}
	crcObj := calls[len(calls)-1].out
	crc := []*BV{cellBV(crcObj.Name, 0), cellBV(crcObj.Name, 1), cellBV(crcObj.Name, 2), cellBV(crcObj.Name, 3)}
	_, vals, _ := s.encode(nil, nil, nil)
	want, _, secAt := s.encode(vals, keep, crc)
	// the CRC covers the new section from table_id up to the CRC field
	inp := calls[len(calls)-1].input
	if len(inp) != len(want)-secAt-4 {
		return fmt.Sprintf("CRC computed over %d bytes, the filtered section has %d before its CRC", len(inp), len(want)-secAt-4)
	}
	for i, v := range inp {
		bv, ok := v.(*BV)
		if !ok {
			return "CRC input is not bytes"
		}
		if ok, d := matchBits(bv, want[secAt+i].Bits); !ok {
			return fmt.Sprintf("CRC input byte %d: %s", i, d)
		}
	}
	// re-packetisation over the original headers
	pos := 0
	nOut := 0
	for k, b := range s.starts() {
		if pos >= len(want) {
			break
		}
		nOut++
		if k >= len(outPk) {
			return fmt.Sprintf("%d packets returned, the filtered PMT needs more", len(outPk))
		}
		p, ok := outPk[k].(*Ptr)
		if !ok {
			return fmt.Sprintf("packet %d is %s", k, showVal(outPk[k]))
		}
		for _, o := range objs {
			if p.Obj == o {
				return fmt.Sprintf("output packet %d is an input packet", k)
			}
		}
		for i := 0; i < 188; i++ {
			got, _ := n.in.loadPath(n.st, p.Obj, joinPath(p.Path, i), byteT).(*BV)
			var exp *BV
			switch {
			case i < b:
				exp, _ = sum.in.loadPath(sum.Init, objs[k], fmt.Sprint(i), byteT).(*BV)
			case pos < len(want):
				exp = want[pos]
				pos++
			default:
				exp = constByte(0xFF)
			}
			if got == nil || exp == nil {
				return fmt.Sprintf("packet %d byte %d unreadable", k, i)
			}
			if ok, d := matchBits(got, exp.Bits); !ok {
				part := "payload"
				if i < b {
					part = "header"
				}
				return fmt.Sprintf("packet %d byte %d (%s): %s", k, i, part, d)
			}
		}
	}
	if len(outPk) != nOut {
		return fmt.Sprintf("%d packets returned, the filtered PMT fills %d", len(outPk), nOut)
	}
	return ""
}

// filterRun interprets FilterPMTPacketsToPids on one shape and PID list.
func (c *Checker) filterRun(fn *ssa.Function, s pmt14Shape, pc pidCase) (*Summary, []crcCall, []*Obj) {
	var calls []crcCall
	var objs []*Obj
	sum := Analyze(c.P, fn, &AnalyzeOpts{Pre: pmt14Pre(s, pc.pids, &objs), SliceLen: map[string]int{"packets": len(s.afLens), "pids": len(pc.pids)}, Setup: func(in *Interp) {
		s35EncSetup(&calls)(in)
		pmtOpaqueCtors(in) // the stream/descriptor constructors only store their arguments (C06)
	}})
	return sum, calls, objs
}

// filterCRCCase decides only the checksum clause for one shape and PID list:
// the section that the returned packets carry (located by its own
// pointer_field and section_length) ends in the result of the one ComputeCRC
// call whose input is exactly the section's bytes before those four.
func (c *Checker) filterCRCCase(s pmt14Shape, pc pidCase) string {
	fn, err := c.P.Func("psi:FilterPMTPacketsToPids")
	if err != nil {
		return err.Error()
	}
	c.analysed[fn.String()] = true
	sum, calls, _ := c.filterRun(fn, s, pc)
	if sum.Failed != "" {
		return "analysis: " + sum.Failed
	}
	n := &nav{sum.in, sum.Out}
	outPk, ok := n.elems(sum.RetN(0))
	if !ok || len(outPk) == 0 {
		return "no packets returned: " + showVal(sum.RetN(0))
	}
	var pay []*BV
	for k, b := range s.starts() {
		if k >= len(outPk) {
			break
		}
		p, ok := outPk[k].(*Ptr)
		if !ok {
			return fmt.Sprintf("packet %d is %s", k, showVal(outPk[k]))
		}
		for i := b; i < 188; i++ {
			bv, _ := n.in.loadPath(n.st, p.Obj, joinPath(p.Path, i), byteT).(*BV)
			if bv == nil {
				return fmt.Sprintf("packet %d byte %d unreadable", k, i)
			}
			pay = append(pay, bv)
		}
	}
	ptr, ok := pay[0].ConstInt()
	if !ok {
		return "pointer_field of the output is not a constant of the layout"
	}
	at := 1 + int(ptr)
	if at+3 > len(pay) {
		return "the output is too short for a section header"
	}
	hi, ok1 := constLowBits(pay[at+1], 4)
	lo, ok2 := pay[at+2].ConstInt()
	if !ok1 || !ok2 {
		return "section_length of the output is not a constant of the layout"
	}
	sl := int(hi&0x0f)<<8 | int(lo)
	end := at + 3 + sl
	if sl < 4 || end > len(pay) {
		return fmt.Sprintf("section_length %d does not fit the returned packets", sl)
	}
	if len(calls) != 1 {
		return fmt.Sprintf("ComputeCRC is called %d times", len(calls))
	}
	inp := calls[0].input
	if len(inp) != sl+3-4 {
		return fmt.Sprintf("CRC computed over %d bytes, the emitted section has %d before its CRC_32", len(inp), sl+3-4)
	}
	for i, v := range inp {
		bv, ok := v.(*BV)
		if !ok || !sameBV(bv, pay[at+i]) {
			return fmt.Sprintf("CRC input byte %d is not byte %d of the emitted section", i, i)
		}
	}
	for i := 0; i < 4; i++ {
		if !sameBV(pay[end-4+i], cellBV(calls[0].out.Name, i)) {
			return fmt.Sprintf("CRC_32 byte %d of the emitted section is not byte %d of the ComputeCRC result", i, i)
		}
	}
	return ""
}

func (c *Checker) runPMTFilter() {
	total := 0
	for _, s := range pmt14Shapes {
		a := &stepAgg{}
		for _, pc := range pmt14PidCases(s) {
			a.n++
			total++
			if d := c.filterCase(s, pc); d != "" {
				a.bad++
				if a.first == "" {
					a.first = fmt.Sprintf("PIDs %v (%s): %s", pc.pids, pc.name, d)
				}
			}
		}
		c.check("C14.filter", "psi:FilterPMTPacketsToPids", s.name+": original headers, pointer_field, program header and descriptors, exactly the selected streams in order, new section_length, CRC over the new section, 0xFF padding; error contract; inputs untouched",
			a.bad == 0, fmt.Sprintf("%d of %d PID lists fail; first: %s", a.bad, a.n, a.first))
	}
	c.floorCheck("C14.filter analyses (shape x PID list)", total, 50)
}

func runC14(c *Checker) {
	c.Level = "other"
	c.explain = "FilterPMTPacketsToPids is abstractly interpreted (SSA, bit-provenance domain, bytes.Buffer model, ComputeCRC uninterpreted with its input window recorded) on PMT shapes whose length fields, elementary PIDs, PMT PID and packetisation (number of packets, adaptation field lengths) are constants and every other bit is symbolic, for constant PID lists (all, subsets, reversed, duplicated, absent, PAT/PMT PID). The returned packets are compared byte for byte with the reference: original header of each packet, then pointer_field, filler, the 12 header bytes with the new section_length, program descriptors, the selected streams in their original order with descriptors, CRC_32 = ComputeCRC(new section), 0xFF padding; plus the error contract and that no input packet is written."
	c.trust("go/ssa + go/types (x/tools v0.29.0)", "E1 abstract interpreter", "bytes.Buffer model (bufmodel.go)", "reference PMT layout in c14.go (ISO/IEC 13818-1 Table 2-33)", "C13 for the CRC function itself")
	c.runPMTFilter()
	c.runPMTRemove()
}

// ------------------------------------------------ in-memory stream removal

func (c *Checker) runPMTRemove() {
	newPMT, err := c.P.Func("psi:NewPMT")
	if err != nil {
		c.undecided("C14.remove", "psi:(*pmt).RemoveElementaryStreams", "anchor", err.Error())
		return
	}
	sess := NewSession(c.P, "psi")
	a := &stepAgg{}
	for _, s := range pmt14Shapes {
		if len(s.streams) == 0 {
			continue
		}
		s := s
		s.afLens = []int{-1, -1, -1}[:1+(1+s.ptr+12+s.pil+200)/184]
		var all []int
		for _, es := range s.streams {
			all = append(all, es.pid)
		}
		cases := [][]int{nil, {all[0]}, {all[len(all)-1]}, all, {0x1ABC}, {all[len(all)-1], all[0]}, {all[0], all[0]}}
		if len(all) > 2 {
			cases = append(cases, []int{all[1]}, []int{all[2], 0x1ABC, all[0]})
		}
		for _, rm := range cases {
			a.n++
			fail := func(d string) {
				a.bad++
				if a.first == "" {
					a.first = fmt.Sprintf("%s, remove %v: %s", s.name, rm, d)
				}
			}
			// one contiguous payload: pointer_field + section (+ stuffing)
			flat := s
			flat.afLens = []int{-1}
			cells, _, _ := pmt14Flat(flat)
			pre := func(in *Interp, st *State, ps []Val) {
				seedCells(in, st, ps[0].(*SliceV).Obj, 0, cells)
			}
			sum := Analyze(c.P, newPMT, &AnalyzeOpts{Sess: sess, Pre: pre, SliceLen: map[string]int{"pmtBytes": len(cells)}, Setup: func(in *Interp) { in.MaxDepth = 24; in.MaxSteps = 8000000 }})
			if sum.Failed != "" {
				fail("analysis of NewPMT: " + sum.Failed)
				continue
			}
			n := &nav{sum.in, sum.Out}
			p := sum.RetN(0)
			var rmv []Val
			for _, v := range rm {
				rmv = append(rmv, constInt(int64(v), 64, true))
			}
			n.call(p, "RemoveElementaryStreams", n.mkSlice("rm", types.Typ[types.Int], rmv))
			if n.in.Fail != "" {
				fail("analysis of RemoveElementaryStreams: " + n.in.Fail)
				continue
			}
			var want []int
			for _, pid := range all {
				gone := false
				for _, r := range rm {
					if r == pid {
						gone = true
					}
				}
				if !gone {
					want = append(want, pid)
				}
			}
			es, ok := n.elems(n.call(p, "ElementaryStreams"))
			if !ok || len(es) != len(want) {
				fail(fmt.Sprintf("%d streams remain (%v), expected %d", len(es), ok, len(want)))
				continue
			}
			bad := ""
			for i, e := range es {
				if v, ok := n.call(e, "ElementaryPid").(*BV); !ok {
					bad = "stream PID is not an integer"
				} else if k, ok := v.ConstInt(); !ok || int(k) != want[i] {
					bad = fmt.Sprintf("stream %d has PID %s, expected %#x", i, showVal(v), want[i])
				}
			}
			ps, ok := n.elems(n.call(p, "Pids"))
			if !ok || len(ps) != len(want) {
				bad = fmt.Sprintf("Pids() has %d entries, expected %d", len(ps), len(want))
			} else {
				for i, v := range ps {
					if k, ok := v.(*BV).ConstInt(); !ok || int(k) != want[i] {
						bad = fmt.Sprintf("Pids()[%d] is %s, expected %#x", i, showVal(v), want[i])
					}
				}
			}
			for _, q := range append(append([]int(nil), all...), 0x1ABC) {
				exp := false
				for _, w := range want {
					if w == q {
						exp = true
					}
				}
				v, _ := n.call(p, "PIDExists", constInt(int64(q), 64, true)).(*BV)
				if v == nil || !sameBV(v, boolBV(bconst(exp))) {
					bad = fmt.Sprintf("PIDExists(%#x) is %s, expected %v", q, showVal(v), exp)
				}
			}
			if n.in.Fail != "" {
				bad = "analysis: " + n.in.Fail
			}
			if bad != "" {
				fail(bad)
			}
		}
	}
	c.check("C14.remove", "psi:(*pmt).RemoveElementaryStreams", "exactly the other streams remain, in order; Pids() and PIDExists agree with the stream list",
		a.bad == 0, fmt.Sprintf("%d of %d cases fail; first: %s", a.bad, a.n, a.first))
	c.floorCheck("C14.remove analyses", a.n, 30)
}

// pmt14Flat encodes the shape as one contiguous payload over object
// "pmtBytes" with constant stream types (the stream-type table is searched by
// value).
func pmt14Flat(s pmt14Shape) ([]*BV, map[string][]Bit, int) {
	types := []int{0x1B, 0x0F, 0x86, 0x02, 0x81}
	vals := map[string][]Bit{}
	// take everything from the input except the stream types
	w := s
	w.afLens = []int{-1}
	sym, names, _ := (&pmt14One{w}).encode()
	_ = sym
	for k, v := range names {
		vals[k] = v
	}
	for i := range s.streams {
		vals[fmt.Sprintf("s%d.type", i)] = constMSB(uint64(types[i%len(types)]), 8)
	}
	cells, out, at := (&pmt14One{w}).encodeWith(vals)
	return cells, out, at
}

// pmt14One: the shape laid out in a single object.
type pmt14One struct{ s pmt14Shape }

func (o *pmt14One) encode() ([]*BV, map[string][]Bit, int) {
	s := o.s
	s.afLens = nil
	return pmt14EncodeIn("pmtBytes", s, nil)
}

func (o *pmt14One) encodeWith(vals map[string][]Bit) ([]*BV, map[string][]Bit, int) {
	return pmt14EncodeIn("pmtBytes", o.s, vals)
}

// pmt14EncodeIn lays the section out in one object (no packet mapping).
func pmt14EncodeIn(obj string, s pmt14Shape, vals map[string][]Bit) ([]*BV, map[string][]Bit, int) {
	flat := s
	flat.afLens = []int{-1}
	cells, out, at := flat.encodeObj(obj, vals)
	return cells, out, at
}
