package main

import (
	"fmt"
	"math/big"
	"sort"
	"strings"
)

// Affine ("lin") terms: k + Σ cᵢ·tᵢ modulo 2^W, canonical (terms sorted by id,
// equal terms merged, zero coefficients dropped). This is the affine-form part
// of the E2 domain of DESIGN.md, shared with E1 so that offsets such as
// 4 + [AF]·(1+b4) have one normal form.

type linForm struct {
	k     *big.Int
	terms []*Term
	coefs []*big.Int
}

func linOfBV(v *BV) linForm {
	if x, ok := v.ConstVal(); ok {
		return linForm{k: new(big.Int).Set(x)}
	}
	// x<<k  ==  2^k * x  (mod 2^W): factor trailing constant-zero bits
	if tz := trailingZeros(v); tz > 0 && tz < v.W {
		inner := &BV{W: v.W, Signed: v.Signed, Bits: make([]Bit, v.W)}
		for i := 0; i < v.W; i++ {
			if i+tz < v.W {
				inner.Bits[i] = v.Bits[i+tz]
			} else {
				inner.Bits[i] = U.B0
			}
		}
		return linOfBV(inner).scale(new(big.Int).Lsh(big.NewInt(1), uint(tz)))
	}
	t := v.Term()
	if t.Op == "lin" && t.W == v.W {
		return linForm{k: new(big.Int).Set(t.K), terms: append([]*Term(nil), t.Args...), coefs: append([]*big.Int(nil), t.Coef...)}
	}
	return linForm{k: new(big.Int), terms: []*Term{t}, coefs: []*big.Int{big.NewInt(1)}}
}

func (a linForm) add(b linForm, sign int64) linForm {
	r := linForm{k: new(big.Int).Set(a.k)}
	r.k.Add(r.k, new(big.Int).Mul(b.k, big.NewInt(sign)))
	m := map[*Term]*big.Int{}
	var order []*Term
	for i, t := range a.terms {
		m[t] = new(big.Int).Set(a.coefs[i])
		order = append(order, t)
	}
	for i, t := range b.terms {
		c := new(big.Int).Mul(b.coefs[i], big.NewInt(sign))
		if old, ok := m[t]; ok {
			old.Add(old, c)
		} else {
			m[t] = c
			order = append(order, t)
		}
	}
	sort.Slice(order, func(i, j int) bool { return order[i].id < order[j].id })
	for _, t := range order {
		r.terms = append(r.terms, t)
		r.coefs = append(r.coefs, m[t])
	}
	return r
}

func (a linForm) scale(c *big.Int) linForm {
	r := linForm{k: new(big.Int).Mul(a.k, c)}
	for i, t := range a.terms {
		r.terms = append(r.terms, t)
		r.coefs = append(r.coefs, new(big.Int).Mul(a.coefs[i], c))
	}
	return r
}

func normMod(x *big.Int, w int) *big.Int {
	m := new(big.Int).Lsh(big.NewInt(1), uint(w))
	z := new(big.Int).Mod(x, m)
	half := new(big.Int).Rsh(m, 1)
	if z.Cmp(half) > 0 {
		z.Sub(z, m)
	}
	return z
}

func linBV(l linForm, w int, signed bool) *BV {
	k := normMod(l.k, w)
	var ts []*Term
	var cs []*big.Int
	for i, t := range l.terms {
		c := normMod(l.coefs[i], w)
		if c.Sign() == 0 {
			continue
		}
		ts = append(ts, t)
		cs = append(cs, c)
	}
	if len(ts) == 0 {
		return wrapConst(k, w, signed)
	}
	if len(ts) == 1 && k.Sign() == 0 && cs[0].Cmp(big.NewInt(1)) == 0 {
		return termBV(ts[0], w, signed)
	}
	var sb, rb strings.Builder
	fmt.Fprintf(&sb, "lin/%d:%s", w, k)
	rb.WriteString("(")
	if k.Sign() != 0 {
		rb.WriteString(k.String())
	}
	for i, t := range ts {
		fmt.Fprintf(&sb, "|%s*#%d", cs[i], t.id)
		if rb.Len() > 1 {
			if cs[i].Sign() >= 0 {
				rb.WriteString("+")
			}
		}
		switch {
		case cs[i].Cmp(big.NewInt(1)) == 0:
		case cs[i].Cmp(big.NewInt(-1)) == 0:
			rb.WriteString("-")
		default:
			fmt.Fprintf(&rb, "%s*", cs[i])
		}
		rb.WriteString(t.key)
	}
	rb.WriteString(")")
	key := sb.String()
	t, ok := U.terms[key]
	if !ok {
		U.nterm++
		t = &Term{id: U.nterm, Op: "lin", W: w, K: k, Args: ts, Coef: cs, key: rb.String()}
		if len(t.key) > 400 {
			t.key = fmt.Sprintf("lin#%d(%s…)", t.id, t.key[:80])
		}
		U.terms[key] = t
	}
	return termBV(t, w, signed)
}

// isArith reports whether v carries bits of arithmetic results (terms,
// lengths, opaque results) rather than plain input/constant bits.
func isArith(v *BV) bool {
	for _, b := range v.Bits {
		if b.top {
			return true
		}
		for _, id := range b.atoms {
			a := U.atoms[id]
			if a.kind == aSrc {
				switch a.src.Kind {
				case "term":
					if a.src.Term != nil && strings.HasPrefix(a.src.Term.Op, "cellat:") {
						continue // a dynamically indexed input byte is plain data
					}
					return true
				case "len", "opaque", "fresh":
					return true
				}
			}
		}
	}
	return false
}

func trailingZeros(v *BV) int {
	n := 0
	for n < v.W && isConst(v.Bits[n]) && !v.Bits[n].c {
		n++
	}
	return n
}
