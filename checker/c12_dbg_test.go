package main

import (
	"testing"

	"golang.org/x/tools/go/ssa"
)

func TestC12Conv(t *testing.T) {
	U = newUniverse()
	P, err := loadProgram("/repo")
	if err != nil {
		t.Fatal(err)
	}
	B := newBounds(P)
	for _, name := range []string{"ebp:insertUtcTime", "ebp:extractUtcTime"} {
		fn, _ := P.Func(name)
		bf := B.of(fn)
		for _, b := range fn.Blocks {
			for _, ins := range b.Instrs {
				if cv, ok := ins.(*ssa.Convert); ok && isIntType(cv.Type()) && isIntType(cv.X.Type()) {
					a := bf.affOf(cv.X)
					r := bf.rangeOfAff(a)
					t.Logf("%s: %s -> %s : operand %s range [%d,%d] fits=%v", name, cv.X.Type(), cv.Type(), bf.affString(a), r.lo, r.hi, bf.fits(a, cv.Type()))
				}
			}
		}
	}
}
