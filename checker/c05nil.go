package main

import (
	"fmt"
	"go/token"
	"go/types"
	"sort"

	"golang.org/x/tools/go/ssa"
)

// C05.nilfield — “an object returned without error can be queried, printed
// and re-encoded without panicking”, the part about nil sub-objects.
//
// Rule instances are taken from the code: every interface method call whose
// receiver is loaded from a field F of a library struct T without a
// dominating nil test relies on “F is never nil in a T a caller can hold”.
// That is decided by a must-store analysis:
//
//   - every function that allocates a T and returns it does so only on paths
//     on which F has been assigned since the allocation — directly, or by a
//     callee that received the object and returned without error (callee
//     summary: on every return that may be a success, F of that parameter has
//     been assigned);
//   - no assignment to F anywhere stores the nil constant.
//
// Assumed (trusted base): package-level error variables are non-nil; values
// handed to setters by callers are the callers' responsibility.

type nilField struct {
	T types.Type // the struct type
	F int
}

func (nf nilField) String() string {
	return fmt.Sprintf("%s.%s", shortType(nf.T), nf.T.Underlying().(*types.Struct).Field(nf.F).Name())
}

func fieldOf(v ssa.Value) (ssa.Value, nilField, bool) {
	fa, ok := v.(*ssa.FieldAddr)
	if !ok {
		return nil, nilField{}, false
	}
	pt, ok := fa.X.Type().Underlying().(*types.Pointer)
	if !ok {
		return nil, nilField{}, false
	}
	if _, ok := pt.Elem().Underlying().(*types.Struct); !ok {
		return nil, nilField{}, false
	}
	return fa.X, nilField{pt.Elem(), fa.Field}, true
}

func isNilConst(v ssa.Value) bool {
	c, ok := v.(*ssa.Const)
	return ok && c.Value == nil
}

// nilTested: v is compared with nil by an If that dominates b.
func nilTested(v ssa.Value, b *ssa.BasicBlock) bool {
	for d := b.Idom(); d != nil; d = d.Idom() {
		ifi, ok := d.Instrs[len(d.Instrs)-1].(*ssa.If)
		if !ok {
			continue
		}
		if bo, ok := ifi.Cond.(*ssa.BinOp); ok && (bo.Op == token.NEQ || bo.Op == token.EQL) {
			if (bo.X == v && isNilConst(bo.Y)) || (bo.Y == v && isNilConst(bo.X)) {
				return true
			}
		}
	}
	return false
}

type nilAnalysis struct {
	P    *Program
	memo map[string]int // 0 unknown/in progress, 1 yes, 2 no
}

// alias: v denotes the tracked pointer p (through conversions to interfaces).
func aliasOf(v, p ssa.Value) bool {
	for {
		if v == p {
			return true
		}
		switch x := v.(type) {
		case *ssa.MakeInterface:
			v = x.X
		case *ssa.ChangeType:
			v = x.X
		case *ssa.ChangeInterface:
			v = x.X
		default:
			return false
		}
	}
}

// errResultOfCallWith: e is the error result of a static call that received p;
// returns the callee and the argument position.
func errResultOfCallWith(e ssa.Value, p ssa.Value) (*ssa.Function, int, bool) {
	var call *ssa.Call
	switch x := e.(type) {
	case *ssa.Extract:
		call, _ = x.Tuple.(*ssa.Call)
		if call != nil {
			res := call.Call.Signature().Results()
			if x.Index != res.Len()-1 {
				return nil, 0, false
			}
		}
	case *ssa.Call:
		call = x
	}
	if call == nil || call.Call.IsInvoke() {
		return nil, 0, false
	}
	g := call.Call.StaticCallee()
	if g == nil || g.Blocks == nil {
		return nil, 0, false
	}
	for k, a := range call.Call.Args {
		if aliasOf(a, p) && k < len(g.Params) {
			return g, k, true
		}
	}
	return nil, 0, false
}

func isErrorType(t types.Type) bool {
	return types.Identical(t, types.Universe.Lookup("error").Type())
}

// mustStore runs the forward must-analysis for pointer p in fn and calls
// atReturn for every return with the state reached there.
func (na *nilAnalysis) mustStore(fn *ssa.Function, p ssa.Value, nf nilField, atReturn func(r *ssa.Return, stored bool)) {
	in := map[*ssa.BasicBlock]bool{}
	out := map[*ssa.BasicBlock]bool{}
	for _, b := range fn.Blocks {
		in[b], out[b] = true, true // optimistic start of a must-analysis
	}
	in[fn.Blocks[0]] = false
	transfer := func(b *ssa.BasicBlock, s bool) bool {
		for _, ins := range b.Instrs {
			if ins == ssa.Instruction(nil) {
				continue
			}
			if v, ok := ins.(ssa.Value); ok && v == p {
				s = false // the object comes into being here
			}
			st, ok := ins.(*ssa.Store)
			if !ok {
				continue
			}
			if base, f, ok := fieldOf(st.Addr); ok && f.F == nf.F && types.Identical(f.T, nf.T) && aliasOf(base, p) {
				s = !isNilConst(st.Val)
			}
		}
		return s
	}
	edge := func(from, to *ssa.BasicBlock) bool {
		s := out[from]
		ifi, ok := from.Instrs[len(from.Instrs)-1].(*ssa.If)
		if !ok {
			return s
		}
		bo, ok := ifi.Cond.(*ssa.BinOp)
		if !ok || (bo.Op != token.NEQ && bo.Op != token.EQL) {
			return s
		}
		var e ssa.Value
		switch {
		case isNilConst(bo.Y):
			e = bo.X
		case isNilConst(bo.X):
			e = bo.Y
		default:
			return s
		}
		nilEdge := (bo.Op == token.EQL && from.Succs[0] == to) || (bo.Op == token.NEQ && len(from.Succs) > 1 && from.Succs[1] == to)
		if !nilEdge || !isErrorType(e.Type()) {
			return s
		}
		if g, k, ok := errResultOfCallWith(e, p); ok && na.storesOnSuccess(g, k, nf) {
			return true
		}
		return s
	}
	for changed := true; changed; {
		changed = false
		for _, b := range fn.Blocks {
			s := in[b]
			if b != fn.Blocks[0] {
				s = true
				for _, pr := range b.Preds {
					s = s && edge(pr, b)
				}
			}
			o := transfer(b, s)
			if s != in[b] || o != out[b] {
				in[b], out[b] = s, o
				changed = true
			}
		}
	}
	for _, b := range fn.Blocks {
		if r, ok := b.Instrs[len(b.Instrs)-1].(*ssa.Return); ok {
			atReturn(r, out[b])
		}
	}
}

// storesOnSuccess: on every return of g that may be a success, field nf of
// parameter k has been assigned.
func (na *nilAnalysis) storesOnSuccess(g *ssa.Function, k int, nf nilField) bool {
	key := fmt.Sprintf("%s#%d#%s", g, k, nf)
	switch na.memo[key] {
	case 1:
		return true
	case 2:
		return false
	}
	na.memo[key] = 2 // recursion: assume no
	ok := true
	na.mustStore(g, g.Params[k], nf, func(r *ssa.Return, stored bool) {
		if stored || !ok {
			return
		}
		if n := len(r.Results); n > 0 && isErrorType(r.Results[n-1].Type()) {
			e := r.Results[n-1]
			if errorReturn(e, r.Block()) {
				return
			}
		}
		ok = false
	})
	if ok {
		na.memo[key] = 1
	}
	return ok
}

// errorReturn: e is certainly a non-nil error at the return in block b.
func errorReturn(e ssa.Value, b *ssa.BasicBlock) bool {
	if isNilConst(e) {
		return false
	}
	// *pkg.ErrSomething
	if ld, ok := e.(*ssa.UnOp); ok && ld.Op == token.MUL {
		if _, isGlobal := ld.X.(*ssa.Global); isGlobal {
			return true
		}
	}
	// a fresh error value
	if call, ok := e.(*ssa.Call); ok {
		if n := calleeName(call); n == "errors.New" || n == "fmt.Errorf" {
			return true
		}
	}
	// dominated by the non-nil edge of a test of e
	for d, child := b.Idom(), b; d != nil; d, child = d.Idom(), d {
		ifi, ok := d.Instrs[len(d.Instrs)-1].(*ssa.If)
		if !ok {
			continue
		}
		bo, ok := ifi.Cond.(*ssa.BinOp)
		if !ok {
			continue
		}
		if !((bo.X == e && isNilConst(bo.Y)) || (bo.Y == e && isNilConst(bo.X))) {
			continue
		}
		// which successor leads to child?
		dominatedBy := func(s *ssa.BasicBlock) bool { return s == child || s.Dominates(child) }
		if bo.Op == token.NEQ && dominatedBy(d.Succs[0]) && !dominatedBy(d.Succs[1]) {
			return true
		}
		if bo.Op == token.EQL && len(d.Succs) > 1 && dominatedBy(d.Succs[1]) && !dominatedBy(d.Succs[0]) {
			return true
		}
	}
	return false
}

func (c *Checker) checkNilFields(reach map[*ssa.Function]bool) {
	na := &nilAnalysis{P: c.P, memo: map[string]int{}}
	// 1. rule instances: invokes on a field without a dominating nil test
	type site struct {
		fn   *ssa.Function
		meth string
	}
	uses := map[string][]site{}
	fields := map[string]nilField{}
	libs := c.P.LibFuncs(false)
	sort.Slice(libs, func(i, j int) bool { return libs[i].String() < libs[j].String() })
	for _, fn := range libs {
		if !reach[fn] {
			continue
		}
		for _, b := range fn.Blocks {
			for _, ins := range b.Instrs {
				call, ok := ins.(ssa.CallInstruction)
				if !ok || !call.Common().IsInvoke() {
					continue
				}
				ld, ok := call.Common().Value.(*ssa.UnOp)
				if !ok || ld.Op != token.MUL {
					continue
				}
				_, nf, ok := fieldOf(ld.X)
				if !ok || nilTested(ld, b) {
					continue
				}
				k := nf.String()
				fields[k] = nf
				uses[k] = append(uses[k], site{fn, call.Common().Method.Name()})
			}
		}
	}
	var keys []string
	for k := range fields {
		keys = append(keys, k)
	}
	sort.Strings(keys)
	total := 0
	for _, k := range keys {
		nf := fields[k]
		total += len(uses[k])
		var bad []string
		creators := 0
		for _, fn := range libs {
			for _, b := range fn.Blocks {
				for _, ins := range b.Instrs {
					// no assignment of the nil constant
					if st, ok := ins.(*ssa.Store); ok {
						if _, f, ok := fieldOf(st.Addr); ok && f.F == nf.F && types.Identical(f.T, nf.T) && isNilConst(st.Val) {
							bad = append(bad, fmt.Sprintf("%s assigns nil (%s)", shortFn(fn), c.P.Pos(st.Pos())))
						}
					}
					al, ok := ins.(*ssa.Alloc)
					if !ok {
						continue
					}
					if pt, ok := al.Type().Underlying().(*types.Pointer); !ok || !types.Identical(pt.Elem(), nf.T) {
						continue
					}
					creators++
					na.mustStore(fn, al, nf, func(r *ssa.Return, stored bool) {
						if stored {
							return
						}
						for _, res := range r.Results {
							if aliasOf(res, al) {
								bad = append(bad, fmt.Sprintf("%s returns a new %s on a path that has not assigned the field (%s)", shortFn(fn), shortType(nf.T), c.P.Pos(r.Pos())))
							}
						}
					})
				}
			}
		}
		sort.Strings(bad)
		d := ""
		if len(bad) > 0 {
			d = bad[0]
		}
		names := map[string]bool{}
		for _, u := range uses[k] {
			names[shortFn(u.fn)+"→"+u.meth] = true
		}
		var ns []string
		for n := range names {
			ns = append(ns, n)
		}
		sort.Strings(ns)
		c.check("C05.nilfield", k, fmt.Sprintf("methods are called on this field without a nil test (%d sites); every function that creates a %s hands it out only after the field was assigned (%d creators), and nil is never assigned", len(uses[k]), shortType(nf.T), creators), len(bad) == 0 && creators > 0, d)
	}
	c.floorCheck("C05.nilfield call sites relying on a non-nil field", total, 4)
	c.extra["nilfield_sites"] = total
}
