package main

import (
	"fmt"
	"go/types"
	"strings"

	"golang.org/x/tools/go/ssa"
)

// bufmodel.go: an exact model of the parts of bytes.Buffer and
// encoding/binary.Write that gots uses, for analyses in which every length and
// cursor is a constant (the layout-seeded checks). The buffer's abstract state
// lives in the cells of the real struct layout
//
//	type Buffer struct { buf []byte; off int; lastRead readOp }
//
// so that zero values (`var b bytes.Buffer`, new(bytes.Buffer), &bytes.Buffer{})
// need no special case. Anything the model does not cover fails the analysis
// (undecided), it never guesses. Trusted: that this file transcribes the
// documented behaviour of the standard library (bytes/buffer.go, go1.23).

var (
	byteSliceT = types.NewSlice(types.Typ[types.Uint8])
	intT       = types.Typ[types.Int]
	int8T      = types.Typ[types.Int8]
)

type bufRef struct {
	in *Interp
	st *State
	p  *Ptr
}

func (b bufRef) path(i int) string { return joinPath(b.p.Path, i) }

func (b bufRef) data() Val { return b.in.loadPath(b.st, b.p.Obj, b.path(0), byteSliceT) }

func (b bufRef) off() (int64, bool) {
	v, _ := b.in.loadPath(b.st, b.p.Obj, b.path(1), intT).(*BV)
	if v == nil {
		return 0, false
	}
	return v.ConstInt()
}

func (b bufRef) setOff(n int64) {
	b.in.storePath(b.st, b.p.Obj, b.path(1), intT, constInt(n, 64, true))
}

func (b bufRef) setLastRead(n int64) {
	b.in.storePath(b.st, b.p.Obj, b.path(2), int8T, constInt(n, 8, true))
}

func (b bufRef) lastRead() (int64, bool) {
	v, _ := b.in.loadPath(b.st, b.p.Obj, b.path(2), int8T).(*BV)
	if v == nil {
		return 0, false
	}
	return v.ConstInt()
}

// window: the backing slice and its constant length.
func (b bufRef) window() (s *SliceV, n int64, ok bool) {
	switch d := b.data().(type) {
	case NilV:
		return nil, 0, true
	case *SliceV:
		if k, ok := d.Len.ConstInt(); ok {
			if _, lok := d.Lo.ConstInt(); lok {
				return d, k, true
			}
		}
	}
	return nil, 0, false
}

func errEOF(in *Interp) Val {
	return in.opaque(types.Universe.Lookup("error").Type(), "errors.New@io.EOF")
}

func tupleOf(fn *ssa.Function, vs ...Val) Val {
	return &StructV{T: fn.Signature.Results(), Fields: vs}
}

// bufAppend replaces the buffer's storage by a fresh object holding the unread
// bytes followed by vals.
func (b bufRef) append(vals []Val) bool {
	s, n, ok := b.window()
	off, ok2 := b.off()
	if !ok || !ok2 {
		return false
	}
	in := b.in
	o := in.newObj(fmt.Sprintf("bufdata#%d", in.nobj+1), "make", types.Typ[types.Uint8], false)
	o.Seq = true
	total := (n - off) + int64(len(vals))
	o.N = int(total)
	o.Len = constInt(total, 64, true)
	b.st.born[o] = true
	k := 0
	if s != nil {
		lo, _ := s.Lo.ConstInt()
		for i := off; i < n; i++ {
			in.storePath(b.st, o, fmt.Sprint(k), s.Elem, in.loadPath(b.st, s.Obj, joinPath(s.Prefix, int(lo+i)), s.Elem))
			k++
		}
	}
	for _, v := range vals {
		in.storePath(b.st, o, fmt.Sprint(k), types.Typ[types.Uint8], v)
		k++
	}
	nb := &SliceV{Obj: o, Lo: constInt(0, 64, true), Len: constInt(total, 64, true), Cap: constInt(total, 64, true), Elem: types.Typ[types.Uint8]}
	in.storePath(b.st, b.p.Obj, b.path(0), byteSliceT, nb)
	b.setOff(0)
	b.setLastRead(0)
	return true
}

// sliceBytes reads the elements of a constant-length byte slice value.
func sliceBytes(in *Interp, st *State, v Val) ([]Val, bool) {
	switch s := v.(type) {
	case NilV:
		return nil, true
	case *SliceV:
		n, ok1 := s.Len.ConstInt()
		lo, ok2 := s.Lo.ConstInt()
		if !ok1 || !ok2 {
			return nil, false
		}
		out := make([]Val, n)
		for i := int64(0); i < n; i++ {
			out[i] = in.loadPath(st, s.Obj, joinPath(s.Prefix, int(lo+i)), s.Elem)
		}
		return out, true
	}
	return nil, false
}

// useBufferModel installs the model on an interpreter.
func useBufferModel(in *Interp) {
	in.Intrinsic = func(fn *ssa.Function, args []Val, st *State) (Val, bool) {
		name := fn.String()
		switch {
		case name == "bytes.NewBuffer":
			o := in.newObj(fmt.Sprintf("buffer#%d", in.nobj+1), "alloc", fn.Signature.Results().At(0).Type().(*types.Pointer).Elem(), false)
			st.born[o] = true
			p := &Ptr{Obj: o, T: o.T}
			in.storePath(st, o, "0", byteSliceT, args[0])
			return p, true
		case name == "encoding/binary.Write":
			return binaryWrite(in, fn, args, st), true
		case strings.HasPrefix(name, "(*bytes.Buffer)."):
			p, ok := args[0].(*Ptr)
			if !ok || p.Dyn != nil {
				in.fail("buffer model: receiver of %s is %T", name, args[0])
				return nil, true
			}
			return bufMethod(bufRef{in, st, p}, strings.TrimPrefix(name, "(*bytes.Buffer)."), fn, args[1:]), true
		}
		return nil, false
	}
}

func bufMethod(b bufRef, m string, fn *ssa.Function, args []Val) Val {
	in := b.in
	s, n, ok := b.window()
	off, ok2 := b.off()
	if !ok || !ok2 {
		in.fail("buffer model: non-constant buffer state in %s", m)
		return nil
	}
	rem := n - off
	switch m {
	case "Len":
		return constInt(rem, 64, true)
	case "Bytes":
		if s == nil {
			return NilV{}
		}
		return in.sliceOf(s, constInt(off, 64, true), nil, byteSliceT)
	case "Next":
		k, isConst := args[0].(*BV).ConstInt()
		if !isConst {
			in.fail("buffer model: Next(n) with non-constant n")
			return nil
		}
		b.setLastRead(0)
		if k > rem {
			k = rem
		}
		if k < 0 {
			in.event(Event{Kind: "panic", Note: "bytes.Buffer.Next: negative count"})
			return in.opaque(byteSliceT, "noreturn")
		}
		if s == nil {
			return NilV{}
		}
		r := in.sliceOf(s, constInt(off, 64, true), constInt(off+k, 64, true), byteSliceT)
		b.setOff(off + k)
		if k > 0 {
			b.setLastRead(-1)
		}
		return r
	case "ReadByte":
		if rem == 0 {
			// the real method also resets the buffer
			b.setOff(0)
			b.setLastRead(0)
			if s != nil {
				in.storePath(b.st, b.p.Obj, b.path(0), byteSliceT, in.sliceOf(s, nil, constInt(0, 64, true), byteSliceT))
			}
			return tupleOf(fn, constInt(0, 8, false), errEOF(in))
		}
		lo, _ := s.Lo.ConstInt()
		c := in.loadPath(b.st, s.Obj, joinPath(s.Prefix, int(lo+off)), s.Elem)
		b.setOff(off + 1)
		b.setLastRead(-1)
		return tupleOf(fn, c, NilV{})
	case "UnreadByte":
		lr, ok := b.lastRead()
		if !ok {
			in.fail("buffer model: non-constant read state")
			return nil
		}
		if lr == 0 {
			return in.opaque(fn.Signature.Results().At(0).Type(), "errors.New@bytes.Buffer: UnreadByte: previous operation was not a successful read")
		}
		b.setLastRead(0)
		if off > 0 {
			b.setOff(off - 1)
		}
		return NilV{}
	case "Write":
		vals, ok := sliceBytes(in, b.st, args[0])
		if !ok || !b.append(vals) {
			in.fail("buffer model: Write of a slice of non-constant length")
			return nil
		}
		return tupleOf(fn, constInt(int64(len(vals)), 64, true), NilV{})
	case "WriteByte":
		if !b.append([]Val{args[0]}) {
			in.fail("buffer model: WriteByte on non-constant state")
			return nil
		}
		return NilV{}
	case "Reset":
		if s != nil {
			in.storePath(b.st, b.p.Obj, b.path(0), byteSliceT, in.sliceOf(s, nil, constInt(0, 64, true), byteSliceT))
		}
		b.setOff(0)
		b.setLastRead(0)
		return nil
	}
	in.fail("buffer model: bytes.Buffer.%s is not modelled", m)
	return nil
}

// binaryWrite models binary.Write(w, order, data) for a *bytes.Buffer writer,
// the two fixed byte orders and data of unsigned/signed integer, bool or
// []byte type.
func binaryWrite(in *Interp, fn *ssa.Function, args []Val, st *State) Val {
	w, ok := args[0].(*IfaceV)
	var p *Ptr
	if ok {
		p, _ = w.V.(*Ptr)
	}
	if p == nil || !strings.HasSuffix(w.T.String(), "bytes.Buffer") {
		in.fail("buffer model: binary.Write to %s", showVal(args[0]))
		return nil
	}
	big := true
	if o, ok := args[1].(*IfaceV); ok {
		switch {
		case strings.HasSuffix(o.T.String(), "binary.bigEndian"):
		case strings.HasSuffix(o.T.String(), "binary.littleEndian"):
			big = false
		default:
			in.fail("buffer model: binary.Write with byte order %s", o.T)
			return nil
		}
	} else {
		in.fail("buffer model: binary.Write with byte order %s", showVal(args[1]))
		return nil
	}
	d, ok := args[2].(*IfaceV)
	if !ok {
		in.fail("buffer model: binary.Write of %s", showVal(args[2]))
		return nil
	}
	var vals []Val
	switch u := d.T.Underlying().(type) {
	case *types.Basic:
		bv, isBV := d.V.(*BV)
		if !isBV || u.Info()&(types.IsInteger|types.IsBoolean) == 0 || u.Kind() == types.Int || u.Kind() == types.Uint || u.Kind() == types.Uintptr {
			in.fail("buffer model: binary.Write of %s", d.T)
			return nil
		}
		if u.Info()&types.IsBoolean != 0 {
			bv = extendBV(bv, 8, false)
		}
		nb := bv.W / 8
		for i := 0; i < nb; i++ {
			k := i
			if big {
				k = nb - 1 - i
			}
			vals = append(vals, &BV{W: 8, Bits: append([]Bit(nil), bv.Bits[8*k:8*k+8]...)})
		}
	case *types.Slice:
		eb, isB := u.Elem().Underlying().(*types.Basic)
		if !isB || (eb.Kind() != types.Uint8 && eb.Kind() != types.Int8) {
			in.fail("buffer model: binary.Write of %s", d.T)
			return nil
		}
		var ok bool
		vals, ok = sliceBytes(in, st, d.V)
		if !ok {
			in.fail("buffer model: binary.Write of a slice of non-constant length")
			return nil
		}
	default:
		in.fail("buffer model: binary.Write of %s", d.T)
		return nil
	}
	if !(bufRef{in, st, p}).append(vals) {
		in.fail("buffer model: binary.Write on non-constant buffer state")
		return nil
	}
	return NilV{}
}
