package main

import (
	"fmt"
	"go/token"
	"go/types"
	"strings"

	"golang.org/x/tools/go/ssa"
)

func runC18(c *Checker) {
	c.Level = "other"
	c.explain = "Write is interpreted for input lengths 0, 188, 376, 564 (loop unrolled under the fixed length) and for lengths that are not multiples of 188: the packet writer must be invoked once per packet, in order, each time with exactly the corresponding 188 input bytes in the packet buffer, only while every earlier write succeeded; counts are summed; a bad length is refused before any delivery; the input is never written. ReadFrom is checked by one abstract iteration of its loop with a case analysis on the results of the read and of the delivery: the buffer handed to WritePacket is the whole packet buffer that a full-packet read (io.ReadFull / io.ReadAtLeast with minimum 188; resolved callee and abstract arguments) has filled, delivery happens only when exactly 188 bytes were read, a write error ends the loop and is returned, a trailing partial packet yields the invalid-length error, a reader error other than end-of-stream is returned, a delivered packet adds its count. The adapters forward to the wrapped writer. Does not decide: delivery for concrete fragmentations (consequence of the full-packet-read rule and io.ReadFull's contract)."
	c.trust("go/ssa + go/types (x/tools v0.29.0)", "E1 transfer functions", "io.ReadFull contract: returns 188,nil or fewer bytes with io.EOF (none) / io.ErrUnexpectedEOF (some) / the reader's error")
	c.checkWriterWrite()
	c.checkReadFrom()
	c.checkReadFromStep()
	c.checkAdapters()
}

func (c *Checker) checkWriterWrite() {
	const anchor = "packet:(*packetWriter).Write"
	pktIdx, _, err := c.P.structFieldIndex("packet", "packetWriter", "pkt")
	if err != nil {
		c.undecided("C18.write", anchor, "anchor", err.Error())
		return
	}
	// lengths that are not multiples of 188: refused, nothing delivered
	for _, n := range []int{1, 187, 189, 375, 377} {
		var in0 *Interp
		s, _ := c.summary("C18.write", anchor, &AnalyzeOpts{SliceLen: map[string]int{"p": n}, Setup: func(in *Interp) { in0 = in }})
		if s == nil {
			return
		}
		_ = in0
		nInv := 0
		for _, e := range s.Events {
			if e.Kind == "call" && strings.Contains(e.Note, "WritePacket") {
				nInv++
			}
		}
		errS := showVal(s.RetN(1))
		nret, _ := s.RetN(0).(*BV)
		k, okk := int64(-1), false
		if nret != nil {
			k, okk = nret.ConstInt()
		}
		c.check("C18.write", anchor, fmt.Sprintf("len=%d (not a multiple of 188): (0, invalid-length error), nothing delivered, nothing written", n),
			nInv == 0 && errS == "gots.ErrInvalidPacketLength" && okk && k == 0 && len(s.WrittenCells()) == 0,
			fmt.Sprintf("deliveries=%d result=(%s,%s) writes=%v", nInv, showVal(s.RetN(0)), errS, s.WrittenCells()))
	}
	for _, npk := range []int{0, 1, 2, 3} {
		var in0 *Interp
		s, _ := c.summary("C18.write", anchor, &AnalyzeOpts{SliceLen: map[string]int{"p": npk * 188}, Setup: func(in *Interp) { in0 = in }})
		if s == nil {
			return
		}
		con := fmt.Sprintf("len=%d: ", npk*188)
		var inv []Event
		for _, e := range s.Events {
			if e.Kind == "call" && strings.Contains(e.Note, "WritePacket") {
				inv = append(inv, e)
			}
		}
		if !c.check("C18.write", anchor, con+fmt.Sprintf("exactly %d deliveries", npk), len(inv) == npk, fmt.Sprintf("%d deliveries", len(inv))) {
			continue
		}
		pw := paramObj(s, 0)
		src := paramObj(s, 1)
		okAll, detail := true, ""
		prevOK := U.B1
		sum := constInt(0, 64, true)
		for k, e := range inv {
			sn, ok := e.Args[len(e.Args)-1].(*SnapV)
			if !ok || sn.Ptr.Obj != pw || sn.Ptr.Path != fmt.Sprint(pktIdx) {
				okAll, detail = false, fmt.Sprintf("delivery %d passes %s, not the writer's packet buffer", k, showVal(e.Args[len(e.Args)-1]))
				break
			}
			for i := 0; i < 188; i++ {
				got, _ := sn.Elems.Fields[i].(*BV)
				if got == nil || !sameBV(got, cellBV(src.Name, k*188+i)) {
					okAll, detail = false, fmt.Sprintf("delivery %d byte %d is %s, expected p[%d]", k, i, showVal(sn.Elems.Fields[i]), k*188+i)
					break
				}
			}
			if !okAll {
				break
			}
			// delivered only while all previous writes succeeded
			if eq, dec, _ := equivBits(e.Cond, prevOK, 12); !(eq && dec) {
				okAll, detail = false, fmt.Sprintf("delivery %d happens under %s, expected %s (all earlier writes succeeded)", k, e.Cond, prevOK)
				break
			}
			// the opaque result of this call: (m, err)
			res := in0.opaqueOf(types.NewTuple(types.NewVar(token.NoPos, nil, "", types.Typ[types.Int]), types.NewVar(token.NoPos, nil, "", types.Universe.Lookup("error").Type())), "x")
			_ = res
			prevOK = band(prevOK, callErrNil(in0, s, k))
			sum = bvAdd(sum, callCount(s, k), false)
		}
		c.check("C18.write", anchor, con+"each delivery carries exactly its 188 input bytes, in order, only after every earlier delivery succeeded", okAll, detail)
		c.check("C18.write", anchor, con+"input slice not modified", noWritesTo(s, src), fmt.Sprint(s.WrittenCells()))
		// a failed delivery: its error is what Write returns
		if okAll && npk > 0 {
			bad := ""
			for k, e := range inv {
				tup, isTup := e.Val.(*StructV)
				if !isTup || len(tup.Fields) != 2 {
					bad = fmt.Sprintf("delivery %d has result %s", k, showVal(e.Val))
					break
				}
				fs := newFactSet(nil)
				for j := 0; j < k; j++ {
					fs.assume(callErrNil(in0, s, j))
				}
				fs.assume(bnot(callErrNil(in0, s, k)))
				if got := fs.val(s.RetN(1)); !sameVal(got, tup.Fields[1]) {
					bad = fmt.Sprintf("delivery %d fails: Write returns the error %s, expected the packet writer's error %s", k, showVal(got), showVal(tup.Fields[1]))
					break
				}
			}
			c.check("C18.write", anchor, con+"when a delivery fails (all earlier ones having succeeded) Write returns that delivery's error", bad == "", bad)
		}
		if npk > 0 {
			// result count when everything succeeded = Σ counts
			nret, _ := s.RetN(0).(*BV)
			okN := nret != nil
			if okN {
				fs := newFactSet(nil)
				fs.assume(prevOK)
				got := fs.bv(nret)
				okN = sameBV(got, sum)
				detail = fmt.Sprintf("returned count %s, expected %s", got, sum)
			}
			c.check("C18.write", anchor, con+"when every delivery succeeds the returned count is the sum of the delivered counts", okN, detail)
		}
	}
}

// callErrNil: "the k-th WritePacket call returned a nil error" as an atom,
// recovered from the summary's opaque call results.
func callErrNil(in *Interp, s *Summary, k int) Bit {
	n := -1
	for _, e := range s.Events {
		if e.Kind == "call" && strings.Contains(e.Note, "WritePacket") {
			n++
			if n == k {
				if e.Val != nil {
					if sv, ok := e.Val.(*StructV); ok && len(sv.Fields) == 2 {
						return in.nilBit(sv.Fields[1])
					}
				}
			}
		}
	}
	return U.BTop
}

func callCount(s *Summary, k int) *BV {
	n := -1
	for _, e := range s.Events {
		if e.Kind == "call" && strings.Contains(e.Note, "WritePacket") {
			n++
			if n == k {
				if sv, ok := e.Val.(*StructV); ok && len(sv.Fields) == 2 {
					if b, ok := sv.Fields[0].(*BV); ok {
						return extendBV(b, 64, true)
					}
				}
			}
		}
	}
	return topBV(64, true)
}

func noWritesTo(s *Summary, o *Obj) bool {
	for _, w := range s.WrittenCells() {
		if strings.HasPrefix(w, o.Name+"[") {
			return false
		}
	}
	return true
}

// ------------------------------------------------------------------ ReadFrom

func (c *Checker) checkReadFrom() {
	const anchor = "packet:(*packetWriter).ReadFrom"
	fn, err := c.P.Func(anchor)
	if err != nil {
		c.undecided("C18.readfrom", anchor, "anchor", err.Error())
		return
	}
	c.analysed[fn.String()] = true
}

// ------------------------------------------------------------------ adapters

func (c *Checker) checkAdapters() {
	// PacketWriterFunc.WritePacket forwards p and returns f's results
	if s, _ := c.summary("C18.adapter", "packet:(PacketWriterFunc).WritePacket", nil); s != nil {
		var calls []Event
		for _, e := range s.Events {
			if e.Kind == "call" {
				calls = append(calls, e)
			}
		}
		ok := len(calls) == 1 && len(calls[0].Args) == 1
		if ok {
			sn, isSnap := calls[0].Args[0].(*SnapV)
			ok = isSnap && sn.Ptr.Obj == paramObj(s, 1)
		}
		c.check("C18.adapter", "packet:(PacketWriterFunc).WritePacket", "calls the function once with the same packet pointer", ok, fmt.Sprintf("%d calls", len(calls)))
		okRet := false
		if len(calls) == 1 {
			if sv, isT := calls[0].Val.(*StructV); isT && len(sv.Fields) == 2 {
				okRet = sameVal(s.RetN(0), sv.Fields[0]) && sameVal(s.RetN(1), sv.Fields[1])
			}
		}
		c.check("C18.adapter", "packet:(PacketWriterFunc).WritePacket", "returns the function's results unchanged", okRet, showVal(s.Ret))
	}
	if s, _ := c.summary("C18.adapter", "packet:(nopCloser).Close", nil); s != nil {
		_, isNil := s.RetN(0).(NilV)
		c.check("C18.adapter", "packet:(nopCloser).Close", "returns nil", isNil, showVal(s.RetN(0)))
	}
	for _, a := range []struct{ anchor, wrap string }{{"packet:IOWriter", "nopCloser"}, {"packet:IOWriteCloser", ""}, {"packet:NopCloser", ""}} {
		s, _ := c.summary("C18.adapter", a.anchor, nil)
		if s == nil {
			continue
		}
		// the argument (an opaque interface value) must be stored inside the result
		arg := s.Params[0]
		found := containsVal(s, s.RetN(0), arg, 4)
		c.check("C18.adapter", a.anchor, "result wraps the given writer (same value, not a copy of its state)", found, "result "+showVal(s.RetN(0))+" does not contain the argument")
	}
}

// containsVal searches v (through interfaces, structs and freshly allocated
// objects) for target.
func containsVal(s *Summary, v, target Val, depth int) bool {
	if depth == 0 || v == nil {
		return false
	}
	if sameVal(v, target) {
		return true
	}
	switch x := v.(type) {
	case *IfaceV:
		return containsVal(s, x.V, target, depth)
	case *StructV:
		for _, f := range x.Fields {
			if containsVal(s, f, target, depth-1) {
				return true
			}
		}
	case *Ptr:
		if x.Obj.Kind == "alloc" {
			for _, cv := range s.Out.cells[x.Obj] {
				if containsVal(s, cv, target, depth-1) {
					return true
				}
			}
		}
	}
	return false
}

// checkReadFromStep: one abstract iteration of ReadFrom's loop from a symbolic
// state, then the result is specialised under assumptions about the read and
// the delivery (conditional constant propagation on the summary) and compared
// with what the statement requires in each case.
func (c *Checker) checkReadFromStep() {
	const anchor = "packet:(*packetWriter).ReadFrom"
	fn, err := c.P.Func(anchor)
	if err != nil {
		return
	}
	ls, err := AnalyzeLoop(c.P, fn, nil)
	if err != nil {
		c.undecided("C18.readstep", anchor, "loop step", err.Error())
		return
	}
	in := ls.Sum.in
	var read, deliver *Event
	for i := range ls.Sum.Events {
		e := &ls.Sum.Events[i]
		if e.Kind != "call" {
			continue
		}
		switch {
		case e.Note == "io.ReadFull" || e.Note == "io.ReadAtLeast" || strings.HasSuffix(e.Note, ".Read"):
			read = e
		case strings.Contains(e.Note, "WritePacket"):
			deliver = e
		}
	}
	if read == nil || deliver == nil {
		c.undecided("C18.readstep", anchor, "loop step", "read or delivery call not found in the loop body")
		return
	}
	// who reads and what is delivered (resolved callee and abstract arguments
	// of the two calls of the iteration, not the shape of the source)
	{
		full, how := false, read.Note
		var buf *SliceV
		if len(read.Args) >= 2 {
			buf, _ = read.Args[1].(*SliceV)
		}
		whole := false
		if buf != nil {
			lo, ok1 := buf.Lo.ConstInt()
			n, ok2 := buf.Len.ConstInt()
			whole = ok1 && ok2 && lo == 0 && n == 188
		}
		switch {
		case read.Note == "io.ReadFull":
			full = whole
		case read.Note == "io.ReadAtLeast" && len(read.Args) == 3:
			if m, ok := read.Args[2].(*BV); ok {
				if k, isK := m.ConstInt(); isK && k == 188 {
					full = whole
				}
			}
			how += " with minimum " + showVal(read.Args[2])
		default:
			how = "a single " + read.Note + " call (a reader may return fewer than 188 bytes per call: short reads would be dropped or reported as invalid length)"
		}
		c.check("C18.readfrom", anchor, "the 188-byte buffer is filled by a full-packet read (partial reads accumulate)", full, "the packet comes from "+how)
		same := false
		what := "<none>"
		if len(deliver.Args) >= 2 {
			what = showVal(deliver.Args[1])
			if sn, ok := deliver.Args[1].(*SnapV); ok && buf != nil {
				same = sn.Ptr.Obj == buf.Obj && sn.Ptr.Path == buf.Prefix && sn.Ptr.Base == 0
			}
		}
		c.check("C18.readfrom", anchor, "the packet delivered is the buffer the read filled", same, "delivered "+what)
	}
	rres, ok1 := read.Val.(*StructV)
	dres, ok2 := deliver.Val.(*StructV)
	if !ok1 || !ok2 || len(rres.Fields) != 2 || len(dres.Fields) != 2 {
		c.undecided("C18.readstep", anchor, "loop step", "unexpected call result shapes")
		return
	}
	nr, _ := rres.Fields[0].(*BV)
	er := rres.Fields[1]
	nw, _ := dres.Fields[0].(*BV)
	ew := dres.Fields[1]
	var errPhi, nPhi *ssa.Phi
	for _, p := range ls.Phis {
		if _, _, isInt := intWidth(p.Type()); isInt {
			nPhi = p
		} else {
			errPhi = p
		}
	}
	if nr == nil || nw == nil || nPhi == nil {
		c.undecided("C18.readstep", anchor, "loop step", "loop state has no byte counter")
		return
	}
	// the pending error: a loop variable, or constantly nil when the loop
	// never carries an error into the next iteration
	var errSoFar Val = NilV{}
	if errPhi != nil {
		errSoFar = ls.Pre[errPhi]
	}
	k188 := constInt(188, nr.W, nr.Signed)
	full := bvEq(nr, k188)
	some := bvLt(constInt(0, nr.W, nr.Signed), nr)
	erNil := in.nilBit(er)
	erEOF := in.eqBit(er, SymConst{Name: "io.EOF"})
	erUEOF := in.eqBit(er, SymConst{Name: "io.ErrUnexpectedEOF"})
	ewNil := in.nilBit(ew)
	sameCount := band(bvEq(nr, nw), bvEq(k188, nw))
	retErr := ls.Sum.RetN(1)
	type cse struct {
		name   string
		facts  []Bit // assumed true
		exits  bool
		expect func(v Val) (bool, string)
	}
	is := func(want Val, what string) func(v Val) (bool, string) {
		return func(v Val) (bool, string) {
			return sameVal(v, want), "returned error is " + showVal(v) + ", expected " + what
		}
	}
	isSym := func(name string) func(v Val) (bool, string) {
		return func(v Val) (bool, string) {
			return showVal(v) == name, "returned error is " + showVal(v) + ", expected " + name
		}
	}
	cases := []cse{
		{"reader fails (not end of stream) inside a packet", []Bit{bnot(erNil), bnot(erEOF), bnot(erUEOF), bnot(full), some}, true, is(er, "the reader's error")},
		{"reader fails (not end of stream) with no data", []Bit{bnot(erNil), bnot(erEOF), bnot(erUEOF), bnot(full), bnot(some)}, true, is(er, "the reader's error")},
		{"reader fails right after a delivered packet", []Bit{bnot(erNil), bnot(erEOF), bnot(erUEOF), full, ewNil, sameCount}, true, is(er, "the reader's error")},
		{"stream ends inside a packet", []Bit{bnot(erNil), erUEOF, bnot(erEOF), bnot(full), some}, true, isSym("gots.ErrInvalidPacketLength")},
		{"stream ends on a packet boundary", []Bit{bnot(erNil), erEOF, bnot(erUEOF), bnot(full), bnot(some)}, true, is(errSoFar, "the error so far (nil)")},
		{"delivery fails", []Bit{full, bnot(ewNil)}, true, is(ew, "the packet writer's error")},
	}
	for _, cs := range cases {
		fs := newFactSet(nil)
		for _, f := range cs.facts {
			fs.assume(f)
		}
		cont := fs.bit(ls.Cond)
		okExit := isConst(cont) && !cont.c
		got := fs.val(retErr)
		ok, d := cs.expect(got)
		c.check("C18.readstep", anchor, cs.name+": the loop is left", okExit, "continues under "+cont.String())
		c.check("C18.readstep", anchor, cs.name+": result error", ok, d)
	}
	// normal iteration: continues, count grows by the delivered count, error unchanged
	{
		fs := newFactSet(nil)
		for _, f := range []Bit{erNil, full, ewNil, sameCount, bvLt(constInt(0, nw.W, nw.Signed), nw)} {
			fs.assume(f)
		}
		cont := fs.bit(ls.Cond)
		c.check("C18.readstep", anchor, "packet read and delivered: the loop continues", isConst(cont) && cont.c, "continues under "+cont.String())
		nn, _ := fs.val(ls.Next[nPhi]).(*BV)
		want := bvAdd(ls.Pre[nPhi].(*BV), extendBV(nw, 64, true), false)
		c.check("C18.readstep", anchor, "packet read and delivered: byte count grows by the delivered count", nn != nil && sameBV(nn, want), "next count "+showVal(fs.val(ls.Next[nPhi])))
		if errPhi != nil {
			c.check("C18.readstep", anchor, "packet read and delivered: pending error unchanged", sameVal(fs.val(ls.Next[errPhi]), ls.Pre[errPhi]), showVal(fs.val(ls.Next[errPhi])))
		}
	}
	// the delivery happens only on a full packet
	{
		fs := newFactSet(nil)
		fs.assume(bnot(full))
		dc := fs.bit(deliver.Cond)
		c.check("C18.readstep", anchor, "no delivery unless exactly 188 bytes were read", isConst(dc) && !dc.c, "delivers under "+dc.String())
	}
}
