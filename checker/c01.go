package main

import (
	"fmt"
	"go/types"
)

// Transport packet header layout, ISO/IEC 13818-1 Table 2-2 (transcribed from
// the standard, not from the code).
var tsHeader = map[string][]seg{
	"sync": {{0, 7, 0}},
	"TEI":  {{1, 7, 7}},
	"PUSI": {{1, 6, 6}},
	"TP":   {{1, 5, 5}},
	"PID":  {{1, 4, 0}, {2, 7, 0}},
	"TSC":  {{3, 7, 6}},
	"AFC":  {{3, 5, 4}},
	"AF":   {{3, 5, 5}}, // adaptation_field_control high bit: adaptation field present
	"PAY":  {{3, 4, 4}}, // adaptation_field_control low bit: payload present
	"CC":   {{3, 3, 0}},
}

type getterSpec struct {
	anchor string
	field  string
	// pred: result is the predicate field == value instead of the field
	pred    bool
	predVal uint64
}

var c01Getters = []getterSpec{
	{"packet:PayloadUnitStartIndicator", "PUSI", false, 0},
	{"packet:Pid", "PID", false, 0},
	{"packet:ContainsPayload", "PAY", false, 0},
	{"packet:ContainsAdaptationField", "AF", false, 0},
	{"packet:ContinuityCounter", "CC", false, 0},
	{"packet:IsNull", "PID", true, 0x1FFF},
	{"packet:IsPat", "PID", true, 0},
	{"packet:(*Packet).TransportErrorIndicator", "TEI", false, 0},
	{"packet:(*Packet).PayloadUnitStartIndicator", "PUSI", false, 0},
	{"packet:(*Packet).TransportPriority", "TP", false, 0},
	{"packet:(*Packet).PID", "PID", false, 0},
	{"packet:(*Packet).TransportScramblingControl", "TSC", false, 0},
	{"packet:(*Packet).AdaptationFieldControl", "AFC", false, 0},
	{"packet:(*Packet).HasPayload", "PAY", false, 0},
	{"packet:(*Packet).HasAdaptationField", "AF", false, 0},
	{"packet:(*Packet).ContinuityCounter", "CC", false, 0},
	{"packet:(*Packet).IsNull", "PID", true, 0x1FFF},
	{"packet:(*Packet).IsPAT", "PID", true, 0},
	{"packet:(*Packet).syncByte", "sync", false, 0},
}

type setterSpec struct {
	anchor string
	field  string
	mode   string // "arg", "zero", "inc"
}

var c01Setters = []setterSpec{
	{"packet:(*Packet).SetTransportErrorIndicator", "TEI", "arg"},
	{"packet:(*Packet).SetPayloadUnitStartIndicator", "PUSI", "arg"},
	{"packet:(*Packet).SetTransportPriority", "TP", "arg"},
	{"packet:(*Packet).SetPID", "PID", "arg"},
	{"packet:(*Packet).SetTransportScramblingControl", "TSC", "arg"},
	{"packet:(*Packet).SetContinuityCounter", "CC", "arg"},
	{"packet:(*Packet).ZeroContinuityCounter", "CC", "zero"},
	{"packet:(*Packet).IncContinuityCounter", "CC", "inc"},
}

var c01Pairs = [][2]string{
	{"packet:Pid", "packet:(*Packet).PID"},
	{"packet:PayloadUnitStartIndicator", "packet:(*Packet).PayloadUnitStartIndicator"},
	{"packet:ContainsPayload", "packet:(*Packet).HasPayload"},
	{"packet:ContainsAdaptationField", "packet:(*Packet).HasAdaptationField"},
	{"packet:ContinuityCounter", "packet:(*Packet).ContinuityCounter"},
	{"packet:IsNull", "packet:(*Packet).IsNull"},
	{"packet:IsPat", "packet:(*Packet).IsPAT"},
	{"packet:Equal", "packet:(*Packet).Equals"},
}

func fieldWidth(segs []seg) int {
	n := 0
	for _, s := range segs {
		n += s.Hi - s.Lo + 1
	}
	return n
}

// inc4 is the reference "(cc + 1) mod 16" on four abstract bits, built with
// the same constructors the interpreter uses for + and truncation.
func inc4(cc []Bit, w int) []Bit {
	v := bvAdd(bitsBV(cc, w), constInt(1, w, true), false)
	return v.Bits[:4]
}

// headerFrame checks that every cell of the packet object has its expected
// final value: want[i] for listed cells, the untouched input otherwise.
func (c *Checker) headerFrame(rule, anchor string, s *Summary, obj *Obj, want map[int][]Bit) {
	name := obj.Name
	byteT := types.Typ[types.Uint8]
	if s.Out.havoc[obj] > 0 {
		c.check(rule, anchor, "frame", false, "a store through a non-constant index may write any cell of the packet")
		return
	}
	okAll := true
	for i := 0; i < 188; i++ {
		got, _ := s.Cell(obj, fmt.Sprint(i), byteT).(*BV)
		exp := cellBV(name, i).Bits
		if w, ok := want[i]; ok {
			exp = w
		}
		if ok, d := matchBits(got, exp); !ok {
			okAll = false
			c.check(rule, anchor, fmt.Sprintf("cell %d", i), false, d)
		}
	}
	if okAll {
		c.check(rule, anchor, "all 188 cells (field bits = value, every other bit unchanged)", true, "")
	}
}

func runC01(c *Checker) {
	c.Level = "proof"
	c.explain = "E1 bit-provenance abstract interpretation of every transport-header accessor: getters must return exactly the bits ISO 13818-1 Table 2-2 assigns, setters must leave every one of the 1504 packet bits either equal to the in-range argument bit (field) or to itself (frame), siblings must have identical provenance; Equal/CheckErrors/FromBytes are compared as boolean functions over their atoms by truth table."
	c.trust("go/ssa + go/types (x/tools v0.29.0)", "E1 transfer functions (bits.go, value.go, interp.go)", "layout table tsHeader transcribed from ISO/IEC 13818-1 Table 2-2")

	// 1. getters
	ng := 0
	rets := map[string]Val{}
	for _, g := range c01Getters {
		s, _ := c.summary("C01.getter", g.anchor, nil)
		if s == nil {
			continue
		}
		ng++
		name := paramName(s, 0)
		bits := fieldBits(name, tsHeader[g.field])
		ret, _ := s.RetN(0).(*BV)
		rets[g.anchor] = s.RetN(0)
		if g.pred {
			ok := ret != nil && ret.W == 1
			d := "result is not a boolean"
			if ok {
				eq, dec, det := equivBits(ret.Bits[0], eqConst(bits, g.predVal), 16)
				ok, d = eq && dec, det
			}
			c.check("C01.getter", g.anchor, fmt.Sprintf("result == (%s == %#x)", g.field, g.predVal), ok, d)
		} else {
			ok, d := matchBits(ret, bits)
			c.check("C01.getter", g.anchor, "result == "+g.field+" bits of Table 2-2", ok, d)
		}
		if w := s.WrittenCells(); len(w) > 0 {
			c.check("C01.getter", g.anchor, "read-only", false, fmt.Sprintf("writes %v", w))
		} else {
			c.check("C01.getter", g.anchor, "read-only", true, "")
		}
	}
	c.floorCheck("C01.getter anchors analysed", ng, 19)

	// 2. setters
	ns := 0
	for _, st := range c01Setters {
		segs := tsHeader[st.field]
		n := fieldWidth(segs)
		opts := &AnalyzeOpts{Args: map[string]Val{}}
		fn, err := c.P.Func(st.anchor)
		if err != nil {
			c.undecided("C01.setter", st.anchor, "anchor", err.Error())
			continue
		}
		var argBits []Bit
		if st.mode == "arg" {
			p := fn.Params[1]
			w, sg, ok := intWidth(p.Type())
			if !ok {
				c.undecided("C01.setter", st.anchor, "argument", "non-integer argument")
				continue
			}
			if w == 1 {
				a := boolArg(p.Name())
				opts.Args[p.Name()] = a
				argBits = a.Bits
			} else {
				a := uintArg(p.Name(), n, w, sg)
				opts.Args[p.Name()] = a
				argBits = a.Bits[:n]
			}
		}
		s, _ := c.summary("C01.setter", st.anchor, opts)
		if s == nil {
			continue
		}
		ns++
		obj := paramObj(s, 0)
		name := obj.Name
		switch st.mode {
		case "zero":
			argBits = make([]Bit, n)
			for i := range argBits {
				argBits[i] = U.B0
			}
		case "inc":
			argBits = inc4(fieldBits(name, segs), 64)
		}
		// expected cells
		want := map[int][]Bit{}
		k := 0
		for i := len(segs) - 1; i >= 0; i-- {
			sg := segs[i]
			if _, ok := want[sg.Cell]; !ok {
				want[sg.Cell] = append([]Bit(nil), cellBV(name, sg.Cell).Bits...)
			}
			for b := sg.Lo; b <= sg.Hi; b++ {
				want[sg.Cell][b] = argBits[k]
				k++
			}
		}
		c.headerFrame("C01.setter", st.anchor, s, obj, want)
	}
	c.floorCheck("C01.setter anchors analysed", ns, 8)

	// 3. sibling agreement
	np := 0
	for _, pr := range c01Pairs {
		ren := &AnalyzeOpts{Rename: map[string]string{"#0": "P", "#1": "Q"}}
		a, _ := c.summary("C01.sibling", pr[0], ren)
		b, _ := c.summary("C01.sibling", pr[1], ren)
		if a == nil || b == nil {
			continue
		}
		np++
		ok, d := sameResult(a, b)
		c.check("C01.sibling", pr[0]+" ~ "+pr[1], "identical provenance", ok, d)
	}
	c.floorCheck("C01.sibling pairs analysed", np, 8)

	// 4. copying CC helpers
	for _, h := range []struct {
		anchor, mode string
	}{{"packet:IncrementCC", "inc"}, {"packet:ZeroCC", "zero"}, {"packet:SetCC", "arg"}} {
		opts := &AnalyzeOpts{Args: map[string]Val{}}
		var argBits []Bit
		if h.mode == "arg" {
			a := uintArg("newCC", 4, 8, false)
			opts.Args["newCC"] = a
			argBits = a.Bits[:4]
		}
		s, _ := c.summary("C01.copyhelper", h.anchor, opts)
		if s == nil {
			continue
		}
		in := paramObj(s, 0)
		if w := s.WrittenCells(); len(w) > 0 {
			c.check("C01.copyhelper", h.anchor, "argument not modified", false, fmt.Sprintf("writes %v", w))
		} else {
			c.check("C01.copyhelper", h.anchor, "argument not modified", true, "")
		}
		rp, ok := s.RetN(0).(*Ptr)
		if !ok || rp.Obj == in || rp.Obj.Kind != "alloc" {
			c.check("C01.copyhelper", h.anchor, "result is a fresh packet", false, fmt.Sprintf("result %s is not a new allocation", showVal(s.RetN(0))))
			continue
		}
		c.check("C01.copyhelper", h.anchor, "result is a fresh packet", true, "")
		cc := fieldBits(in.Name, tsHeader["CC"])
		switch h.mode {
		case "inc":
			argBits = inc4(cc, 8)
		case "zero":
			argBits = []Bit{U.B0, U.B0, U.B0, U.B0}
		}
		okAll := true
		for i := 0; i < 188; i++ {
			got, _ := s.Cell(rp.Obj, fmt.Sprint(i), types.Typ[types.Uint8]).(*BV)
			exp := append([]Bit(nil), cellBV(in.Name, i).Bits...)
			if i == 3 {
				copy(exp[0:4], argBits)
			}
			if ok, d := matchBits(got, exp); !ok {
				okAll = false
				c.check("C01.copyhelper", h.anchor, fmt.Sprintf("result cell %d", i), false, d)
			}
		}
		if okAll {
			c.check("C01.copyhelper", h.anchor, "result = argument with CC replaced (mod 16)", true, "")
		}
	}
	c.checkCopyPackets()

	// 5. Equal
	if s, _ := c.summary("C01.equal", "packet:Equal", nil); s != nil {
		a, b := paramObj(s, 0), paramObj(s, 1)
		all := U.B1
		for i := 0; i < 188; i++ {
			x, y := cellBV(a.Name, i), cellBV(b.Name, i)
			for k := 0; k < 8; k++ {
				all = band(all, bnot(bxor(x.Bits[k], y.Bits[k])))
			}
		}
		in := s.in
		alias := in.eqBit(s.Params[0], s.Params[1])
		na, nb := in.nilBit(s.Params[0]), in.nilBit(s.Params[1])
		want := bor(alias, andAll(bnot(na), bnot(nb), wrapDef(all)))
		ret, _ := s.RetN(0).(*BV)
		ok := ret != nil && ret.W == 1
		d := "no boolean result"
		if ok {
			eq, dec, det := equivBits(ret.Bits[0], want, 12)
			ok, d = eq && dec, det
		}
		c.check("C01.equal", "packet:Equal", "same pointer ∨ (both non-nil ∧ all 1504 bits pairwise equal)", ok, d)
	}

	// 6. CheckErrors / FromBytes
	valid := func(name string) Bit {
		sync := eqConst(fieldBits(name, tsHeader["sync"]), 0x47)
		tsc1 := eqConst(fieldBits(name, tsHeader["TSC"]), 1)
		afc0 := eqConst(fieldBits(name, tsHeader["AFC"]), 0)
		return andAll(sync, bnot(tsc1), bnot(afc0))
	}
	if s, _ := c.summary("C01.validate", "packet:(*Packet).CheckErrors", nil); s != nil {
		isNil := s.in.nilBit(s.RetN(0))
		eq, dec, det := equivBits(isNil, valid(paramName(s, 0)), 16)
		c.check("C01.validate", "packet:(*Packet).CheckErrors", "error == nil ⇔ sync==0x47 ∧ TSC≠01 ∧ AFC≠00", eq && dec, det)
		if w := s.WrittenCells(); len(w) > 0 {
			c.check("C01.validate", "packet:(*Packet).CheckErrors", "read-only", false, fmt.Sprintf("writes %v", w))
		}
	}
	if s, _ := c.summary("C01.validate", "packet:FromBytes", nil); s != nil {
		src := paramObj(s, 0)
		lenIs188 := bvEq(src.Len, constInt(188, 64, true))
		pktNil := s.in.nilBit(s.RetN(0))
		eq, dec, det := equivBits(pktNil, bnot(lenIs188), 8)
		c.check("C01.validate", "packet:FromBytes", "packet == nil ⇔ len(bytes) ≠ 188", eq && dec, det)
		errNil := s.in.nilBit(s.RetN(1))
		eq, dec, det = equivBits(errNil, band(lenIs188, valid(src.Name)), 16)
		c.check("C01.validate", "packet:FromBytes", "error == nil ⇔ len == 188 ∧ packet valid", eq && dec, det)
		// contents
		var rp *Ptr
		switch r := s.RetN(0).(type) {
		case *Ptr:
			rp = r
		case *MuxV:
			rp, _ = r.T.(*Ptr)
		}
		if rp == nil {
			c.check("C01.validate", "packet:FromBytes", "packet bytes == input bytes", false, "cannot identify returned packet object")
		} else {
			okAll := true
			for i := 0; i < 188; i++ {
				got, _ := s.Cell(rp.Obj, fmt.Sprint(i), types.Typ[types.Uint8]).(*BV)
				if ok, d := matchBits(got, cellBV(src.Name, i).Bits); !ok {
					okAll = false
					c.check("C01.validate", "packet:FromBytes", fmt.Sprintf("packet cell %d", i), false, d)
				}
			}
			if okAll {
				c.check("C01.validate", "packet:FromBytes", "packet bytes == input bytes", true, "")
			}
			c.check("C01.validate", "packet:FromBytes", "result is a fresh packet", rp.Obj.Kind == "alloc", "result aliases "+rp.Obj.Name)
		}
		if w := s.WrittenCells(); len(w) > 0 {
			c.check("C01.validate", "packet:FromBytes", "input not modified", false, fmt.Sprintf("writes %v", w))
		}
	}
}

// sameResult compares the integer results of two summaries computed over the
// same (renamed) input sources; widths may differ (int vs uint8).
func sameResult(a, b *Summary) (bool, string) {
	ra, _ := a.RetN(0).(*BV)
	rb, _ := b.RetN(0).(*BV)
	if ra == nil || rb == nil || ra.W == 0 {
		return false, "non-integer result"
	}
	n := ra.W
	if rb.W > n {
		n = rb.W
	}
	for i := 0; i < n; i++ {
		x, y := U.B0, U.B0
		if i < ra.W {
			x = ra.Bits[i]
		}
		if i < rb.W {
			y = rb.Bits[i]
		}
		if x != y {
			eq, dec, _ := equivBits(x, y, 16)
			if !(eq && dec) {
				return false, fmt.Sprintf("bit %d: %s vs %s", i, x, y)
			}
		}
	}
	return true, ""
}

// checkCopyPackets analyses CopyPackets for slice lengths 0..3 (the loop is a
// range over the argument, unrolled under the fixed length): every result
// element must be a fresh packet whose cells equal the corresponding input
// packet's, and no input is written.
func (c *Checker) checkCopyPackets() {
	const anchor = "packet:CopyPackets"
	for n := 0; n <= 3; n++ {
		s, _ := c.summary("C01.copyhelper", anchor, &AnalyzeOpts{SliceLen: map[string]int{"packets": n}})
		if s == nil {
			return
		}
		con := fmt.Sprintf("len=%d: ", n)
		if w := s.WrittenCells(); len(w) > 0 {
			c.check("C01.copyhelper", anchor, con+"arguments not modified", false, fmt.Sprintf("writes %v", w))
			continue
		}
		rs, ok := s.RetN(0).(*SliceV)
		if !ok || rs.Obj.Kind != "make" {
			c.check("C01.copyhelper", anchor, con+"result is a fresh slice", false, showVal(s.RetN(0)))
			continue
		}
		if l, ok := rs.Len.ConstInt(); !ok || int(l) != n {
			c.check("C01.copyhelper", anchor, con+"result length", false, "length "+rs.Len.String())
			continue
		}
		okAll := true
		for i := 0; i < n && okAll; i++ {
			ep, ok := s.Cell(rs.Obj, fmt.Sprint(i), types.NewPointer(types.Typ[types.Uint8])).(*Ptr)
			if !ok || ep.Obj.Kind != "alloc" {
				okAll = false
				c.check("C01.copyhelper", anchor, con+fmt.Sprintf("element %d is a fresh packet", i), false, "not a new allocation")
				break
			}
			srcName := fmt.Sprintf("packets[%d]^", i)
			for k := 0; k < 188; k++ {
				got, _ := s.Cell(ep.Obj, fmt.Sprint(k), types.Typ[types.Uint8]).(*BV)
				if ok, d := matchBits(got, cellBV(srcName, k).Bits); !ok {
					okAll = false
					c.check("C01.copyhelper", anchor, con+fmt.Sprintf("element %d cell %d", i, k), false, d)
					break
				}
			}
		}
		if okAll {
			c.check("C01.copyhelper", anchor, con+"fresh slice of fresh equal packets, inputs untouched", true, "")
		}
	}
}
