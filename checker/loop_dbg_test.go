package main

import (
	"os"
	"testing"

	"golang.org/x/tools/go/ssa"
)

func TestLoopDbg(t *testing.T) {
	U = newUniverse()
	P, err := loadProgram("/repo")
	if err != nil {
		t.Fatal(err)
	}
	B := newBounds(P)
	B.applyPremises()
	fn, err := P.Func(os.Getenv("BFN"))
	if err != nil {
		t.Fatal(err)
	}
	bf := B.of(fn)
	for i, li := range findLoopsSSA(fn) {
		pat, why := bf.classifyLoop(li)
		t.Logf("loop %d header %d: pattern=%q why=%q", i+1, li.header.Index, pat, why)
		for _, ins := range li.header.Instrs {
			phi, ok := ins.(*ssa.Phi)
			if !ok {
				break
			}
			for k, e := range phi.Edges {
				if li.body[li.header.Preds[k]] {
					r, ok := bf.incrementOf(e, phi, 0)
					t.Logf("   phi %s back edge %s = %s ; increment %v ok=%v", phi.Comment, e.Name(), bf.affString(bf.affOf(e)), r, ok)
				}
			}
		}
	}
}
