package main

import (
	"fmt"
	"go/types"
	"math/big"
	"sort"
)

// C15: PTS arithmetic. The five methods are loop-free and touch p and q only
// through comparisons with each other and with constants, and through ± in
// DurationFrom/Add. Their residual formulas are extracted by E1 and the laws
// of the statement are checked on the *extracted formulas* over a grid that
// contains every order type of (p, q, 0, L, U, 2^33-1) with the ±2 neighbours
// of each threshold.

var (
	ptsL   = big.NewInt(162000000)
	ptsMax = new(big.Int).Sub(new(big.Int).Lsh(big.NewInt(1), 33), big.NewInt(1))
	ptsU   = new(big.Int).Sub(ptsMax, ptsL)
	ptsMod = new(big.Int).Lsh(big.NewInt(1), 33)
	negInf = new(big.Int).Sub(new(big.Int).Lsh(big.NewInt(1), 64), big.NewInt(2))
	posInf = new(big.Int).Sub(new(big.Int).Lsh(big.NewInt(1), 64), big.NewInt(1))
)

type ptsFormulas struct {
	after, ge, rolled Bit
	dur, add          *BV
	p, q              *Source
}

func (f *ptsFormulas) env(p, q *big.Int) cenv { return cenv{f.p: p, f.q: q} }

func evalB(e cenv, b Bit) (bool, error) { return e.bit(b) }

func ptsGrid() []*big.Int {
	set := map[string]*big.Int{}
	add := func(v *big.Int) {
		if v.Sign() >= 0 && v.Cmp(ptsMax) <= 0 {
			set[v.String()] = new(big.Int).Set(v)
		}
	}
	bps := []*big.Int{big.NewInt(0), ptsL, ptsU, ptsMax}
	for _, b := range bps {
		for d := int64(-2); d <= 2; d++ {
			add(new(big.Int).Add(b, big.NewInt(d)))
		}
	}
	// interior points of each gap
	for i := 0; i+1 < len(bps); i++ {
		mid := new(big.Int).Add(bps[i], bps[i+1])
		mid.Rsh(mid, 1)
		add(mid)
		add(new(big.Int).Add(mid, big.NewInt(1)))
		q := new(big.Int).Sub(bps[i+1], bps[i])
		q.Div(q, big.NewInt(3))
		add(new(big.Int).Add(bps[i], q))
	}
	// points one window away from the ends
	add(new(big.Int).Mul(ptsL, big.NewInt(2)))
	add(new(big.Int).Sub(ptsU, ptsL))
	add(new(big.Int).Lsh(big.NewInt(1), 32))
	var out []*big.Int
	for _, v := range set {
		out = append(out, v)
	}
	sort.Slice(out, func(i, j int) bool { return out[i].Cmp(out[j]) < 0 })
	return out
}

func runC15(c *Checker) {
	c.Level = "other"
	c.explain = "The residual formulas of RolledOver, After, GreaterOrEqual, DurationFrom and Add are extracted by abstract interpretation (they must depend on the two operands only, through unsigned comparisons, equality tests, + and - and a 33-bit mask). The laws of the statement are then checked on the extracted formulas at every pair of a grid containing all order types of (p, q, 0, L=162000000, U=2^33-1-L, 2^33-1) with the ±2 neighbours of each threshold and interior points, plus the two sentinels, and for distances d in {1,2,…,L-1,L}. Decides: the comparison structure and the constants. Does not decide: the laws at points of the 2^66 pair space outside the grid — argued by piecewise-affinity of the formulas between the thresholds, not mechanised."
	c.trust("go/ssa + go/types (x/tools v0.29.0)", "E1 transfer functions and the term evaluator of the checker", "adequacy of the grid: the extracted formulas are comparisons and affine terms whose only breakpoints are the thresholds present in the grid")
	gots := ""
	_ = gots
	f := &ptsFormulas{}
	f.p = U.source("param", "p", 64)
	names := map[string]string{"other": "q", "from": "q", "x": "q"}
	get := func(anchor string) (Val, bool) {
		s, _ := c.summary("C15.extract", anchor, &AnalyzeOpts{Rename: names, Setup: func(in *Interp) { in.TermEq = true }})
		if s == nil {
			return nil, false
		}
		c.check("C15.extract", anchor, "pure (no memory written)", len(s.WrittenCells()) == 0, fmt.Sprint(s.WrittenCells()))
		return s.RetN(0), true
	}
	f.q = U.source("param", "q", 64)
	bit := func(v Val) Bit {
		if b, ok := v.(*BV); ok && b.W == 1 {
			return b.Bits[0]
		}
		return nil
	}
	v, ok1 := get(":(PTS).RolledOver")
	f.rolled = bit(v)
	v, ok2 := get(":(PTS).After")
	f.after = bit(v)
	v, ok3 := get(":(PTS).GreaterOrEqual")
	f.ge = bit(v)
	v, ok4 := get(":(PTS).DurationFrom")
	f.dur, _ = v.(*BV)
	v, ok5 := get(":(PTS).Add")
	f.add, _ = v.(*BV)
	if !(ok1 && ok2 && ok3 && ok4 && ok5) || f.rolled == nil || f.after == nil || f.ge == nil || f.dur == nil || f.add == nil {
		c.undecided("C15.extract", ":(PTS)", "formulas", "could not extract all five formulas")
		return
	}
	// dependence: only p and q
	for name, bits := range map[string][]Bit{"RolledOver": {f.rolled}, "After": {f.after}, "GreaterOrEqual": {f.ge}, "DurationFrom": f.dur.Bits, "Add": f.add.Bits} {
		srcs := map[*Source]bool{}
		ok := inputSources(bits, srcs)
		for s := range srcs {
			if s != f.p && s != f.q {
				ok = false
			}
		}
		c.check("C15.extract", ":(PTS)."+name, "result is an evaluable formula over the two operands only", ok, "depends on other inputs or contains an opaque operation")
	}

	// constants: only the statement's thresholds may occur in the formulas, and
	// affine terms may only have coefficients ±1 — this is what makes the grid
	// (all order types around exactly these thresholds) adequate
	allowed := []*big.Int{big.NewInt(0), ptsL, ptsU, ptsMax, ptsMod, negInf, posInf}
	isAllowed := func(k *big.Int) bool {
		m64 := new(big.Int).Lsh(big.NewInt(1), 64)
		for _, a := range allowed {
			if k.Cmp(a) == 0 || new(big.Int).Mod(new(big.Int).Neg(k), m64).Cmp(a) == 0 || new(big.Int).Neg(k).Cmp(a) == 0 {
				return true
			}
		}
		return false
	}
	for name, bits := range map[string][]Bit{"RolledOver": {f.rolled}, "After": {f.after}, "GreaterOrEqual": {f.ge}, "DurationFrom": f.dur.Bits, "Add": f.add.Bits} {
		var stray []string
		walkTerms(bits, func(t *Term) {
			switch t.Op {
			case "const":
				if !isAllowed(t.K) {
					stray = append(stray, t.K.String())
				}
			case "lin":
				if !isAllowed(t.K) {
					stray = append(stray, t.K.String())
				}
				for _, cf := range t.Coef {
					if cf.CmpAbs(big.NewInt(1)) != 0 {
						stray = append(stray, "coefficient "+cf.String())
					}
				}
			}
		})
		sort.Strings(stray)
		c.check("C15.extract", ":(PTS)."+name, "only the statement's constants (0, L, U, 2^33-1, 2^33, the two sentinels) and unit coefficients occur", len(stray) == 0, "other constants: "+fmt.Sprint(stray))
	}

	grid := ptsGrid()
	c.extra["grid_points"] = len(grid)
	type law struct {
		name string
		fn   func(p, q *big.Int) (bool, string)
	}
	E := func(b Bit, p, q *big.Int) bool {
		v, err := evalB(f.env(p, q), b)
		if err != nil {
			panic(err)
		}
		return v
	}
	EV := func(v *BV, p, q *big.Int) *big.Int {
		r, err := f.env(p, q).bv(v)
		if err != nil {
			panic(err)
		}
		return r
	}
	laws := []law{
		{"RolledOver(p,q) ⇔ p < 162000000 ∧ q > 2^33-1-162000000", func(p, q *big.Int) (bool, string) {
			want := p.Cmp(ptsL) < 0 && q.Cmp(ptsU) > 0
			return E(f.rolled, p, q) == want, fmt.Sprintf("formula gives %v", !want)
		}},
		{"After is irreflexive", func(p, q *big.Int) (bool, string) { return !E(f.after, p, p), "After(p,p) is true" }},
		{"After is asymmetric", func(p, q *big.Int) (bool, string) {
			return !(E(f.after, p, q) && E(f.after, q, p)), "After(p,q) and After(q,p) both true"
		}},
		{"After is total (exactly one of p After q, q After p, p == q)", func(p, q *big.Int) (bool, string) {
			n := 0
			if E(f.after, p, q) {
				n++
			}
			if E(f.after, q, p) {
				n++
			}
			if p.Cmp(q) == 0 {
				n++
			}
			return n == 1, fmt.Sprintf("%d of the three alternatives hold", n)
		}},
		{"GreaterOrEqual ⇔ After ∨ equal", func(p, q *big.Int) (bool, string) {
			return E(f.ge, p, q) == (E(f.after, p, q) || p.Cmp(q) == 0), "disagrees"
		}},
		{"DurationFrom is symmetric", func(p, q *big.Int) (bool, string) {
			a, b := EV(f.dur, p, q), EV(f.dur, q, p)
			return a.Cmp(b) == 0, fmt.Sprintf("%s vs %s", a, b)
		}},
		{"DurationFrom is zero exactly on equal times", func(p, q *big.Int) (bool, string) {
			return (EV(f.dur, p, q).Sign() == 0) == (p.Cmp(q) == 0), "zero duration between different times or non-zero between equal ones"
		}},
		{"every finite time is after -inf, none is after +inf", func(p, q *big.Int) (bool, string) {
			return E(f.after, p, negInf) && !E(f.after, p, posInf), "sentinel clause fails"
		}},
	}
	for _, l := range laws {
		bad, n := "", 0
		func() {
			defer func() {
				if r := recover(); r != nil {
					bad = fmt.Sprint("formula not evaluable: ", r)
				}
			}()
			for _, p := range grid {
				for _, q := range grid {
					n++
					if ok, d := l.fn(p, q); !ok && bad == "" {
						bad = fmt.Sprintf("p=%s q=%s: %s", p, q, d)
					}
				}
			}
		}()
		c.check("C15.law", ":(PTS)", l.name+fmt.Sprintf(" [%d grid pairs]", n), bad == "", bad)
	}
	// Add laws
	ds := []*big.Int{big.NewInt(1), big.NewInt(2), big.NewInt(90000), new(big.Int).Sub(ptsL, big.NewInt(1)), ptsL}
	addLaws := []struct {
		name string
		fn   func(p, d, pd *big.Int, wrapped bool) (bool, string)
	}{
		{"Add(p,d) == (p+d) mod 2^33", func(p, d, pd *big.Int, w bool) (bool, string) {
			want := new(big.Int).Mod(new(big.Int).Add(p, d), ptsMod)
			return pd.Cmp(want) == 0, fmt.Sprintf("got %s want %s", pd, want)
		}},
		{"Add(p,d) After p and not vice versa", func(p, d, pd *big.Int, w bool) (bool, string) {
			return E(f.after, pd, p) && !E(f.after, p, pd), "ordering wrong"
		}},
		{"Add(p,d) rolled over relative to p exactly when the addition wrapped", func(p, d, pd *big.Int, w bool) (bool, string) {
			return E(f.rolled, pd, p) == w, fmt.Sprintf("wrapped=%v", w)
		}},
		{"duration between p and Add(p,d) is d in either order", func(p, d, pd *big.Int, w bool) (bool, string) {
			a, b := EV(f.dur, pd, p), EV(f.dur, p, pd)
			return a.Cmp(d) == 0 && b.Cmp(d) == 0, fmt.Sprintf("%s / %s", a, b)
		}},
	}
	for _, l := range addLaws {
		bad, n := "", 0
		func() {
			defer func() {
				if r := recover(); r != nil {
					bad = fmt.Sprint("formula not evaluable: ", r)
				}
			}()
			for _, p := range grid {
				for _, d := range ds {
					n++
					pd := EV(f.add, p, d)
					wrapped := new(big.Int).Add(p, d).Cmp(ptsMod) >= 0
					if ok, det := l.fn(p, d, pd, wrapped); !ok && bad == "" {
						bad = fmt.Sprintf("p=%s d=%s: %s", p, d, det)
					}
				}
			}
		}()
		c.check("C15.law", ":(PTS)", l.name+fmt.Sprintf(" [%d (p,d) pairs, 1 ≤ d ≤ 162000000]", n), bad == "", bad)
	}
	// constants
	c.checkPTSConstants()
}

func (c *Checker) checkPTSConstants() {
	tp := c.P.TPkg[modPath]
	want := map[string]*big.Int{
		"LowerPtsRolloverThreshold": ptsL, "UpperPtsRolloverThreshold": ptsU, "MaxPtsValue": ptsMax, "MaxPtsTicks": ptsMod,
		"PtsNegativeInfinity": negInf, "PtsPositiveInfinity": posInf,
	}
	names := make([]string, 0, len(want))
	for n := range want {
		names = append(names, n)
	}
	sort.Strings(names)
	for _, n := range names {
		ok, d := false, "constant not found"
		if tc, isConst := tp.Types.Scope().Lookup(n).(*types.Const); isConst {
			v, _ := new(big.Int).SetString(tc.Val().ExactString(), 10)
			ok = v != nil && v.Cmp(want[n]) == 0
			d = fmt.Sprintf("value %s, expected %s", tc.Val().ExactString(), want[n])
		}
		c.check("C15.const", ":"+n, "value fixed by the statement (30 min = 162000000 ticks, 2^33 timeline, two largest uint64 as sentinels)", ok, d)
	}
}
