package main

import (
	"encoding/json"
	"flag"
	"fmt"
	"os"
	"strings"
)

func main() {
	repo := flag.String("repo", "/repo", "path of the gots tree to analyse")
	prop := flag.String("prop", "", "property id (C01..C20)")
	tier := flag.String("tier", "quick", "quick|thorough")
	evid := flag.String("evidence", "", "evidence file to write")
	dump := flag.String("dump", "", "debug: dump the abstract summary of the named functions (comma separated anchors)")
	flag.Parse()
	U = newUniverse()
	P, err := loadProgram(*repo)
	if err != nil {
		fmt.Fprintf(os.Stderr, "load failed: %v\n", err)
		os.Exit(2)
	}
	if *dump == "params" {
		// regenerate spec/params.json (by hand, when checks are (re)written)
		out := map[string][]string{}
		for _, fn := range P.LibFuncs(false) {
			var ns []string
			for _, p := range fn.Params {
				ns = append(ns, p.Name())
			}
			out[fn.String()] = ns
		}
		b, _ := json.MarshalIndent(out, "", " ")
		fmt.Println(string(b))
		return
	}
	if *dump != "" {
		for _, a := range strings.Split(*dump, ",") {
			fn, err := P.Func(a)
			if err != nil {
				fmt.Println(err)
				continue
			}
			fmt.Print(Analyze(P, fn, nil).Dump())
		}
		return
	}
	os.Exit(runProperty(P, *prop, *tier, *evid))
}
