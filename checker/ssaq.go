package main

// Small queries over the SSA form used by the value-flow / call-site rules
// (engines E3-E5 of DESIGN.md): resolved call sites, canonical expression
// rendering of an SSA value ("sx"), dominance of instructions.

import (
	"fmt"
	"go/constant"
	"go/token"
	"go/types"
	"strings"

	"golang.org/x/tools/go/ssa"
)

// callsTo lists the call instructions in fn whose static callee is callee.
func callsTo(fn *ssa.Function, callee *ssa.Function) []ssa.CallInstruction {
	var out []ssa.CallInstruction
	for _, b := range fn.Blocks {
		for _, ins := range b.Instrs {
			if ci, ok := ins.(ssa.CallInstruction); ok {
				if ci.Common().StaticCallee() == callee {
					out = append(out, ci)
				}
			}
		}
	}
	return out
}

// allCalls lists every call instruction of fn with its static callee (nil for
// dynamic calls).
func allCalls(fn *ssa.Function) []ssa.CallInstruction {
	var out []ssa.CallInstruction
	for _, b := range fn.Blocks {
		for _, ins := range b.Instrs {
			if ci, ok := ins.(ssa.CallInstruction); ok {
				out = append(out, ci)
			}
		}
	}
	return out
}

func calleeName(ci ssa.CallInstruction) string {
	cc := ci.Common()
	if cc.IsInvoke() {
		return "invoke:" + cc.Method.FullName()
	}
	if f := cc.StaticCallee(); f != nil {
		return f.String()
	}
	if b, ok := cc.Value.(*ssa.Builtin); ok {
		return "builtin:" + b.Name()
	}
	return "dynamic"
}

// sx renders an SSA value as a canonical expression: constants by value,
// parameters/free variables by name, allocations and calls by kind, operators
// structurally. Values that are not pure expressions (phis, loads) are leaves
// named by their SSA register within the function, so two renderings are
// comparable only inside one function.
func sx(v ssa.Value) string { return sxd(v, 12) }

func sxd(v ssa.Value, d int) string {
	if v == nil {
		return "nil"
	}
	if d == 0 {
		return "…"
	}
	switch x := v.(type) {
	case *ssa.Const:
		if x.Value == nil {
			return "nil"
		}
		if x.Value.Kind() == constant.Int {
			return x.Value.ExactString()
		}
		return x.Value.String()
	case *ssa.Parameter:
		return "$" + x.Name()
	case *ssa.FreeVar:
		return "$$" + x.Name()
	case *ssa.Global:
		return "@" + x.Name()
	case *ssa.Function:
		return "func:" + x.String()
	case *ssa.BinOp:
		a, b := sxd(x.X, d-1), sxd(x.Y, d-1)
		switch x.Op {
		case token.ADD, token.MUL, token.AND, token.OR, token.XOR, token.EQL, token.NEQ:
			if a > b {
				a, b = b, a
			}
		case token.GTR:
			return "(" + b + "<" + a + ")"
		case token.GEQ:
			return "(" + b + "<=" + a + ")"
		}
		return "(" + a + x.Op.String() + b + ")"
	case *ssa.UnOp:
		if x.Op == token.MUL {
			return "*" + sxd(x.X, d-1)
		}
		return x.Op.String() + sxd(x.X, d-1)
	case *ssa.Convert:
		return sxd(x.X, d-1) // conversions between integer types are transparent for shape rules
	case *ssa.ChangeType:
		return sxd(x.X, d-1)
	case *ssa.Slice:
		lo, hi := "", ""
		if x.Low != nil {
			lo = sxd(x.Low, d-1)
			if lo == "0" {
				lo = ""
			}
		}
		if x.High != nil {
			hi = sxd(x.High, d-1)
		}
		return sxd(x.X, d-1) + "[" + lo + ":" + hi + "]"
	case *ssa.IndexAddr:
		return "&" + sxd(x.X, d-1) + "[" + sxd(x.Index, d-1) + "]"
	case *ssa.FieldAddr:
		return "&" + sxd(x.X, d-1) + "." + fieldName(x.X.Type(), x.Field)
	case *ssa.Field:
		return sxd(x.X, d-1) + "." + fieldName(x.X.Type(), x.Field)
	case *ssa.Call:
		var args []string
		for _, a := range x.Call.Args {
			args = append(args, sxd(a, d-1))
		}
		name := calleeName(x)
		if x.Call.IsInvoke() {
			args = append([]string{sxd(x.Call.Value, d-1)}, args...)
		}
		if strings.HasPrefix(name, "builtin:") {
			name = name[8:]
		}
		return name + "(" + strings.Join(args, ",") + ")"
	case *ssa.Extract:
		return sxd(x.Tuple, d-1) + fmt.Sprintf("#%d", x.Index)
	case *ssa.MakeSlice:
		return "make[" + stableName(x) + "]"
	case *ssa.Alloc:
		return "alloc[" + stableName(x) + "]"
	case *ssa.MakeInterface:
		return "iface(" + sxd(x.X, d-1) + ")"
	case *ssa.Phi:
		return "phi[" + stableName(x) + "]"
	}
	return v.Name()
}

func fieldName(t types.Type, i int) string {
	if p, ok := t.Underlying().(*types.Pointer); ok {
		t = p.Elem()
	}
	if s, ok := t.Underlying().(*types.Struct); ok && i < s.NumFields() {
		return s.Field(i).Name()
	}
	return fmt.Sprint(i)
}

// instrDominates reports whether instruction a dominates instruction b.
func instrDominates(a, b ssa.Instruction) bool {
	ba, bb := a.Block(), b.Block()
	if ba != bb {
		return ba.Dominates(bb)
	}
	for _, ins := range ba.Instrs {
		if ins == a {
			return true
		}
		if ins == b {
			return false
		}
	}
	return false
}

// stripConv removes integer conversions and ChangeType wrappers.
func stripConv(v ssa.Value) ssa.Value {
	for {
		switch x := v.(type) {
		case *ssa.Convert:
			v = x.X
		case *ssa.ChangeType:
			v = x.X
		default:
			return v
		}
	}
}

// stableName names a phi / allocation by its source variable and its ordinal
// among the same-named values of the function (in block order), so that the
// name survives unrelated edits that renumber SSA registers.
var stableNames = map[ssa.Value]string{}

func stableName(v ssa.Value) string {
	if n, ok := stableNames[v]; ok {
		return n
	}
	ins, ok := v.(ssa.Instruction)
	if !ok || ins.Parent() == nil {
		return v.Name()
	}
	counts := map[string]int{}
	for _, b := range ins.Parent().Blocks {
		for _, i2 := range b.Instrs {
			var base string
			var val ssa.Value
			switch y := i2.(type) {
			case *ssa.Phi:
				base, val = "φ"+y.Comment, y
			case *ssa.Alloc:
				base, val = y.Comment, y
			case *ssa.MakeSlice:
				base, val = "make", y
			default:
				continue
			}
			counts[base]++
			n := strings.TrimPrefix(base, "φ")
			if n == "" {
				n = "tmp"
			}
			if counts[base] > 1 {
				n = fmt.Sprintf("%s#%d", n, counts[base])
			}
			stableNames[val] = n
		}
	}
	return stableNames[v]
}

// globalWrites lists the store instructions of fn and of its static callees
// inside the module (transitively) whose address is derived from a
// package-level variable: a direct store to the variable, or a store through
// a pointer, slice or map loaded from it. Used for "the answer does not
// depend on earlier calls" clauses (seed C06i).
func globalWrites(fn *ssa.Function) []string {
	var out []string
	seen := map[*ssa.Function]bool{}
	var fromGlobal func(v ssa.Value, depth int) bool
	fromGlobal = func(v ssa.Value, depth int) bool {
		if depth > 12 {
			return false
		}
		switch x := v.(type) {
		case *ssa.Global:
			return true
		case *ssa.IndexAddr:
			return fromGlobal(x.X, depth+1)
		case *ssa.FieldAddr:
			return fromGlobal(x.X, depth+1)
		case *ssa.UnOp:
			return fromGlobal(x.X, depth+1)
		case *ssa.Slice:
			return fromGlobal(x.X, depth+1)
		case *ssa.ChangeType:
			return fromGlobal(x.X, depth+1)
		case *ssa.Convert:
			return fromGlobal(x.X, depth+1)
		case *ssa.Phi:
			for _, e := range x.Edges {
				if fromGlobal(e, depth+1) {
					return true
				}
			}
		}
		return false
	}
	var walk func(f *ssa.Function)
	walk = func(f *ssa.Function) {
		if f == nil || seen[f] || f.Blocks == nil || f.Pkg == nil || !strings.HasPrefix(f.Pkg.Pkg.Path(), modPath) {
			return
		}
		seen[f] = true
		for _, b := range f.Blocks {
			for _, in := range b.Instrs {
				switch x := in.(type) {
				case *ssa.Store:
					if fromGlobal(x.Addr, 0) {
						out = append(out, fmt.Sprintf("%s: store through %s", shortFn(f), sx(x.Addr)))
					}
				case *ssa.MapUpdate:
					if fromGlobal(x.Map, 0) {
						out = append(out, fmt.Sprintf("%s: map update of %s", shortFn(f), sx(x.Map)))
					}
				case ssa.CallInstruction:
					walk(x.Common().StaticCallee())
				}
			}
		}
	}
	walk(fn)
	return out
}
