package main

// Engine E2: index / slice bounds by affine forms with interval ranges and
// dominating branch facts, directly on SSA (no execution, no solver).
//
// Every integer SSA value is given an affine form  k + Σ cᵢ·aᵢ  over atoms
// (opaque integer SSA values and len(·) of slice values that cannot be
// resolved further). Arithmetic in types narrower than 64 bits is kept exact
// only when the interval of the mathematical result fits the type; otherwise
// the result becomes a fresh atom ranging over the whole type (this is what
// exposes wrapping uint8/uint16 cursors). An obligation E ≥ 0 is discharged
// if the interval lower bound of E, or of E minus one or two dominating
// branch facts, is ≥ 0. Obligations of unexported functions that mention only
// parameters are lifted to every call site.

import (
	"fmt"
	"go/constant"
	"go/token"
	"go/types"
	"math"
	"os"
	"sort"
	"strings"

	"golang.org/x/tools/go/ssa"
)

const (
	negInfI = math.MinInt64 / 4
	posInfI = math.MaxInt64 / 4
)

// atom keys: an ssa.Value (integer-typed), lenKey{v}, or symKey (the result
// of a write-free call named by callee and argument expressions, so that the
// same call reached through two different summaries is one atom).
type lenKey struct{ v ssa.Value }

type symKey struct{ name string }

type aff struct {
	k int64
	t map[interface{}]int64
}

func affConst(k int64) aff { return aff{k: k} }

func affAtom(a interface{}) aff { return aff{t: map[interface{}]int64{a: 1}} }

func (a aff) add(b aff, s int64) aff {
	r := aff{k: satAdd(a.k, satMul(b.k, s)), t: map[interface{}]int64{}}
	for x, c := range a.t {
		r.t[x] = c
	}
	for x, c := range b.t {
		r.t[x] += c * s
		if r.t[x] == 0 {
			delete(r.t, x)
		}
	}
	return r
}

func (a aff) scale(s int64) aff {
	r := aff{k: satMul(a.k, s), t: map[interface{}]int64{}}
	if s == 0 {
		return affConst(0)
	}
	for x, c := range a.t {
		r.t[x] = c * s
	}
	return r
}

func (a aff) isConst() bool { return len(a.t) == 0 }

// atomOrderKey is a stable name of an atom, used to visit the atoms of an
// affine form in the same order on every run (memoised results with cycle
// cuts would otherwise depend on Go's map iteration order).
func atomOrderKey(x interface{}) string {
	val := func(v ssa.Value) string {
		p := ""
		if f := v.Parent(); f != nil {
			p = f.String()
		}
		return p + "#" + v.Name()
	}
	switch k := x.(type) {
	case ssa.Value:
		return "v:" + val(k)
	case lenKey:
		return "l:" + val(k.v)
	case symKey:
		return "s:" + k.name
	}
	return fmt.Sprintf("z:%v", x)
}

// sortedAtoms lists the atoms of a in stable order.
func (a aff) sortedAtoms() []interface{} {
	out := make([]interface{}, 0, len(a.t))
	for x := range a.t {
		out = append(out, x)
	}
	sort.Slice(out, func(i, j int) bool { return atomOrderKey(out[i]) < atomOrderKey(out[j]) })
	return out
}

func satAdd(a, b int64) int64 {
	r := a + b
	if r > posInfI || (a > 0 && b > 0 && r < 0) {
		return posInfI
	}
	if r < negInfI || (a < 0 && b < 0 && r > 0) {
		return negInfI
	}
	return r
}

func satMul(a, b int64) int64 {
	if a == 0 || b == 0 {
		return 0
	}
	r := a * b
	if r/b != a || r > posInfI {
		if (a > 0) == (b > 0) {
			return posInfI
		}
		return negInfI
	}
	if r < negInfI {
		return negInfI
	}
	return r
}

type ival struct{ lo, hi int64 }

func (i ival) neg() ival { return ival{-i.hi, -i.lo} }

// ------------------------------------------------------------------ analysis

type boundsFn struct {
	B           *Bounds
	fn          *ssa.Function
	affMemo     map[ssa.Value]*aff
	lenMemo     map[ssa.Value]*aff
	rngMemo     map[interface{}]*ival
	inProg      map[interface{}]bool
	facts       map[*ssa.BasicBlock][]aff // facts (each ≥ 0) holding in the block
	canonMemo   map[ssa.Value]ssa.Value
	byKey       map[string][]ssa.Value
	stores      map[string][]*ssa.Store
	inFits      bool // re-entrancy guard of fitsAt
	inCond      bool // re-entrancy guard of the postcondition facts
	inCong      bool // re-entrancy guard of the congruence rule
	inInd       bool // re-entrancy guard of the loop-invariant rule
	bufWritten  bool // write-side buffer facts added
	bufAtCall   map[ssa.CallInstruction]map[int]aff // unread bytes of a tracked buffer when it was handed to a callee
	mods        *[]int64
	cuts        int  // number of cycle cuts taken by rangeOfAtom so far
	noInline    bool // summary mode: calls stay atoms (the caller translates them)
	phiDone     map[*ssa.Phi]bool
	passed      map[*ssa.BasicBlock][]passedCheck // requirements of the block's own panic-capable instructions
	valOverride map[ssa.Value]*aff                // value of buf.Len() calls when the remaining count is tracked
	lenOverride map[ssa.Value]*aff                // exact length of buf.Next(n) results
	global      []aff                             // facts valid wherever their atoms are defined (wrap-around bounds)
}

type passedCheck struct {
	ins ssa.Instruction
	e   aff
}

func instrBefore(a, b ssa.Instruction) bool {
	if a.Block() != b.Block() || a == b {
		return false
	}
	for _, ins := range a.Block().Instrs {
		if ins == a {
			return true
		}
		if ins == b {
			return false
		}
	}
	return false
}

type Bounds struct {
	P            *Program
	fns          map[*ssa.Function]*boundsFn
	callers      map[*ssa.Function][]ssa.CallInstruction
	addrTkn      map[*ssa.Function]bool
	retRng       map[*ssa.Function]*ival
	retProg      map[*ssa.Function]bool
	wfMemo       map[*ssa.Function]bool
	mwMemo       map[string]bool
	roMemo       map[*ssa.Function]bool
	neMemo       map[*ssa.Function]bool     // noElemWrites
	premiseFacts map[*ssa.Function][]aff    // facts established from call sites (bounds_premise.go)
	posts        map[*ssa.Function]postcond // proved postconditions (bounds_post.go)
	nonNeg       map[string]int             // fieldNonNeg: 1 proved, 2 refuted, 3 hypothesis being checked
	bufLower     map[string]int64           // bufParamLower
	raw          map[*ssa.Function]*boundsFn
	symRng       map[string]ival
	outOfScope   []string
}

func newBounds(P *Program) *Bounds {
	B := &Bounds{P: P, fns: map[*ssa.Function]*boundsFn{}, callers: map[*ssa.Function][]ssa.CallInstruction{},
		addrTkn: map[*ssa.Function]bool{}, retRng: map[*ssa.Function]*ival{}, retProg: map[*ssa.Function]bool{},
		wfMemo: map[*ssa.Function]bool{}, mwMemo: map[string]bool{}, symRng: map[string]ival{}, roMemo: map[*ssa.Function]bool{}, neMemo: map[*ssa.Function]bool{}, raw: map[*ssa.Function]*boundsFn{}}
	for _, fn := range P.LibFuncs(true) {
		for _, b := range fn.Blocks {
			for _, ins := range b.Instrs {
				if ci, ok := ins.(ssa.CallInstruction); ok {
					if callee := ci.Common().StaticCallee(); callee != nil {
						B.callers[callee] = append(B.callers[callee], ci)
					}
				}
				// function values used other than as call targets
				for _, op := range ins.Operands(nil) {
					if op == nil || *op == nil {
						continue
					}
					if f, ok := (*op).(*ssa.Function); ok {
						if ci, isCall := ins.(ssa.CallInstruction); isCall && ci.Common().Value == ssa.Value(f) {
							continue
						}
						B.addrTkn[f] = true
					}
					if mc, ok := (*op).(*ssa.MakeClosure); ok {
						if f, ok := mc.Fn.(*ssa.Function); ok {
							_ = f
						}
					}
				}
			}
		}
	}
	return B
}

// rawOf: a second view of fn in which calls are not inlined, used to build
// call summaries that the caller then translates into its own terms.
func (B *Bounds) rawOf(fn *ssa.Function) *boundsFn {
	if bf, ok := B.raw[fn]; ok {
		return bf
	}
	bf := &boundsFn{B: B, fn: fn, affMemo: map[ssa.Value]*aff{}, lenMemo: map[ssa.Value]*aff{},
		rngMemo: map[interface{}]*ival{}, inProg: map[interface{}]bool{}, facts: map[*ssa.BasicBlock][]aff{},
		canonMemo: map[ssa.Value]ssa.Value{}, valOverride: map[ssa.Value]*aff{}, lenOverride: map[ssa.Value]*aff{}, noInline: true}
	B.raw[fn] = bf
	bf.indexKeys()
	return bf
}

func (B *Bounds) of(fn *ssa.Function) *boundsFn {
	if bf, ok := B.fns[fn]; ok {
		return bf
	}
	bf := &boundsFn{B: B, fn: fn, affMemo: map[ssa.Value]*aff{}, lenMemo: map[ssa.Value]*aff{},
		rngMemo: map[interface{}]*ival{}, inProg: map[interface{}]bool{}, facts: map[*ssa.BasicBlock][]aff{},
		canonMemo: map[ssa.Value]ssa.Value{}, valOverride: map[ssa.Value]*aff{}, lenOverride: map[ssa.Value]*aff{}}
	B.fns[fn] = bf
	bf.global = append(bf.global, B.premiseFacts[fn]...)
	bf.indexKeys()
	bf.computeFacts()
	// second pass: values first met before the facts of their own block
	// existed (through a loop phi) were memoised as opaque atoms; with every
	// block's facts known they get their affine form, and the facts are
	// rebuilt over those forms. The first-pass facts are sound (atoms only
	// lose information) and are what justifies "does not wrap" in the second.
	bf.affMemo = map[ssa.Value]*aff{}
	bf.lenMemo = map[ssa.Value]*aff{}
	bf.rngMemo = map[interface{}]*ival{}
	bf.phiDone = nil
	bf.computeFacts()
	return bf
}

func typeRange(t types.Type) ival {
	b, ok := t.Underlying().(*types.Basic)
	if !ok {
		return ival{negInfI, posInfI}
	}
	switch b.Kind() {
	case types.Bool:
		return ival{0, 1}
	case types.Uint8:
		return ival{0, 255}
	case types.Uint16:
		return ival{0, 65535}
	case types.Uint32:
		return ival{0, 1<<32 - 1}
	case types.Uint, types.Uint64, types.Uintptr:
		return ival{0, posInfI}
	case types.Int8:
		return ival{-128, 127}
	case types.Int16:
		return ival{-32768, 32767}
	case types.Int32:
		return ival{-(1 << 31), 1<<31 - 1}
	}
	return ival{negInfI, posInfI}
}

func isIntType(t types.Type) bool {
	b, ok := t.Underlying().(*types.Basic)
	return ok && b.Info()&types.IsInteger != 0
}

func constInt64(c *ssa.Const) (int64, bool) {
	if c.Value == nil || c.Value.Kind() != constant.Int {
		return 0, false
	}
	v, exact := constant.Int64Val(c.Value)
	if !exact {
		if u, ok := constant.Uint64Val(c.Value); ok && u > math.MaxInt64 {
			return posInfI, true
		}
		return 0, false
	}
	if v > posInfI {
		v = posInfI
	}
	if v < negInfI {
		v = negInfI
	}
	return v, true
}

// affOf gives the affine form of an integer SSA value.
func (bf *boundsFn) affOf(v ssa.Value) aff {
	if o, ok := bf.valOverride[v]; ok {
		return *o
	}
	v = bf.canon(v)
	if a, ok := bf.affMemo[v]; ok {
		return *a
	}
	a := bf.affOf1(v)
	bf.affMemo[v] = &a
	return a
}

func (bf *boundsFn) fits(a aff, t types.Type) bool {
	r := bf.rangeOfAff(a)
	tr := typeRange(t)
	return r.lo >= tr.lo && r.hi <= tr.hi
}

// fitsAt: as fits, using the branch facts of the block that computes the value
// (a counter below its loop bound cannot wrap when incremented there).
func (bf *boundsFn) fitsAt(a aff, t types.Type, v ssa.Value) bool {
	if bf.fits(a, t) {
		return true
	}
	ins, ok := v.(ssa.Instruction)
	if !ok || ins.Block() == nil {
		return false
	}
	r := bf.rangeInBlock(a, ins.Block())
	tr := typeRange(t)
	if r.lo >= tr.lo && r.hi <= tr.hi {
		return true
	}
	// combinations of block, global and passed-check facts
	if bf.inFits {
		return false
	}
	bf.inFits = true
	defer func() { bf.inFits = false }()
	lo := r.lo >= tr.lo || bf.proveAt(a.add(affConst(tr.lo), -1), ins.Block(), ins)
	hi := r.hi <= tr.hi || (tr.hi < posInfI && bf.proveAt(affConst(tr.hi).add(a, -1), ins.Block(), ins))
	return lo && hi
}

func (bf *boundsFn) affOf1(v ssa.Value) aff {
	switch x := v.(type) {
	case *ssa.Const:
		if k, ok := constInt64(x); ok {
			return affConst(k)
		}
		if x.Value != nil && x.Value.Kind() == constant.Bool {
			if constant.BoolVal(x.Value) {
				return affConst(1)
			}
			return affConst(0)
		}
	case *ssa.BinOp:
		if !isIntType(x.Type()) {
			break
		}
		switch x.Op {
		case token.ADD, token.SUB:
			s := int64(1)
			if x.Op == token.SUB {
				s = -1
			}
			r := bf.affOf(x.X).add(bf.affOf(x.Y), s)
			if bf.fitsAt(r, x.Type(), x) {
				return r
			}
			if x.Op == token.ADD && typeRange(x.Type()).lo == 0 && bf.rangeOfAff(r).lo >= 0 {
				// unsigned addition can only wrap downwards: result ≤ exact sum
				bf.global = append(bf.global, r.add(affAtom(ssa.Value(x)), -1))
			}
		case token.MUL:
			if k, ok := x.Y.(*ssa.Const); ok {
				if kv, ok := constInt64(k); ok {
					r := bf.affOf(x.X).scale(kv)
					if bf.fits(r, x.Type()) {
						return r
					}
				}
			}
			if k, ok := x.X.(*ssa.Const); ok {
				if kv, ok := constInt64(k); ok {
					r := bf.affOf(x.Y).scale(kv)
					if bf.fits(r, x.Type()) {
						return r
					}
				}
			}
		case token.SHL:
			if k, ok := x.Y.(*ssa.Const); ok {
				if kv, ok := constInt64(k); ok && kv >= 0 && kv < 62 {
					r := bf.affOf(x.X).scale(1 << uint(kv))
					if bf.fits(r, x.Type()) {
						return r
					}
				}
			}
		}
	case *ssa.Convert:
		if isIntType(x.Type()) && isIntType(x.X.Type()) {
			r := bf.affOf(x.X)
			if bf.fits(r, x.Type()) {
				return r
			}
			if typeRange(x.Type()).lo == 0 && bf.rangeOfAff(r).lo >= 0 {
				// truncating a non-negative value to an unsigned type can only
				// make it smaller: result ≤ operand
				bf.global = append(bf.global, r.add(affAtom(ssa.Value(x)), -1))
			}
		}
	case *ssa.ChangeType:
		if isIntType(x.Type()) {
			return bf.affOf(x.X)
		}
	case *ssa.Call:
		if isIntType(x.Type()) && !bf.noInline {
			if callee := x.Call.StaticCallee(); callee != nil && callee.Blocks != nil && bf.B.writeFree(callee) {
				if a, ok := bf.B.inlineAff(bf, callee, x.Call.Args, 0); ok {
					return a
				}
			}
		}
		if b, ok := x.Call.Value.(*ssa.Builtin); ok {
			switch b.Name() {
			case "len":
				return bf.lenAff(x.Call.Args[0])
			case "cap":
				// cap ≥ len; as an upper bound it is useless, as a value treat opaque
			case "copy":
				// copy returns min(len(dst), len(src)): an atom bounded by both
				if len(x.Call.Args) == 2 {
					n := affAtom(ssa.Value(x))
					bf.global = append(bf.global, n,
						bf.lenAff(x.Call.Args[0]).add(n, -1),
						bf.lenAff(x.Call.Args[1]).add(n, -1))
				}
			}
		}
	}
	return affAtom(v)
}

// lenAff gives the affine form of len(v) for a slice/string/array value.
func (bf *boundsFn) lenAff(v ssa.Value) aff {
	if o, ok := bf.lenOverride[v]; ok {
		return *o
	}
	v = bf.canon(v)
	if a, ok := bf.lenMemo[v]; ok {
		return *a
	}
	bf.lenMemo[v] = &aff{t: map[interface{}]int64{lenKey{v}: 1}} // cycle guard
	a := bf.lenAff1(v)
	bf.lenMemo[v] = &a
	return a
}

func arrayLen(t types.Type) (int64, bool) {
	if p, ok := t.Underlying().(*types.Pointer); ok {
		t = p.Elem()
	}
	if a, ok := t.Underlying().(*types.Array); ok {
		return a.Len(), true
	}
	return 0, false
}

func (bf *boundsFn) lenAff1(v ssa.Value) aff {
	if n, ok := arrayLen(v.Type()); ok {
		return affConst(n)
	}
	switch x := v.(type) {
	case *ssa.Const:
		if x.Value == nil {
			return affConst(0)
		}
		if x.Value.Kind() == constant.String {
			return affConst(int64(len(constant.StringVal(x.Value))))
		}
	case *ssa.Slice:
		var hi aff
		if x.High != nil {
			hi = bf.affOf(x.High)
		} else {
			hi = bf.lenAff(x.X)
		}
		if x.Low != nil {
			return hi.add(bf.affOf(x.Low), -1)
		}
		return hi
	case *ssa.MakeSlice:
		return bf.affOf(x.Len)
	case *ssa.ChangeType:
		return bf.lenAff(x.X)
	case *ssa.Convert:
		// string <-> []byte keep the length
		if _, ok := x.X.Type().Underlying().(*types.Slice); ok {
			return bf.lenAff(x.X)
		}
		if b, ok := x.X.Type().Underlying().(*types.Basic); ok && b.Info()&types.IsString != 0 {
			return bf.lenAff(x.X)
		}
	case *ssa.Call:
		if b, ok := x.Call.Value.(*ssa.Builtin); ok && b.Name() == "append" && len(x.Call.Args) == 2 {
			return bf.lenAff(x.Call.Args[0]).add(bf.lenAff(x.Call.Args[1]), 1)
		}
	}
	return affAtom(lenKey{v})
}

// rangeOfAff evaluates an affine form over the ranges of its atoms.
func (bf *boundsFn) rangeOfAff(a aff) ival {
	lo, hi := a.k, a.k
	for _, x := range a.sortedAtoms() {
		c := a.t[x]
		r := bf.rangeOfAtom(x)
		if c > 0 {
			lo = satAdd(lo, satMul(c, r.lo))
			hi = satAdd(hi, satMul(c, r.hi))
		} else {
			lo = satAdd(lo, satMul(c, r.hi))
			hi = satAdd(hi, satMul(c, r.lo))
		}
	}
	return ival{lo, hi}
}

func (bf *boundsFn) rangeOfAtom(x interface{}) ival {
	if r, ok := bf.rngMemo[x]; ok {
		return *r
	}
	if bf.inProg[x] {
		// a cycle is cut here with the type's range; whatever is computed on
		// top of this cut is not memoised (see below), so that a result never
		// depends on the order in which atoms were first asked for
		bf.cuts++
		if v, ok := x.(ssa.Value); ok {
			return typeRange(v.Type())
		}
		return ival{0, posInfI}
	}
	bf.inProg[x] = true
	before := bf.cuts
	r := bf.rangeOfAtom1(x)
	delete(bf.inProg, x)
	if bf.cuts == before || len(bf.inProg) == 0 {
		bf.rngMemo[x] = &r
	}
	return r
}

func meet(a, b ival) ival {
	if b.lo > a.lo {
		a.lo = b.lo
	}
	if b.hi < a.hi {
		a.hi = b.hi
	}
	return a
}

func (bf *boundsFn) rangeOfAtom1(x interface{}) ival {
	if sk, ok := x.(symKey); ok {
		if r, ok := bf.B.symRng[sk.name]; ok {
			return r
		}
		return ival{negInfI, posInfI}
	}
	if lk, ok := x.(lenKey); ok {
		r := ival{0, posInfI}
		// len of buf.Next(n) ≤ n is only an upper bound; nothing else known
		if phi, ok := lk.v.(*ssa.Phi); ok {
			// all incoming slices with known length ranges
			lo, hi := int64(posInfI), int64(0)
			for _, e := range phi.Edges {
				ea := bf.lenAff(e)
				if c, ok := ea.t[lenKey{ssa.Value(phi)}]; ok && c == 1 {
					// len grows monotonically around the loop (append): does not lower the minimum
					d := ea.add(affAtom(lenKey{ssa.Value(phi)}), -1)
					if bf.rangeOfAff(d).lo >= 0 {
						hi = posInfI
						continue
					}
				}
				er := bf.rangeOfAff(ea)
				if er.lo < lo {
					lo = er.lo
				}
				if er.hi > hi {
					hi = er.hi
				}
			}
			if lo < 0 {
				lo = 0
			}
			return ival{lo, hi}
		}
		// result of an internal function every return of which is a slice of
		// a fixed-size array: no longer than the array
		if hi, ok := bf.B.returnLenHi(lk.v); ok {
			r.hi = hi
		}
		return r
	}
	v := x.(ssa.Value)
	tr := typeRange(v.Type())
	switch y := v.(type) {
	case *ssa.BinOp:
		switch y.Op {
		case token.AND:
			for _, o := range []ssa.Value{y.X, y.Y} {
				if k, ok := o.(*ssa.Const); ok {
					if kv, ok := constInt64(k); ok && kv >= 0 {
						return meet(tr, ival{0, kv})
					}
				}
			}
			// x & y ≤ min for unsigned
			if tr.lo >= 0 {
				a, b := bf.rangeOfAff(bf.affOf(y.X)), bf.rangeOfAff(bf.affOf(y.Y))
				h := a.hi
				if b.hi < h {
					h = b.hi
				}
				return meet(tr, ival{0, h})
			}
		case token.SHR:
			if k, ok := y.Y.(*ssa.Const); ok {
				if kv, ok := constInt64(k); ok && kv >= 0 && kv < 63 {
					a := bf.rangeOfAff(bf.affOf(y.X))
					if a.lo >= 0 {
						return meet(tr, ival{a.lo >> uint(kv), a.hi >> uint(kv)})
					}
				}
			}
		case token.REM:
			if k, ok := y.Y.(*ssa.Const); ok {
				if kv, ok := constInt64(k); ok && kv > 0 {
					a := bf.rangeOfAff(bf.affOf(y.X))
					if a.lo >= 0 {
						return meet(tr, ival{0, kv - 1})
					}
					return meet(tr, ival{-(kv - 1), kv - 1})
				}
			}
		case token.QUO:
			if k, ok := y.Y.(*ssa.Const); ok {
				if kv, ok := constInt64(k); ok && kv > 0 {
					a := bf.rangeOfAff(bf.affOf(y.X))
					if a.lo >= 0 {
						return meet(tr, ival{a.lo / kv, a.hi / kv})
					}
				}
			}
		case token.OR, token.XOR:
			if tr.lo >= 0 {
				a, b := bf.rangeOfAff(bf.affOf(y.X)), bf.rangeOfAff(bf.affOf(y.Y))
				if a.lo >= 0 && b.lo >= 0 {
					// result < next power of two above max
					m := a.hi
					if b.hi > m {
						m = b.hi
					}
					p := int64(1)
					for p <= m && p < posInfI/2 {
						p <<= 1
					}
					return meet(tr, ival{0, p - 1})
				}
			}
		case token.ADD, token.SUB, token.MUL, token.SHL:
			// arithmetic that may wrap: whole type range
		}
	case *ssa.Convert:
		if isIntType(y.X.Type()) {
			a := bf.rangeOfAff(bf.affOf(y.X))
			if a.lo >= tr.lo && a.hi <= tr.hi {
				return a
			}
		}
	case *ssa.UnOp:
		// load of a struct field that is never negative (field invariant)
		if y.Op == token.MUL && tr.lo < 0 {
			if _, nf, ok := fieldOf(y.X); ok && bf.B.fieldNonNeg(nf) {
				return meet(tr, ival{0, posInfI})
			}
		}
	case *ssa.Phi:
		bf.phiRelFacts(y)
		lo, hi := int64(posInfI), int64(negInfI)
		for _, e := range y.Edges {
			ea := bf.affOf(e)
			// monotone self-update: phi + d
			if c, ok := ea.t[ssa.Value(y)]; ok && c == 1 {
				d := ea.add(affAtom(ssa.Value(y)), -1)
				dr := bf.rangeOfAff(d)
				if dr.lo >= 0 {
					// non-decreasing: does not lower lo; raises hi unboundedly
					if dr.hi > 0 {
						hi = posInfI
					}
					continue
				}
				if dr.hi <= 0 {
					if dr.lo < 0 {
						lo = negInfI
					}
					continue
				}
				lo, hi = negInfI, posInfI
				continue
			}
			er := bf.rangeOfAff(ea)
			if er.lo < lo {
				lo = er.lo
			}
			if er.hi > hi {
				hi = er.hi
			}
		}
		return meet(tr, ival{lo, hi})
	case *ssa.Call:
		switch calleeName(y) {
		case "(*bytes.Buffer).Len", "builtin:copy", "builtin:len", "builtin:cap", "(*bytes.Reader).Len":
			return meet(tr, ival{0, posInfI})
		}
		if callee := y.Call.StaticCallee(); callee != nil && callee.Blocks != nil {
			if r := bf.B.returnRange(callee); r != nil {
				return meet(tr, *r)
			}
		}
	case *ssa.Extract:
		// (n, err) results: counts from Read-like calls are ≥ 0? not assumed
	}
	return tr
}

// returnRange: interval of the single integer result of a gots function.
func (B *Bounds) returnRange(fn *ssa.Function) *ival {
	if r, ok := B.retRng[fn]; ok {
		return r
	}
	if B.retProg[fn] || fn.Signature.Results().Len() != 1 || !isIntType(fn.Signature.Results().At(0).Type()) {
		return nil
	}
	pk := fn.Pkg
	if pk == nil || !strings.HasPrefix(pk.Pkg.Path(), modPath) {
		return nil
	}
	B.retProg[fn] = true
	defer delete(B.retProg, fn)
	bf := B.of(fn)
	lo, hi := int64(posInfI), int64(negInfI)
	for _, b := range fn.Blocks {
		if ret, ok := b.Instrs[len(b.Instrs)-1].(*ssa.Return); ok {
			r := bf.rangeInBlock(bf.affOf(ret.Results[0]), b)
			if r.lo < lo {
				lo = r.lo
			}
			if r.hi > hi {
				hi = r.hi
			}
		}
	}
	res := meet(typeRange(fn.Signature.Results().At(0).Type()), ival{lo, hi})
	B.retRng[fn] = &res
	return &res
}

// ------------------------------------------------------------------ facts

// condFacts translates a boolean SSA value assumed `truth` into facts ≥ 0.
func (bf *boundsFn) condFacts(c ssa.Value, truth bool, depth int) []aff {
	if depth > 4 {
		return nil
	}
	switch x := c.(type) {
	case *ssa.UnOp:
		if x.Op == token.NOT {
			return bf.condFacts(x.X, !truth, depth+1)
		}
	case *ssa.BinOp:
		if !isIntType(x.X.Type()) {
			// err == nil after Peek(n): the returned slice has n bytes
			if (x.Op == token.EQL) == truth {
				if f, ok := bf.peekFact(x); ok {
					return []aff{f}
				}
			}
			return nil
		}
		a, b := bf.affOf(x.X), bf.affOf(x.Y)
		op := x.Op
		if !truth {
			switch op {
			case token.LSS:
				op = token.GEQ
			case token.LEQ:
				op = token.GTR
			case token.GTR:
				op = token.LEQ
			case token.GEQ:
				op = token.LSS
			case token.EQL:
				op = token.NEQ
			case token.NEQ:
				op = token.EQL
			}
		}
		switch op {
		case token.LSS: // a < b
			return []aff{b.add(a, -1).add(affConst(1), -1)}
		case token.LEQ:
			return []aff{b.add(a, -1)}
		case token.GTR:
			return []aff{a.add(b, -1).add(affConst(1), -1)}
		case token.GEQ:
			return []aff{a.add(b, -1)}
		case token.EQL:
			return []aff{a.add(b, -1), b.add(a, -1)}
		case token.NEQ:
			// x != c with x ≥ c  ⇒ x ≥ c+1 ; x ≤ c ⇒ x ≤ c-1
			d := a.add(b, -1)
			r := bf.rangeOfAff(d)
			if r.lo == 0 {
				return []aff{d.add(affConst(1), -1)}
			}
			if r.hi == 0 {
				return []aff{d.scale(-1).add(affConst(1), -1)}
			}
		}
	case *ssa.Call:
		// boolean helper whose body is a single comparison of its parameters
		if callee := x.Call.StaticCallee(); callee != nil && callee.Blocks != nil {
			var out []aff
			if bf.B.writeFree(callee) {
				c := bf.B.boolSym(bf, callee, x.Call.Args)
				if truth {
					out = append(out, c.add(affConst(1), -1)) // [c] ≥ 1
				} else {
					out = append(out, c.scale(-1)) // [c] ≤ 0
				}
			}
			return append(out, bf.B.helperFacts(bf, callee, x.Call.Args, truth, depth)...)
		}
	}
	return nil
}

// helperFacts: callee is `if C(params) { return k1 } return k2` with boolean
// constants; returns the facts implied by the call's result.
func (B *Bounds) helperFacts(caller *boundsFn, callee *ssa.Function, args []ssa.Value, truth bool, depth int) []aff {
	if len(callee.Blocks) > 4 || callee.Signature.Results().Len() != 1 {
		return nil
	}
	entry := callee.Blocks[0]
	// `return <comparison>`: the result *is* the comparison
	if ret, isRet := entry.Instrs[len(entry.Instrs)-1].(*ssa.Return); isRet && len(callee.Blocks) == 1 && len(ret.Results) == 1 {
		cbf := B.of(callee)
		var out []aff
		for _, f := range cbf.condFacts(ret.Results[0], truth, depth+1) {
			if g, ok := caller.substParams(f, callee, args); ok {
				out = append(out, g)
			}
		}
		return out
	}
	ifi, ok := entry.Instrs[len(entry.Instrs)-1].(*ssa.If)
	if !ok {
		return nil
	}
	retConst := func(b *ssa.BasicBlock) (bool, bool) {
		for len(b.Instrs) == 1 {
			if j, ok := b.Instrs[0].(*ssa.Jump); ok {
				_ = j
				b = b.Succs[0]
				continue
			}
			break
		}
		if len(b.Instrs) != 1 {
			return false, false
		}
		r, ok := b.Instrs[0].(*ssa.Return)
		if !ok || len(r.Results) != 1 {
			return false, false
		}
		k, ok := r.Results[0].(*ssa.Const)
		if !ok || k.Value == nil || k.Value.Kind() != constant.Bool {
			return false, false
		}
		return constant.BoolVal(k.Value), true
	}
	tv, ok1 := retConst(entry.Succs[0])
	fv, ok2 := retConst(entry.Succs[1])
	if !ok1 || !ok2 || tv == fv {
		return nil
	}
	// result == truth  ⇔  cond == (tv == truth)
	condTruth := tv == truth
	cbf := B.of(callee)
	fs := cbf.condFacts(ifi.Cond, condTruth, depth+1)
	// substitute parameters by arguments
	var out []aff
	for _, f := range fs {
		if g, ok := caller.substParams(f, callee, args); ok {
			out = append(out, g)
		}
	}
	return out
}

// substParams rewrites an affine form over callee parameters into the
// caller's terms; fails if it mentions anything else.
func (bf *boundsFn) substParams(f aff, callee *ssa.Function, args []ssa.Value) (aff, bool) {
	r := affConst(f.k)
	for _, x := range f.sortedAtoms() {
		c := f.t[x]
		var pv ssa.Value
		isLen := false
		switch k := x.(type) {
		case lenKey:
			pv, isLen = k.v, true
		case ssa.Value:
			pv = k
		}
		idx := -1
		for i, p := range callee.Params {
			if ssa.Value(p) == pv {
				idx = i
			}
		}
		if idx < 0 || idx >= len(args) {
			return aff{}, false
		}
		if isLen {
			r = r.add(bf.lenAff(args[idx]), c)
		} else {
			r = r.add(bf.affOf(args[idx]), c)
		}
	}
	return r, true
}

func (bf *boundsFn) computeFacts() {
	fn := bf.fn
	if fn.Blocks == nil {
		return
	}
	if !bf.bufWritten {
		bf.bufWritten = true
		bf.bufWriteFacts()
	}
	bf.runBlocks(rpoOrder(fn), map[*ssa.BasicBlock]bufState{}, map[*ssa.BasicBlock]bool{}, nil, 0)
}

// runBlocks computes block facts and the buffer typestate for the blocks of
// order (reverse post-order). fixed gives the in-state of a loop head under a
// hypothesis that is being verified.
func (bf *boundsFn) runBlocks(order []*ssa.BasicBlock, exit map[*ssa.BasicBlock]bufState, done map[*ssa.BasicBlock]bool, fixed map[*ssa.BasicBlock]bufState, depth int) {
	for _, b := range order {
		var fs []aff
		if d := b.Idom(); d != nil {
			fs = bf.facts[d]
		}
		if len(b.Preds) == 1 {
			p := b.Preds[0]
			if ifi, ok := p.Instrs[len(p.Instrs)-1].(*ssa.If); ok && p.Succs[0] != p.Succs[1] {
				fs = append(append([]aff(nil), fs...), bf.condFacts(ifi.Cond, p.Succs[0] == b, 0)...)
			}
		}
		if d := b.Idom(); d != nil && len(b.Preds) != 1 {
			// the dominator's branch decides: if b cannot be reached from one
			// successor of d without passing d again, the last execution of d
			// took the other edge
			if ifi, ok := d.Instrs[len(d.Instrs)-1].(*ssa.If); ok && d.Succs[0] != d.Succs[1] {
				r0, r1 := reachesAvoiding(d.Succs[0], b, d), reachesAvoiding(d.Succs[1], b, d)
				if r0 != r1 {
					fs = append(append([]aff(nil), fs...), bf.condFacts(ifi.Cond, r0, 0)...)
				}
			}
		}
		bf.facts[b] = fs
		// buffer typestate: join of predecessors (all must be known and equal)
		in := bufState{}
		if len(b.Preds) == 0 && b == bf.fn.Blocks[0] && depth == 0 {
			// a *bytes.Buffer parameter starts with an unknown number of unread
			// bytes that is at least what every caller is known to leave in it
			for i, p := range bf.fn.Params {
				if strings.HasSuffix(p.Type().String(), "*bytes.Buffer") {
					name := fmt.Sprintf("unread(%s)@entry of %s", sx(p), bf.fn)
					if _, ok := bf.B.symRng[name]; !ok {
						bf.B.symRng[name] = ival{bf.B.bufParamLower(bf.fn, i), posInfI}
					}
					a := affAtom(symKey{name})
					in[sx(p)] = &a
				}
			}
		}
		loopHead := false
		if len(b.Preds) > 0 {
			first := true
			for _, p := range b.Preds {
				if !done[p] {
					loopHead = true
					continue
				}
				if first {
					in = exit[p].clone()
					first = false
					continue
				}
				for k, v := range in {
					if !sameAff(v, exit[p][k]) {
						in[k] = nil
					}
				}
				for k := range exit[p] {
					if _, ok := in[k]; !ok {
						in[k] = nil
					}
				}
			}
		}
		if loopHead {
			if h, ok := fixed[b]; ok {
				in = h
			} else {
				// a loop head: the count survives only as a verified
				// hypothesis "entry count + m·(counter − its entry value)"
				in = bf.loopBufState(b, in, order, exit, done, depth)
			}
		}
		exit[b] = bf.bufTransfer(b, in)
		done[b] = true
	}
}

// loopBufState tries, for every buffer whose count is known on entry to the
// loop headed by h, the hypothesis that the count moves in lockstep with an
// integer loop counter, and keeps those that one abstract pass over the loop
// body confirms on every back edge.
func (bf *boundsFn) loopBufState(h *ssa.BasicBlock, entry bufState, order []*ssa.BasicBlock, exit map[*ssa.BasicBlock]bufState, done map[*ssa.BasicBlock]bool, depth int) bufState {
	out := bufState{}
	if depth > 2 {
		return out
	}
	// natural loop of h
	body := map[*ssa.BasicBlock]bool{h: true}
	var latches []*ssa.BasicBlock
	for _, p := range h.Preds {
		if !done[p] && h.Dominates(p) {
			latches = append(latches, p)
			stack := []*ssa.BasicBlock{p}
			for len(stack) > 0 {
				n := stack[len(stack)-1]
				stack = stack[:len(stack)-1]
				if body[n] {
					continue
				}
				body[n] = true
				stack = append(stack, n.Preds...)
			}
		}
	}
	if len(latches) == 0 {
		return out
	}
	var sub []*ssa.BasicBlock
	for _, b := range order {
		if body[b] {
			sub = append(sub, b)
		}
	}
	// per-iteration consumption candidates
	cands := map[int64]bool{1: true}
	var total int64
	for b := range body {
		for _, ins := range b.Instrs {
			if ci, ok := ins.(ssa.CallInstruction); ok {
				if _, m, ok := bufRecv(ci); ok && m == "Next" {
					if c, ok := ci.Common().Args[1].(*ssa.Const); ok {
						if k, ok := constInt64(c); ok && k > 0 && k < 1<<16 {
							cands[k] = true
							total += k
						}
					}
				}
			}
		}
	}
	if total > 0 {
		cands[total] = true
	}
	var ks []int64
	for k := range cands {
		ks = append(ks, k)
	}
	sort.Slice(ks, func(i, j int) bool { return ks[i] < ks[j] })
	type hyp struct {
		phi *ssa.Phi
		m   int64
	}
	var entryKeys []string
	for key := range entry {
		entryKeys = append(entryKeys, key)
	}
	sort.Strings(entryKeys)
	for _, key := range entryKeys {
		r0 := entry[key]
		if r0 == nil {
			continue
		}
		var found *aff
		for _, ins := range h.Instrs {
			phi, ok := ins.(*ssa.Phi)
			if !ok {
				break
			}
			if !isIntType(phi.Type()) || found != nil {
				continue
			}
			// entry value of the counter
			var c0 *aff
			okPhi := true
			for i, p := range h.Preds {
				if done[p] {
					a := bf.affOf(phi.Edges[i])
					if c0 != nil && !sameAff(c0, &a) {
						okPhi = false
					}
					c0 = &a
				}
			}
			if !okPhi || c0 == nil {
				continue
			}
			for _, k := range ks {
				for _, m := range []int64{k, -k} {
					if found != nil {
						break
					}
					H := r0.add(affAtom(ssa.Value(phi)), m).add(*c0, -m)
					snap := bf.snapshot()
					ex2 := map[*ssa.BasicBlock]bufState{}
					dn2 := map[*ssa.BasicBlock]bool{}
					for b, v := range exit {
						ex2[b] = v
					}
					for b, v := range done {
						dn2[b] = v
					}
					bf.runBlocks(sub, ex2, dn2, map[*ssa.BasicBlock]bufState{h: {key: &H}}, depth+1)
					good := true
					for _, l := range latches {
						got := ex2[l][key]
						idx := -1
						for i, p := range h.Preds {
							if p == l {
								idx = i
							}
						}
						if got == nil || idx < 0 {
							good = false
							break
						}
						next := bf.affOf(phi.Edges[idx])
						want := H.add(next, m).add(affAtom(ssa.Value(phi)), -m)
						if !sameAff(got, &want) {
							good = false
							break
						}
					}
					if os.Getenv("BUFDEBUG") != "" {
						var l0 *aff
						if len(latches) > 0 {
							l0 = ex2[latches[0]][key]
						}
						ls := "<nil>"
						if l0 != nil {
							ls = bf.affString(*l0)
						}
						fmt.Fprintf(os.Stderr, "BUF %s head %d key %s phi %s m=%d H=%s latch=%s good=%v\n", bf.fn.Name(), h.Index, key, sx(phi), m, bf.affString(H), ls, good)
					}
					bf.restore(snap)
					if good {
						found = &H
					}
				}
			}
		}
		out[key] = found
	}
	return out
}

// reachesAvoiding: to is reachable from from (possibly equal) on a path that
// does not pass through avoid.
func reachesAvoiding(from, to, avoid *ssa.BasicBlock) bool {
	seen := map[*ssa.BasicBlock]bool{avoid: true}
	stack := []*ssa.BasicBlock{from}
	for len(stack) > 0 {
		n := stack[len(stack)-1]
		stack = stack[:len(stack)-1]
		if seen[n] {
			continue
		}
		seen[n] = true
		if n == to {
			return true
		}
		stack = append(stack, n.Succs...)
	}
	return false
}

type bfSnap struct {
	affMemo, lenMemo, valOverride, lenOverride map[ssa.Value]*aff
	rngMemo                                    map[interface{}]*ival
	facts                                      map[*ssa.BasicBlock][]aff
	canonMemo                                  map[ssa.Value]ssa.Value
	phiDone                                    map[*ssa.Phi]bool
	passed                                     map[*ssa.BasicBlock][]passedCheck
	global                                     []aff
}

func copyAffMap(m map[ssa.Value]*aff) map[ssa.Value]*aff {
	n := make(map[ssa.Value]*aff, len(m))
	for k, v := range m {
		n[k] = v
	}
	return n
}

func (bf *boundsFn) snapshot() *bfSnap {
	s := &bfSnap{affMemo: copyAffMap(bf.affMemo), lenMemo: copyAffMap(bf.lenMemo), valOverride: copyAffMap(bf.valOverride), lenOverride: copyAffMap(bf.lenOverride),
		rngMemo: map[interface{}]*ival{}, facts: map[*ssa.BasicBlock][]aff{}, canonMemo: map[ssa.Value]ssa.Value{}, global: append([]aff(nil), bf.global...)}
	for k, v := range bf.rngMemo {
		s.rngMemo[k] = v
	}
	for k, v := range bf.facts {
		s.facts[k] = v
	}
	for k, v := range bf.canonMemo {
		s.canonMemo[k] = v
	}
	if bf.phiDone != nil {
		s.phiDone = map[*ssa.Phi]bool{}
		for k, v := range bf.phiDone {
			s.phiDone[k] = v
		}
	}
	if bf.passed != nil {
		s.passed = map[*ssa.BasicBlock][]passedCheck{}
		for k, v := range bf.passed {
			s.passed[k] = v
		}
	}
	return s
}

func (bf *boundsFn) restore(s *bfSnap) {
	bf.affMemo, bf.lenMemo, bf.valOverride, bf.lenOverride = s.affMemo, s.lenMemo, s.valOverride, s.lenOverride
	bf.rngMemo, bf.facts, bf.canonMemo, bf.global = s.rngMemo, s.facts, s.canonMemo, s.global
	bf.phiDone, bf.passed = s.phiDone, s.passed
}

// prove tries to show e ≥ 0 in block b.
func (bf *boundsFn) prove(e aff, b *ssa.BasicBlock) bool {
	return bf.proveAt(e, b, nil)
}

// proveAt proves e ≥ 0 just before instruction at (nil: anywhere in b), also
// using the bounds checks of dominating instructions as facts: execution only
// reaches this point if they did not panic.
func (bf *boundsFn) proveAt(e aff, b *ssa.BasicBlock, at ssa.Instruction) bool {
	if bf.rangeOfAff(e).lo >= 0 {
		return true
	}
	fs := append([]aff(nil), bf.facts[b]...)
	fs = append(fs, bf.global...)
	if bf.passed != nil {
		for d := b; d != nil; d = d.Idom() {
			for _, p := range bf.passed[d] {
				if d == b && at != nil && !instrBefore(p.ins, at) {
					continue
				}
				if d == b && at == nil {
					continue
				}
				fs = append(fs, p.e)
			}
		}
	}
	// postconditions of calls that dominate this point: usable once their
	// condition follows from the facts collected so far
	if len(bf.B.posts) > 0 && !bf.inCond {
		bf.inCond = true
		for _, cf := range bf.condFactsAt(b, at) {
			if bf.impliedBy(cf.cond, fs) {
				fs = append(fs, cf.fact)
			}
		}
		bf.inCond = false
	}
	for _, f := range fs {
		if bf.rangeOfAff(e.add(f, -1)).lo >= 0 {
			return true
		}
	}
	for i, f := range fs {
		for _, g := range fs[i:] {
			if bf.rangeOfAff(e.add(f, -1).add(g, -1)).lo >= 0 {
				return true
			}
		}
	}
	// scaled single facts (e.g. 4*i ≤ … from i ≤ …)
	for _, f := range fs {
		for _, s := range []int64{2, 3, 4, 5, 6, 8} {
			if bf.rangeOfAff(e.add(f, -s)).lo >= 0 {
				return true
			}
		}
	}
	return bf.proveFM(e, fs) || bf.proveByCongruence(e, b, at) || bf.proveByInduction(e)
}

// proveFM: Fourier–Motzkin refutation of e ≤ −1 from the facts that share
// atoms with e (transitively) and the finite type/range bounds of those atoms.
func (bf *boundsFn) proveFM(e aff, fs []aff) bool {
	rel := map[interface{}]bool{}
	for x := range e.t {
		rel[x] = true
	}
	used := make([]bool, len(fs))
	var cs []aff
	for changed, rounds := true, 0; changed && rounds < 4; rounds++ {
		changed = false
		for i, f := range fs {
			if used[i] || len(f.t) == 0 {
				continue
			}
			share := false
			for x := range f.t {
				if rel[x] {
					share = true
				}
			}
			if !share {
				continue
			}
			used[i] = true
			changed = true
			cs = append(cs, f)
			for x := range f.t {
				rel[x] = true
			}
			if len(cs) > 28 {
				return false
			}
		}
	}
	if len(cs) == 0 || len(rel) > 14 {
		return false
	}
	var atoms []interface{}
	for x := range rel {
		atoms = append(atoms, x)
	}
	sort.Slice(atoms, func(i, j int) bool { return atomOrderKey(atoms[i]) < atomOrderKey(atoms[j]) })
	for _, x := range atoms {
		r := bf.rangeOfAtom(x)
		if r.lo > negInfI/2 {
			cs = append(cs, affAtom(x).add(affConst(r.lo), -1))
		}
		if r.hi < posInfI/2 {
			cs = append(cs, affConst(r.hi).add(affAtom(x), -1))
		}
	}
	return fmProve(cs, e)
}

// impliedBy: e ≥ 0 follows from at most two of the facts fs.
func (bf *boundsFn) impliedBy(e aff, fs []aff) bool {
	if bf.rangeOfAff(e).lo >= 0 {
		return true
	}
	for i, f := range fs {
		if bf.rangeOfAff(e.add(f, -1)).lo >= 0 {
			return true
		}
		for _, g := range fs[i:] {
			if bf.rangeOfAff(e.add(f, -1).add(g, -1)).lo >= 0 {
				return true
			}
		}
	}
	return false
}

// condFactsAt instantiates the proved postconditions for every call of such a
// function that dominates the point.
func (bf *boundsFn) condFactsAt(b *ssa.BasicBlock, at ssa.Instruction) []condFact {
	var out []condFact
	for d := b; d != nil; d = d.Idom() {
		for _, ins := range d.Instrs {
			c, ok := ins.(*ssa.Call)
			if !ok {
				continue
			}
			callee := c.Call.StaticCallee()
			pc, has := bf.B.posts[callee]
			if !has {
				continue
			}
			if d == b && at != nil && !instrBefore(c, at) {
				continue
			}
			out = append(out, pc.inst(bf, c))
		}
	}
	return out
}

func (bf *boundsFn) affString(a aff) string {
	var parts []string
	for x, c := range a.t {
		var n string
		switch k := x.(type) {
		case lenKey:
			n = "len(" + sx(k.v) + ")"
		case symKey:
			n = k.name
		case ssa.Value:
			n = sx(k)
		}
		if c == 1 {
			parts = append(parts, n)
		} else {
			parts = append(parts, fmt.Sprintf("%d*%s", c, n))
		}
	}
	sort.Strings(parts)
	if a.k != 0 || len(parts) == 0 {
		parts = append(parts, fmt.Sprint(a.k))
	}
	return strings.Join(parts, " + ")
}

// inlineAff expresses the integer result of a write-free, loop-free callee
// with a single return as an affine form in the caller's terms. Calls inside
// the callee become symbolic atoms named by callee and caller-side argument
// expressions.
func (B *Bounds) inlineAff(caller *boundsFn, callee *ssa.Function, args []ssa.Value, depth int) (aff, bool) {
	if depth > 5 || callee.Signature.Results().Len() != 1 {
		return aff{}, false
	}
	var ret *ssa.Return
	for _, b := range callee.Blocks {
		if r, ok := b.Instrs[len(b.Instrs)-1].(*ssa.Return); ok {
			if ret != nil {
				ret = nil
				break
			}
			ret = r
		}
	}
	argName := func(v ssa.Value) (string, bool) {
		switch a := v.(type) {
		case *ssa.Parameter:
			for i, p := range callee.Params {
				if p == a && i < len(args) {
					return sx(caller.canon(args[i])), true
				}
			}
		case *ssa.Const:
			return sx(a), true
		}
		return "", false
	}
	if a, ok := B.condConstAff(caller, callee, args, depth); ok {
		return a, true
	}
	if ret == nil || len(callee.Blocks) > 1 {
		// several returns (or branches): a symbolic atom with the callee's
		// return range, keyed by callee and arguments
		r := B.returnRange(callee)
		if r == nil {
			return aff{}, false
		}
		var names []string
		for i := range callee.Params {
			if i >= len(args) {
				return aff{}, false
			}
			names = append(names, sx(caller.canon(args[i])))
		}
		k := callee.String() + "(" + strings.Join(names, ",") + ")"
		B.symRng[k] = *r
		return affAtom(symKey{k}), true
	}
	cbf := B.rawOf(callee)
	ra := cbf.affOf(ret.Results[0])
	out := affConst(ra.k)
	for _, x := range ra.sortedAtoms() {
		c := ra.t[x]
		switch k := x.(type) {
		case symKey:
			return aff{}, false
		case lenKey:
			p, ok := k.v.(*ssa.Parameter)
			if !ok {
				return aff{}, false
			}
			idx := -1
			for i, q := range callee.Params {
				if q == p {
					idx = i
				}
			}
			if idx < 0 || idx >= len(args) {
				return aff{}, false
			}
			out = out.add(caller.lenAff(args[idx]), c)
		case ssa.Value:
			switch v := k.(type) {
			case *ssa.Parameter:
				idx := -1
				for i, q := range callee.Params {
					if q == v {
						idx = i
					}
				}
				if idx < 0 || idx >= len(args) {
					return aff{}, false
				}
				out = out.add(caller.affOf(args[idx]), c)
			case *ssa.Call:
				inner := v.Call.StaticCallee()
				if inner == nil || !B.writeFree(inner) || !isIntType(v.Type()) {
					return aff{}, false
				}
				// arguments of the inner call: callee params/consts are
				// translated to the caller's values; an argument that is itself
				// a write-free call of params is translated to its affine form,
				// which can only name a symbolic result atom (no value exists
				// for it in the caller)
				var cargs []ssa.Value
				var names []string
				allValues := true
				for _, a := range v.Call.Args {
					switch av := a.(type) {
					case *ssa.Parameter:
						idx := -1
						for i, q := range callee.Params {
							if q == av {
								idx = i
							}
						}
						if idx < 0 || idx >= len(args) {
							return aff{}, false
						}
						cargs = append(cargs, args[idx])
						names = append(names, sx(caller.canon(args[idx])))
					case *ssa.Const:
						cargs = append(cargs, av)
						names = append(names, sx(av))
					case *ssa.Call:
						ac := av.Call.StaticCallee()
						if ac == nil || av.Call.IsInvoke() || !B.writeFree(ac) {
							return aff{}, false
						}
						var aargs []ssa.Value
						for _, aa := range av.Call.Args {
							switch x := aa.(type) {
							case *ssa.Parameter:
								idx := -1
								for i, q := range callee.Params {
									if q == x {
										idx = i
									}
								}
								if idx < 0 || idx >= len(args) {
									return aff{}, false
								}
								aargs = append(aargs, args[idx])
							case *ssa.Const:
								aargs = append(aargs, x)
							default:
								return aff{}, false
							}
						}
						var aa aff
						if isIntType(av.Type()) {
							var ok bool
							if aa, ok = B.inlineAff(caller, ac, aargs, depth+1); !ok {
								return aff{}, false
							}
						} else {
							aa = B.boolSym(caller, ac, aargs)
						}
						allValues = false
						names = append(names, caller.affString(aa))
					default:
						return aff{}, false
					}
				}
				if !allValues {
					r := B.returnRange(inner)
					if r == nil {
						return aff{}, false
					}
					k := inner.String() + "(" + strings.Join(names, ",") + ")"
					B.symRng[k] = *r
					out = out.add(affAtom(symKey{k}), c)
					continue
				}
				ia, ok := B.inlineAff(caller, inner, cargs, depth+1)
				if !ok {
					return aff{}, false
				}
				out = out.add(ia, c)
			default:
				_ = argName
				return aff{}, false
			}
		}
	}
	return out, true
}

// peekFact: for `err == nil` where err is the error of b, err := r.Peek(n)
// (contract: Peek returns n bytes or a non-nil error), len(b) - n ≥ 0.
func (bf *boundsFn) peekFact(cmp *ssa.BinOp) (aff, bool) {
	var ex *ssa.Extract
	for _, o := range []ssa.Value{cmp.X, cmp.Y} {
		if e, ok := o.(*ssa.Extract); ok && e.Index == 1 {
			ex = e
		}
	}
	other := cmp.Y
	if ex != nil && cmp.Y == ssa.Value(ex) {
		other = cmp.X
	}
	if ex == nil {
		return aff{}, false
	}
	if k, ok := other.(*ssa.Const); !ok || k.Value != nil {
		return aff{}, false
	}
	call, ok := ex.Tuple.(*ssa.Call)
	if !ok || len(call.Call.Args) < 1 {
		return aff{}, false
	}
	name := calleeName(call)
	if !(strings.HasSuffix(name, ".Peek") || strings.HasSuffix(name, ").Peek")) {
		return aff{}, false
	}
	n := call.Call.Args[len(call.Call.Args)-1]
	for _, ref := range *call.Referrers() {
		if e0, ok := ref.(*ssa.Extract); ok && e0.Index == 0 {
			return bf.lenAff(e0).add(bf.affOf(n), -1), true
		}
	}
	return aff{}, false
}

// rangeInBlock refines the interval of a with the branch facts of block b:
// for a fact f ≥ 0, a ≤ a+f and a ≥ a-f.
func (bf *boundsFn) rangeInBlock(a aff, b *ssa.BasicBlock) ival {
	r := bf.rangeOfAff(a)
	for _, f := range bf.facts[b] {
		if h := bf.rangeOfAff(a.add(f, 1)).hi; h < r.hi {
			r.hi = h
		}
		if l := bf.rangeOfAff(a.add(f, -1)).lo; l > r.lo {
			r.lo = l
		}
	}
	return r
}

// boolSym names the result of a write-free boolean call in caller terms.
func (B *Bounds) boolSym(caller *boundsFn, callee *ssa.Function, args []ssa.Value) aff {
	var names []string
	for _, a := range args {
		names = append(names, sx(caller.canon(a)))
	}
	k := callee.String() + "(" + strings.Join(names, ",") + ")"
	B.symRng[k] = ival{0, 1}
	return affAtom(symKey{k})
}

// condConstAff: callee is `if c(params) { return K1 }; return K2` with c a
// write-free boolean call on the callee's parameters: K2 + (K1-K2)*[c].
func (B *Bounds) condConstAff(caller *boundsFn, callee *ssa.Function, args []ssa.Value, depth int) (aff, bool) {
	if len(callee.Blocks) < 2 || len(callee.Blocks) > 4 {
		return aff{}, false
	}
	entry := callee.Blocks[0]
	ifi, ok := entry.Instrs[len(entry.Instrs)-1].(*ssa.If)
	if !ok {
		return aff{}, false
	}
	neg := false
	cond := ifi.Cond
	for {
		if u, ok := cond.(*ssa.UnOp); ok && u.Op == token.NOT {
			neg = !neg
			cond = u.X
			continue
		}
		break
	}
	call, ok := cond.(*ssa.Call)
	if !ok {
		return aff{}, false
	}
	inner := call.Call.StaticCallee()
	if inner == nil || !B.writeFree(inner) {
		return aff{}, false
	}
	var cargs []ssa.Value
	for _, a := range call.Call.Args {
		switch av := a.(type) {
		case *ssa.Parameter:
			idx := -1
			for i, q := range callee.Params {
				if q == av {
					idx = i
				}
			}
			if idx < 0 || idx >= len(args) {
				return aff{}, false
			}
			cargs = append(cargs, args[idx])
		case *ssa.Const:
			cargs = append(cargs, av)
		default:
			return aff{}, false
		}
	}
	retK := func(b *ssa.BasicBlock) (int64, bool) {
		for len(b.Instrs) == 1 {
			if _, ok := b.Instrs[0].(*ssa.Jump); ok {
				b = b.Succs[0]
				continue
			}
			break
		}
		if len(b.Instrs) != 1 {
			return 0, false
		}
		r, ok := b.Instrs[0].(*ssa.Return)
		if !ok || len(r.Results) != 1 {
			return 0, false
		}
		k, ok := r.Results[0].(*ssa.Const)
		if !ok {
			return 0, false
		}
		return constInt64(k)
	}
	k1, ok1 := retK(entry.Succs[0])
	k2, ok2 := retK(entry.Succs[1])
	if !ok1 || !ok2 {
		return aff{}, false
	}
	if neg {
		k1, k2 = k2, k1
	}
	c := B.boolSym(caller, inner, cargs)
	return affConst(k2).add(c.scale(k1-k2), 1), true
}

// phiRelFacts: for a loop variable that only moves one way (every back-edge
// value is phi + d with d ≥ 0, or d ≤ 0) and has a single initial value, the
// relation  phi ≥ init  (resp. phi ≤ init) holds wherever phi is defined.
func (bf *boundsFn) phiRelFacts(phi *ssa.Phi) {
	if bf.phiDone == nil {
		bf.phiDone = map[*ssa.Phi]bool{}
	}
	if bf.phiDone[phi] {
		return
	}
	bf.phiDone[phi] = true
	var inits []aff
	dir := 0
	for _, e := range phi.Edges {
		ea := bf.affOf(e)
		if c, ok := ea.t[ssa.Value(phi)]; ok && c == 1 {
			d := bf.rangeOfAff(ea.add(affAtom(ssa.Value(phi)), -1))
			switch {
			case d.lo >= 0 && dir >= 0:
				dir = 1
			case d.hi <= 0 && dir <= 0:
				dir = -1
			default:
				return
			}
			continue
		}
		if _, self := ea.t[ssa.Value(phi)]; self {
			return
		}
		inits = append(inits, ea)
	}
	if dir == 0 || len(inits) != 1 {
		return
	}
	if dir == 1 {
		bf.global = append(bf.global, affAtom(ssa.Value(phi)).add(inits[0], -1)) // phi - init ≥ 0
	} else {
		bf.global = append(bf.global, inits[0].add(affAtom(ssa.Value(phi)), -1)) // init - phi ≥ 0
	}
	bf.lockstepFacts(phi)
}

// constStep: phi = φ(init, phi + c) with the same constant c ≠ 0 on every
// back edge and one initial value.
func (bf *boundsFn) constStep(phi *ssa.Phi) (init aff, step int64, ok bool) {
	var inits []aff
	have := false
	for _, e := range phi.Edges {
		ea := bf.affOf(e)
		if c, has := ea.t[ssa.Value(phi)]; has && c == 1 {
			d := ea.add(affAtom(ssa.Value(phi)), -1)
			if !d.isConst() || d.k == 0 || (have && d.k != step) {
				return aff{}, 0, false
			}
			step, have = d.k, true
			continue
		}
		if _, self := ea.t[ssa.Value(phi)]; self {
			return aff{}, 0, false
		}
		inits = append(inits, ea)
	}
	if !have || len(inits) != 1 {
		return aff{}, 0, false
	}
	return inits[0], step, true
}

// lockstepFacts: two counters of the same loop head that both move by a
// constant on every iteration stay on a line:
// step2·(phi1 − init1) = step1·(phi2 − init2). The second counter may also be
// the length of a slice that gains one element per iteration (append).
func (bf *boundsFn) lockstepFacts(phi *ssa.Phi) {
	i1, s1, ok := bf.constStep(phi)
	if !ok {
		return
	}
	for _, ins := range phi.Block().Instrs {
		other, isPhi := ins.(*ssa.Phi)
		if !isPhi {
			break
		}
		if other == phi {
			continue
		}
		var atom2 aff
		var i2 aff
		var s2 int64
		switch {
		case isIntType(other.Type()):
			i2, s2, ok = bf.constStep(other)
			atom2 = affAtom(ssa.Value(other))
		default:
			if _, isSlice := other.Type().Underlying().(*types.Slice); !isSlice {
				continue
			}
			i2, s2, ok = bf.constLenStep(other)
			atom2 = affAtom(lenKey{ssa.Value(other)})
		}
		if !ok {
			continue
		}
		d := affAtom(ssa.Value(phi)).add(i1, -1).scale(s2).add(atom2.add(i2, -1).scale(s1), -1)
		bf.global = append(bf.global, d, d.scale(-1))
	}
}

// constLenStep: the slice phi = φ(init, append(phi, …)/phi[k:]) changes its
// length by the same constant c ≠ 0 on every back edge and has one initial
// value.
func (bf *boundsFn) constLenStep(phi *ssa.Phi) (init aff, step int64, ok bool) {
	self := lenKey{ssa.Value(phi)}
	var inits []aff
	have := false
	for _, e := range phi.Edges {
		ea := bf.lenAff(e)
		if c, has := ea.t[self]; has && c == 1 {
			d := ea.add(affAtom(self), -1)
			if !d.isConst() || d.k == 0 || (have && d.k != step) {
				return aff{}, 0, false
			}
			step, have = d.k, true
			continue
		}
		if _, has := ea.t[self]; has {
			return aff{}, 0, false
		}
		inits = append(inits, ea)
	}
	if !have || len(inits) != 1 {
		return aff{}, 0, false
	}
	return inits[0], step, true
}

// returnLenHi: v is (a result of) a static call whose callee returns, at that
// position, only nil or slices of arrays (or of pointers to arrays) of a fixed
// size; the largest such size bounds len(v).
func (B *Bounds) returnLenHi(v ssa.Value) (int64, bool) {
	idx := 0
	var call *ssa.Call
	switch x := v.(type) {
	case *ssa.Extract:
		call, _ = x.Tuple.(*ssa.Call)
		idx = x.Index
	case *ssa.Call:
		call = x
	}
	if call == nil || call.Call.IsInvoke() {
		return 0, false
	}
	callee := call.Call.StaticCallee()
	if callee == nil || callee.Blocks == nil {
		return 0, false
	}
	hi, n := int64(0), 0
	for _, b := range callee.Blocks {
		ret, ok := b.Instrs[len(b.Instrs)-1].(*ssa.Return)
		if !ok {
			continue
		}
		if idx >= len(ret.Results) {
			return 0, false
		}
		n++
		switch r := ret.Results[idx].(type) {
		case *ssa.Const:
			if r.Value != nil {
				return 0, false
			}
		case *ssa.Slice:
			k, ok := arrayLen(r.X.Type())
			if !ok {
				return 0, false
			}
			if k > hi {
				hi = k
			}
		default:
			return 0, false
		}
	}
	return hi, n > 0
}

// fieldNonNeg: the integer field nf of a library struct is never negative —
// every store to it anywhere in the library stores a value that is provably
// ≥ 0 under the hypothesis that loads of the field are (induction over the
// execution; the zero value is 0), the struct is never overwritten as a whole
// and the address of the field is only used for loads and stores.
func (B *Bounds) fieldNonNeg(nf nilField) bool {
	key := nf.String()
	if B.nonNeg == nil {
		B.nonNeg = map[string]int{}
	}
	switch B.nonNeg[key] {
	case 1, 3:
		return true // proved, or the hypothesis while it is being checked
	case 2:
		return false
	}
	B.nonNeg[key] = 3
	ok := true
	n := 0
	for _, fn := range B.P.LibFuncs(false) {
		if !ok {
			break
		}
		for _, b := range fn.Blocks {
			for _, ins := range b.Instrs {
				// whole-struct overwrite
				if st, isStore := ins.(*ssa.Store); isStore {
					if pt, isPtr := st.Addr.Type().Underlying().(*types.Pointer); isPtr && types.Identical(pt.Elem(), nf.T) {
						ok = false
					}
				}
				fa, isFA := ins.(*ssa.FieldAddr)
				if !isFA {
					continue
				}
				if _, f, isF := fieldOf(fa); !isF || f.F != nf.F || !types.Identical(f.T, nf.T) {
					continue
				}
				if fa.Referrers() == nil {
					continue
				}
				for _, r := range *fa.Referrers() {
					switch u := r.(type) {
					case *ssa.UnOp:
						if u.Op != token.MUL {
							ok = false
						}
					case *ssa.Store:
						if u.Addr != ssa.Value(fa) {
							ok = false // the address itself is stored somewhere
							break
						}
						n++
						bf := B.of(fn)
						if !bf.proveAt(bf.affOf(u.Val), u.Block(), u) {
							ok = false
						}
					case *ssa.DebugRef:
					default:
						ok = false
					}
				}
			}
		}
	}
	if ok {
		B.nonNeg[key] = 1
	} else {
		B.nonNeg[key] = 2
		// ranges computed under the refuted hypothesis must not survive
		for _, bf := range B.fns {
			bf.rngMemo = map[interface{}]*ival{}
		}
	}
	return ok
}
