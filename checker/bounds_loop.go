package main

// Loop termination patterns (C05 "never loops forever"). Every natural loop
// of the functions in scope must match one of the variant patterns below;
// anything else is reported. The patterns are the ones this repository uses,
// confirmed by reading each loop.

import (
	"fmt"
	"go/token"
	"go/types"
	"sort"
	"strings"

	"golang.org/x/tools/go/ssa"
)

type loopInfo struct {
	header *ssa.BasicBlock
	body   map[*ssa.BasicBlock]bool
	latch  []*ssa.BasicBlock
}

func findLoopsSSA(fn *ssa.Function) []*loopInfo {
	byHeader := map[*ssa.BasicBlock]*loopInfo{}
	var order []*loopInfo
	for _, b := range fn.Blocks {
		for _, s := range b.Succs {
			if s.Dominates(b) {
				li := byHeader[s]
				if li == nil {
					li = &loopInfo{header: s, body: map[*ssa.BasicBlock]bool{s: true}}
					byHeader[s] = li
					order = append(order, li)
				}
				li.latch = append(li.latch, b)
				stack := []*ssa.BasicBlock{b}
				for len(stack) > 0 {
					x := stack[len(stack)-1]
					stack = stack[:len(stack)-1]
					if li.body[x] {
						continue
					}
					li.body[x] = true
					stack = append(stack, x.Preds...)
				}
			}
		}
	}
	return order
}

var consumingCalls = []string{"io.ReadFull", "io.ReadAtLeast", ".ReadByte", ".Read(", ".Next", "(*bufio.Reader).Peek"}

// classifyLoop returns the name of the matching variant pattern or "".
func (bf *boundsFn) classifyLoop(li *loopInfo) (string, string) {
	H := li.header
	// T5: range over map / string
	for b := range li.body {
		for _, ins := range b.Instrs {
			if _, ok := ins.(*ssa.Next); ok && b == H {
				return "range over map/string", ""
			}
		}
	}
	// exit tests: If terminators in the loop with a successor outside
	type exitTest struct {
		blk    *ssa.BasicBlock
		cond   ssa.Value
		stayOn bool // loop continues when cond == stayOn
	}
	var exits []exitTest
	for b := range li.body {
		ifi, ok := b.Instrs[len(b.Instrs)-1].(*ssa.If)
		if !ok {
			continue
		}
		in0, in1 := li.body[b.Succs[0]], li.body[b.Succs[1]]
		if in0 != in1 {
			exits = append(exits, exitTest{b, ifi.Cond, in0})
		}
	}
	dominatesLatches := func(b *ssa.BasicBlock) bool {
		for _, l := range li.latch {
			if !b.Dominates(l) {
				return false
			}
		}
		return true
	}
	// the exit tests in a fixed order (block index), whatever the map order was
	sort.Slice(exits, func(i, j int) bool { return exits[i].blk.Index < exits[j].blk.Index })
	wrapWhy := ""
	// T1/T2: counters
	for _, ins := range H.Instrs {
		phi, ok := ins.(*ssa.Phi)
		if !ok {
			break
		}
		if !isIntType(phi.Type()) {
			continue
		}
		dir := 0
		okStep := true
		var stepHi int64
		for i, e := range phi.Edges {
			if !li.body[H.Preds[i]] {
				continue
			}
			r, ok := bf.incrementOf(e, phi, 0)
			if !ok {
				okStep = false
				break
			}
			switch {
			case r.lo >= 1 && dir >= 0:
				dir = 1
				if r.hi > stepHi {
					stepHi = r.hi
				}
			case r.hi <= -1 && dir <= 0:
				dir = -1
				if -r.lo > stepHi {
					stepHi = -r.lo
				}
			default:
				okStep = false
			}
			if !okStep {
				break
			}
		}
		if !okStep || dir == 0 {
			continue
		}
		tr := typeRange(phi.Type())
		for _, ex := range exits {
			if !dominatesLatches(ex.blk) {
				continue
			}
			bo, ok := ex.cond.(*ssa.BinOp)
			if !ok || !isIntType(bo.X.Type()) {
				continue
			}
			a, b := bf.affOf(bo.X), bf.affOf(bo.Y)
			op := bo.Op
			if !ex.stayOn {
				op = negCmp(op)
			}
			// normalise to: stay while  L < R  /  L <= R
			var L, R aff
			strict := op == token.LSS || op == token.GTR
			switch op {
			case token.LSS, token.LEQ:
				L, R = a, b
			case token.GTR, token.GEQ:
				L, R = b, a
			case token.NEQ:
				// i != B with unit step towards a constant B
				if stepHi == 1 {
					return "counter (!= with unit step)", ""
				}
				continue
			default:
				continue
			}
			cl, lHas := L.t[ssa.Value(phi)]
			cr, rHas := R.t[ssa.Value(phi)]
			var bound aff
			switch {
			case dir == 1 && lHas && cl == 1 && !rHas:
				bound = R
			case dir == -1 && rHas && cr == 1 && !lHas:
				bound = L
			default:
				continue
			}
			// the bound must not move away: either its atoms are defined
			// outside the loop, or it has a finite limit
			inv := true
			for x := range bound.t {
				var v ssa.Value
				switch k := x.(type) {
				case lenKey:
					v = k.v
				case ssa.Value:
					v = k
				case symKey:
					continue
				}
				if insn, ok := v.(ssa.Instruction); ok && li.body[insn.Block()] {
					// a value re-read in the loop is still invariant if it is a
					// load of an address nothing in the loop stores to
					if ld, isLoad := v.(*ssa.UnOp); isLoad && ld.Op == token.MUL && !storedInLoop(li, sx(ld.X)) {
						continue
					}
					inv = false
				}
			}
			br := bf.rangeOfAff(bound)
			finite := (dir == 1 && br.hi < posInfI/2) || (dir == -1 && br.lo > negInfI/2)
			if !inv && !finite {
				continue
			}
			// no wrap before the bound is passed
			if tr.hi < posInfI {
				slack := int64(0)
				if strict {
					slack = 1 // while i < B the largest value in the body is B-1
				}
				if dir == 1 && br.hi+stepHi-slack > tr.hi {
					// this exit test does not bound the counter below its type's
					// maximum; another exit test may (remember why, keep looking)
					wrapWhy = fmt.Sprintf("counter %s of type %s can wrap before exceeding its bound (bound up to %d, step up to %d)", phi.Comment, phi.Type(), br.hi, stepHi)
					continue
				}
				if dir == -1 && tr.lo == 0 && br.lo < 0 {
					continue
				}
			}
			return "counter", ""
		}
	}
	// T3: shrinking slice
	for _, ins := range H.Instrs {
		phi, ok := ins.(*ssa.Phi)
		if !ok {
			break
		}
		if _, isSlice := phi.Type().Underlying().(*types.Slice); !isSlice {
			continue
		}
		shrinks := true
		for i, e := range phi.Edges {
			if !li.body[H.Preds[i]] {
				continue
			}
			if bf.B.strictSuffixCall(e, phi) {
				continue
			}
			sl, ok := e.(*ssa.Slice)
			if !ok || sl.X != ssa.Value(phi) || sl.Low == nil {
				shrinks = false
				break
			}
			if bf.rangeOfAff(bf.affOf(sl.Low)).lo < 1 {
				shrinks = false
				break
			}
		}
		if !shrinks {
			continue
		}
		for _, ex := range exits {
			if strings.Contains(sx(ex.cond), "len("+sx(phi)+")") && dominatesLatches(ex.blk) {
				return "shrinking slice", ""
			}
		}
	}
	// T4: reader-driven: a call that consumes input runs on every iteration
	// and the loop is left when that call reports an error / end of input
	exitsOn := func(call ssa.Value) bool {
		key := sx(call)
		for _, ex := range exits {
			if strings.Contains(sx(ex.cond), key) {
				return true
			}
		}
		// returns inside the loop guarded by the call's result
		for b := range li.body {
			ifi, ok := b.Instrs[len(b.Instrs)-1].(*ssa.If)
			if !ok || !strings.Contains(sx(ifi.Cond), key) {
				continue
			}
			for _, s := range b.Succs {
				if leadsOut(s, li) {
					return true
				}
			}
		}
		return false
	}
	for b := range li.body {
		if !dominatesLatches(b) {
			continue
		}
		for _, ins := range b.Instrs {
			if ci, ok := ins.(*ssa.Call); ok {
				n := calleeName(ci) + "("
				for _, c := range consumingCalls {
					if strings.Contains(n, c) && exitsOn(ci) {
						if why := givesBackInput(li); why != "" {
							wrapWhy = why
							continue
						}
						return "reader-driven (every iteration consumes input and the loop ends when the read fails)", ""
					}
				}
				// a library helper that moves a cursor field forward inside a
				// buffer field of the struct it is given, and fails at its end
				if obj, cur, ok := bf.B.consumingHelper(ci); ok && exitsOn(ci) && !cursorMovedBack(li, obj, cur, bf.B) {
					return "reader-driven (the helper advances a cursor field bounded by the length of its buffer field; the loop ends when it fails)", ""
				}
			}
		}
	}
	return "", wrapWhy
}

func negCmp(op token.Token) token.Token {
	switch op {
	case token.LSS:
		return token.GEQ
	case token.LEQ:
		return token.GTR
	case token.GTR:
		return token.LEQ
	case token.GEQ:
		return token.LSS
	case token.EQL:
		return token.NEQ
	case token.NEQ:
		return token.EQL
	}
	return op
}

type loopResult struct {
	fn        *ssa.Function
	construct string
	pattern   string
	why       string
	pos       token.Pos
}

func (B *Bounds) checkLoops() []loopResult {
	var out []loopResult
	reach := B.reachable()
	for _, fn := range B.libScope() {
		if !reach[fn] {
			continue
		}
		bf := B.of(fn)
		for i, li := range findLoopsSSA(fn) {
			pat, why := bf.classifyLoop(li)
			pos := token.NoPos
			for _, ins := range li.header.Instrs {
				if ins.Pos().IsValid() {
					pos = ins.Pos()
					break
				}
			}
			if !pos.IsValid() {
				for b := range li.body {
					for _, ins := range b.Instrs {
						if ins.Pos().IsValid() && (!pos.IsValid() || ins.Pos() < pos) {
							pos = ins.Pos()
						}
					}
				}
			}
			var vars []string
			for _, ins := range li.header.Instrs {
				if phi, ok := ins.(*ssa.Phi); ok {
					vars = append(vars, shortType(phi.Type())) // types, not names: a rename must not change the key
				}
			}
			out = append(out, loopResult{fn, fmt.Sprintf("loop #%d over (%s)", i+1, strings.Join(vars, ",")), pat, why, pos})
		}
	}
	return out
}

func storedInLoop(li *loopInfo, addrKey string) bool {
	for b := range li.body {
		for _, ins := range b.Instrs {
			if st, ok := ins.(*ssa.Store); ok && sx(st.Addr) == addrKey {
				return true
			}
			if ci, ok := ins.(ssa.CallInstruction); ok {
				if _, isB := ci.Common().Value.(*ssa.Builtin); !isB {
					// a call could store to a captured variable
					if strings.HasPrefix(addrKey, "$$") {
						return true
					}
				}
			}
		}
	}
	return false
}

// incrementOf: v = phi + d on every path; returns the range of d. Looks
// through merge points inside the loop body.
func (bf *boundsFn) incrementOf(v ssa.Value, phi *ssa.Phi, depth int) (ival, bool) {
	if depth > 6 {
		return ival{}, false
	}
	ea := bf.affOf(v)
	if c, has := ea.t[ssa.Value(phi)]; has && c == 1 {
		d := ea.add(affAtom(ssa.Value(phi)), -1)
		ins, _ := v.(ssa.Instruction)
		if ins != nil && ins.Block() != nil {
			return bf.rangeInBlock(d, ins.Block()), true
		}
		return bf.rangeOfAff(d), true
	}
	if inner, ok := v.(*ssa.Phi); ok && inner != phi {
		lo, hi := int64(posInfI), int64(negInfI)
		for _, e := range inner.Edges {
			r, ok := bf.incrementOf(e, phi, depth+1)
			if !ok {
				return ival{}, false
			}
			if r.lo < lo {
				lo = r.lo
			}
			if r.hi > hi {
				hi = r.hi
			}
		}
		return ival{lo, hi}, true
	}
	return ival{}, false
}

// leadsOut: every path from b leaves the loop without returning to the header.
func leadsOut(b *ssa.BasicBlock, li *loopInfo) bool {
	seen := map[*ssa.BasicBlock]bool{}
	var dfs func(x *ssa.BasicBlock) bool
	dfs = func(x *ssa.BasicBlock) bool {
		if !li.body[x] {
			return true
		}
		if x == li.header || seen[x] {
			return false
		}
		seen[x] = true
		if len(x.Succs) == 0 {
			return true
		}
		for _, s := range x.Succs {
			if !dfs(s) {
				return false
			}
		}
		return true
	}
	return dfs(b)
}

// strictSuffixCall: e is (a result of) a call f(…, of, …) to a write-free
// internal function every return of which gives, at that result position,
// nil or param[lo:] with lo ≥ 1 — a value strictly shorter than a non-empty
// argument.
func (B *Bounds) strictSuffixCall(e ssa.Value, of ssa.Value) bool {
	idx := 0
	var call *ssa.Call
	switch x := e.(type) {
	case *ssa.Extract:
		call, _ = x.Tuple.(*ssa.Call)
		idx = x.Index
	case *ssa.Call:
		call = x
	}
	if call == nil {
		return false
	}
	callee := call.Call.StaticCallee()
	if callee == nil || callee.Blocks == nil || call.Call.IsInvoke() || !B.writeFree(callee) {
		return false
	}
	pi := -1
	for i, a := range call.Call.Args {
		if a == of {
			if pi >= 0 {
				return false
			}
			pi = i
		}
	}
	if pi < 0 || pi >= len(callee.Params) {
		return false
	}
	cf := B.of(callee)
	n := 0
	for _, b := range callee.Blocks {
		ret, ok := b.Instrs[len(b.Instrs)-1].(*ssa.Return)
		if !ok {
			continue
		}
		if idx >= len(ret.Results) {
			return false
		}
		n++
		switch r := ret.Results[idx].(type) {
		case *ssa.Const:
			if r.Value != nil {
				return false
			}
		case *ssa.Slice:
			if r.X != ssa.Value(callee.Params[pi]) || r.Low == nil || !cf.prove(cf.affOf(r.Low).add(affConst(1), -1), b) {
				return false
			}
		default:
			return false
		}
	}
	return n > 0
}

// consumingHelper: call is a static call g(…, p, …) with p a pointer to a
// library struct that has a cursor field F (int) and a buffer field G (slice)
// such that every return of g that may be a success has passed a store
// p.F = v with  v ≥ old p.F + 1  and  old p.F < len(p.G)  provable at the
// store, and g never assigns p.G. Each successful call therefore moves the
// cursor forward inside a buffer of fixed length: only finitely many calls can
// succeed. Returns the argument that is the struct pointer.
func (B *Bounds) consumingHelper(call *ssa.Call) (ssa.Value, nilField, bool) {
	if call.Call.IsInvoke() {
		return nil, nilField{}, false
	}
	g := call.Call.StaticCallee()
	if g == nil || g.Blocks == nil {
		return nil, nilField{}, false
	}
	cf := B.of(g)
	for k, p := range g.Params {
		if k >= len(call.Call.Args) {
			break
		}
		pt, ok := p.Type().Underlying().(*types.Pointer)
		if !ok {
			continue
		}
		if _, ok := pt.Elem().Underlying().(*types.Struct); !ok {
			continue
		}
		// loads of the fields of p
		var loadsF = map[int][]*ssa.UnOp{}
		var stores []*ssa.Store
		for _, b := range g.Blocks {
			for _, ins := range b.Instrs {
				switch x := ins.(type) {
				case *ssa.UnOp:
					if x.Op == token.MUL {
						if base, nf, ok := fieldOf(x.X); ok && base == ssa.Value(p) {
							loadsF[nf.F] = append(loadsF[nf.F], x)
						}
					}
				case *ssa.Store:
					if base, _, ok := fieldOf(x.Addr); ok && base == ssa.Value(p) {
						stores = append(stores, x)
					}
				}
			}
		}
		good := map[ssa.Instruction]bool{}
		var cursor nilField
		found := false
		for _, st := range stores {
			_, nf, _ := fieldOf(st.Addr)
			ft := nf.T.Underlying().(*types.Struct).Field(nf.F).Type()
			if !isIntType(ft) {
				if _, isSlice := ft.Underlying().(*types.Slice); isSlice {
					good = nil // the buffer itself is replaced
				}
				continue
			}
			if found && nf.F != cursor.F {
				continue
			}
			val := cf.affOf(st.Val)
			for _, old := range loadsF[nf.F] {
				if !old.Block().Dominates(st.Block()) {
					continue
				}
				oa := cf.affOf(old)
				if !cf.proveAt(val.add(oa, -1).add(affConst(1), -1), st.Block(), st) {
					continue
				}
				for gi, gl := range loadsF {
					st2 := nf.T.Underlying().(*types.Struct).Field(gi).Type()
					if _, isSlice := st2.Underlying().(*types.Slice); !isSlice {
						continue
					}
					for _, lg := range gl {
						if cf.proveAt(cf.lenAff(lg).add(oa, -1).add(affConst(1), -1), st.Block(), st) && good != nil {
							good[st] = true
							cursor, found = nf, true
						}
					}
				}
			}
		}
		if good == nil || !found {
			continue
		}
		// every possible success return has passed a qualifying store
		passed := map[*ssa.BasicBlock]bool{}
		in := map[*ssa.BasicBlock]bool{}
		for _, b := range g.Blocks {
			in[b], passed[b] = true, true
		}
		in[g.Blocks[0]] = false
		for changed := true; changed; {
			changed = false
			for _, b := range g.Blocks {
				s := in[b]
				if b != g.Blocks[0] {
					s = true
					for _, pr := range b.Preds {
						s = s && passed[pr]
					}
				}
				o := s
				for _, ins := range b.Instrs {
					if good[ins] {
						o = true
					}
				}
				if s != in[b] || o != passed[b] {
					in[b], passed[b] = s, o
					changed = true
				}
			}
		}
		all, successes := true, 0
		for _, b := range g.Blocks {
			r, ok := b.Instrs[len(b.Instrs)-1].(*ssa.Return)
			if !ok {
				continue
			}
			if n := len(r.Results); n > 0 && isErrorType(r.Results[n-1].Type()) && errorReturn(r.Results[n-1], b) {
				continue
			}
			successes++
			if !passed[b] {
				all = false
			}
		}
		if all && successes > 0 {
			return call.Call.Args[k], cursor, true
		}
	}
	return nil, nilField{}, false
}

// cursorMovedBack: something in the loop other than consuming helpers and
// write-free callees may assign the cursor field of obj.
func cursorMovedBack(li *loopInfo, obj ssa.Value, cur nilField, B *Bounds) bool {
	for b := range li.body {
		for _, ins := range b.Instrs {
			switch x := ins.(type) {
			case *ssa.Store:
				if _, nf, ok := fieldOf(x.Addr); ok && nf.F == cur.F && types.Identical(nf.T, cur.T) {
					return true
				}
			case *ssa.Call:
				uses := false
				for _, a := range x.Call.Args {
					if a == obj {
						uses = true
					}
				}
				if !uses {
					continue
				}
				if _, _, ok := B.consumingHelper(x); ok {
					continue
				}
				if callee := x.Call.StaticCallee(); callee != nil && callee.Blocks != nil && B.writeFree(callee) {
					continue
				}
				return true
			}
		}
	}
	return false
}

// givesBackInput: the reader-driven argument (“every iteration consumes
// input”) is void when the loop also hands input back (UnreadByte, UnreadRune,
// Seek, Reset). In that case every path from the loop head to a back edge must
// consume more than it gives back; returns a description of a path that does
// not, "" when all do (or nothing is given back).
func givesBackInput(li *loopInfo) string {
	back := func(name string) bool {
		return strings.HasSuffix(name, ".UnreadByte") || strings.HasSuffix(name, ".UnreadRune") || strings.HasSuffix(name, ".Seek") || strings.HasSuffix(name, ".Reset")
	}
	takes := func(name string) bool {
		for _, c := range []string{"io.ReadFull", "io.ReadAtLeast", ".ReadByte", ".ReadRune", ".Next"} {
			if strings.HasSuffix(name, c) {
				return true
			}
		}
		return strings.HasSuffix(name, ".Read")
	}
	any := false
	for b := range li.body {
		for _, ins := range b.Instrs {
			if ci, ok := ins.(ssa.CallInstruction); ok && back(calleeName(ci)) {
				any = true
			}
		}
	}
	if !any {
		return ""
	}
	isLatch := map[*ssa.BasicBlock]bool{}
	for _, l := range li.latch {
		isLatch[l] = true
	}
	bad := ""
	paths := 0
	var walk func(b *ssa.BasicBlock, net int, onPath map[*ssa.BasicBlock]bool, trail []int)
	walk = func(b *ssa.BasicBlock, net int, onPath map[*ssa.BasicBlock]bool, trail []int) {
		if bad != "" || paths > 4096 {
			return
		}
		onPath[b] = true
		defer delete(onPath, b)
		trail = append(trail, b.Index)
		for _, ins := range b.Instrs {
			if ci, ok := ins.(ssa.CallInstruction); ok {
				switch n := calleeName(ci); {
				case back(n):
					net--
				case takes(n):
					net++
				}
			}
		}
		if isLatch[b] {
			paths++
			if net < 1 {
				bad = fmt.Sprintf("the path through blocks %v back to the loop head gives back as much input as it takes", trail)
			}
			// a latch may also have successors inside the body; fall through
		}
		for _, s := range b.Succs {
			if s == li.header || !li.body[s] || onPath[s] {
				continue
			}
			walk(s, net, onPath, trail)
		}
	}
	walk(li.header, 0, map[*ssa.BasicBlock]bool{}, nil)
	if paths > 4096 {
		return "too many paths to check that every iteration makes progress"
	}
	return bad
}
