package main

import (
	"fmt"
	"go/types"
	"strings"
)

// accRun is one abstract run of (*accumulator).WritePacket from a fixed state
// with a fixed payload_unit_start_indicator and everything else symbolic.
type accRun struct {
	s       *Summary
	in      *Interp
	a, pkt  *Obj
	calls   []Event // opaque calls in program order
	stateIx int
	pktsIx  int
}

func (c *Checker) accAnalyze(state int, pusi bool) *accRun {
	const anchor = "packet:(*accumulator).WritePacket"
	stIdx, _, err1 := c.P.structFieldIndex("packet", "accumulator", "state")
	pkIdx, _, err2 := c.P.structFieldIndex("packet", "accumulator", "packets")
	if err1 != nil || err2 != nil {
		c.undecided("C17.automaton", anchor, "anchor", fmt.Sprint(err1, err2))
		return nil
	}
	r := &accRun{stateIx: stIdx, pktsIx: pkIdx}
	s, _ := c.summary("C17.automaton", anchor, &AnalyzeOpts{Setup: func(in *Interp) { r.in = in }, Pre: func(in *Interp, st *State, ps []Val) {
		a := ps[0].(*Ptr).Obj
		p := ps[1].(*Ptr).Obj
		in.setCell(st, a, fmt.Sprint(stIdx), constInt(int64(state), 64, true))
		b1 := &BV{W: 8, Bits: append([]Bit(nil), cellBV(p.Name, 1).Bits...)}
		b1.Bits[6] = bconst(pusi)
		in.setCell(st, p, "1", b1)
	}})
	if s == nil {
		return nil
	}
	r.s = s
	r.a, r.pkt = paramObj(s, 0), paramObj(s, 1)
	for _, e := range s.Events {
		if e.Kind == "call" {
			r.calls = append(r.calls, e)
		}
	}
	return r
}

func (r *accRun) callsNamed(sub string) []Event {
	var out []Event
	for _, e := range r.calls {
		if strings.Contains(e.Note, sub) {
			out = append(out, e)
		}
	}
	return out
}

func (r *accRun) finalState() Val { return r.s.Cell(r.a, fmt.Sprint(r.stateIx), types.Typ[types.Int]) }

func (r *accRun) touchesAccumulator() []string {
	var w []string
	for _, x := range r.s.WrittenCells() {
		if strings.HasPrefix(x, r.a.Name+"[") && !strings.Contains(x, "^") {
			w = append(w, x)
		}
	}
	return w
}

func runC17(c *Checker) {
	c.Level = "other"
	c.explain = "WritePacket is interpreted from each of its three states with payload_unit_start_indicator fixed and everything else symbolic (bytes.Buffer methods and the completion predicate are opaque calls whose order, conditions and arguments are recorded). Decides the automaton (transitions, refusals without effects, restart = Reset + truncate, Done only on the predicate's true), what is accumulated (exactly one Write of the current packet's payload slice per accepted packet, skipped on the payload error; predicate called once afterwards with buf.Bytes(); its error returned unchanged), and the copies (packet appended is a fresh allocation equal to the argument, argument untouched, Bytes()/Packets() return fresh slices, Reset restores the initial state). Does not decide: the concatenation equality over whole histories (induction over the step facts, argued)."
	c.trust("go/ssa + go/types (x/tools v0.29.0)", "E1 transfer functions", "bytes.Buffer contract: Reset empties, Write appends, Bytes returns the contents")
	const anchor = "packet:(*accumulator).WritePacket"
	starting, accumulating, done, err := accStates(c.P)
	if err != nil {
		c.undecided("C17.automaton", anchor, "state constants", err.Error())
		return
	}
	errName := func(v Val) string {
		var names []string
		for _, lf := range muxLeaves(v) {
			names = append(names, showVal(lf))
		}
		return strings.Join(names, "|")
	}
	// ---- refusals
	if r := c.accAnalyze(starting, false); r != nil {
		ok := len(r.calls) == 0 && len(r.s.WrittenCells()) == 0
		c.check("C17.automaton", anchor, "Starting, no PUSI: refused with no effect on buffer, packet list, state or the packet", ok, fmt.Sprintf("calls=%d writes=%v", len(r.calls), r.s.WrittenCells()))
		c.check("C17.automaton", anchor, "Starting, no PUSI: returns the no-PUSI error", errName(r.s.RetN(1)) == "gots.ErrNoPayloadUnitStartIndicator", errName(r.s.RetN(1)))
	}
	if r := c.accAnalyze(done, true); r != nil {
		r2 := c.accAnalyze(done, false)
		ok := len(r.calls) == 0 && len(r.s.WrittenCells()) == 0 && r2 != nil && len(r2.calls) == 0 && len(r2.s.WrittenCells()) == 0
		c.check("C17.automaton", anchor, "Done: every packet refused with no effect", ok, fmt.Sprintf("calls=%d writes=%v", len(r.calls), r.s.WrittenCells()))
		c.check("C17.automaton", anchor, "Done: returns the accumulator-done error", errName(r.s.RetN(1)) == "gots.ErrAccumulatorDone" && r2 != nil && errName(r2.s.RetN(1)) == "gots.ErrAccumulatorDone", errName(r.s.RetN(1)))
	}
	// ---- accepted packets
	for _, cse := range []struct {
		name    string
		state   int
		pusi    bool
		restart bool
	}{
		{"Starting+PUSI", starting, true, true},
		{"Accumulating+PUSI (restart)", accumulating, true, true},
		{"Accumulating, no PUSI", accumulating, false, false},
	} {
		r := c.accAnalyze(cse.state, cse.pusi)
		if r == nil {
			continue
		}
		con := cse.name + ": "
		resets := r.callsNamed("(*bytes.Buffer).Reset")
		if cse.restart {
			c.check("C17.automaton", anchor, con+"buffer Reset exactly once, unconditionally (what came before is discarded)", len(resets) == 1 && isConst(resets[0].Cond) && resets[0].Cond.c, fmt.Sprintf("%d Reset calls", len(resets)))
		} else {
			c.check("C17.automaton", anchor, con+"buffer is not reset", len(resets) == 0, fmt.Sprintf("%d Reset calls", len(resets)))
		}
		// packet list
		pl, _ := r.s.Cell(r.a, fmt.Sprint(r.pktsIx), types.NewSlice(types.NewPointer(byteT))).(*SliceV)
		okList, dList := false, "packet list is "+showVal(r.s.Cell(r.a, fmt.Sprint(r.pktsIx), types.NewSlice(types.NewPointer(byteT))))
		var appended *Ptr
		for _, e := range r.s.Events {
			if e.Kind != "append" || len(e.Args) != 2 {
				continue
			}
			base, _ := e.Args[0].(*SliceV)
			if base == nil || !strings.HasPrefix(base.Obj.Name, r.a.Name+".") {
				continue
			}
			baseLen, isC := base.Len.ConstInt()
			truncated := isC && baseLen == 0
			whole := sameBV(base.Len, base.Obj.Len)
			if (cse.restart && truncated) || (!cse.restart && whole) {
				if el, ok := e.Args[1].(*SliceV); ok {
					if k, ok := el.Len.ConstInt(); ok && k == 1 {
						if lo, ok := el.Lo.ConstInt(); ok {
							appended, _ = r.s.in.loadPath(r.s.Out, el.Obj, joinPath(el.Prefix, int(lo)), types.NewPointer(byteT)).(*Ptr)
						}
					}
				}
				okList = pl != nil
			}
		}
		want := "the existing list"
		if cse.restart {
			want = "the list truncated to length 0"
		}
		c.check("C17.copies", anchor, con+"packet list becomes "+want+" plus one new element", okList, dList)
		if appended == nil || appended.Obj.Kind != "alloc" {
			c.check("C17.copies", anchor, con+"appended element is a fresh packet", false, "appended "+showVal(appended))
		} else {
			same := true
			for i := 0; i < 188 && same; i++ {
				got, _ := r.s.Cell(appended.Obj, fmt.Sprint(i), byteT).(*BV)
				exp := r.s.in.loadPath(r.s.Init, r.pkt, fmt.Sprint(i), byteT).(*BV)
				same = got != nil && sameBV(got, exp)
			}
			c.check("C17.copies", anchor, con+"appended element is a fresh packet equal to the argument", same, "contents differ")
		}
		var wp []string
		for _, x := range r.s.WrittenCells() {
			if strings.HasPrefix(x, r.pkt.Name+"[") {
				wp = append(wp, x)
			}
		}
		c.check("C17.copies", anchor, con+"the packet given is not modified", len(wp) == 0, fmt.Sprint(wp))
		// Write
		writes := r.callsNamed("(*bytes.Buffer).Write")
		payFlag := fieldBits(r.pkt.Name, tsHeader["PAY"])[0]
		okW, dW := len(writes) == 1, fmt.Sprintf("%d Write calls", len(writes))
		if okW {
			w := writes[0]
			arg, _ := w.Args[len(w.Args)-1].(*SliceV)
			if arg == nil {
				if sv, ok := w.Args[len(w.Args)-1].(*StructV); ok {
					_ = sv
				}
			}
			switch {
			case arg == nil || arg.Obj != r.pkt:
				okW, dW = false, "Write argument is "+showVal(w.Args[len(w.Args)-1])+", not the current packet's payload"
			default:
				// offset must be the payload start 4 + [AF](1+b4)
				af := fieldBits(r.pkt.Name, tsHeader["AF"])[0]
				start := bvMux(af, bvAdd(constInt(5, 64, true), extendBV(cellBV(r.pkt.Name, 4), 64, true), false), constInt(4, 64, true))
				if !sameBV(arg.Lo, start) {
					okW, dW = false, "Write argument starts at "+arg.Lo.String()+", expected payload start "+start.String()
				}
			}
			if okW {
				// written exactly when the payload accessor succeeds
				eq, dec, _ := equivBits(w.Cond, band(payFlag, w.Cond), 12)
				if !(eq && dec) {
					okW, dW = false, "Write happens without the payload flag: "+w.Cond.String()
				}
			}
		}
		c.check("C17.accumulate", anchor, con+"exactly one buffer Write, of the current packet's payload, only when the packet has payload", okW, dW)
		// predicate
		preds := r.callsNamed("dynamic")
		bytesCalls := r.callsNamed("(*bytes.Buffer).Bytes")
		okP, dP := len(preds) == 1 && len(bytesCalls) == 1 && len(writes) == 1, fmt.Sprintf("%d predicate calls, %d Bytes calls", len(preds), len(bytesCalls))
		if okP {
			iw, ip := -1, -1
			for i, e := range r.calls {
				if strings.Contains(e.Note, "(*bytes.Buffer).Write") {
					iw = i
				}
				if e.Note == "dynamic" {
					ip = i
				}
			}
			if !(iw >= 0 && ip > iw) {
				okP, dP = false, "predicate is not called after the Write"
			} else if a0, ok := preds[0].Args[0].(*OpaqueV); !ok || !strings.Contains(a0.Why, "(*bytes.Buffer).Bytes") {
				okP, dP = false, "predicate argument is "+showVal(preds[0].Args[0])+", not buf.Bytes()"
			}
		}
		c.check("C17.accumulate", anchor, con+"completion predicate called exactly once, after the Write, on buf.Bytes()", okP, dP)
		// final state: Done only under the predicate's true result
		fs, _ := r.finalState().(*BV)
		okS, dS := fs != nil, "state is "+showVal(r.finalState())
		if okS {
			isDone := bvEq(fs, constInt(int64(done), 64, true))
			isAcc := bvEq(fs, constInt(int64(accumulating), 64, true))
			eq1, dec1, _ := equivBits(bor(isDone, isAcc), U.B1, 14)
			// Done implies the predicate was reached (its call condition)
			var pc Bit = U.B0
			if len(preds) == 1 {
				pc = preds[0].Cond
			}
			eq2, dec2, _ := equivBits(band(isDone, bnot(pc)), U.B0, 14)
			doneDependsOnPredicate := !isConst(isDone)
			okS = eq1 && dec1 && eq2 && dec2 && doneDependsOnPredicate
			dS = "final state " + fs.String()
		}
		c.check("C17.automaton", anchor, con+"next state is Accumulating, or Done only after the predicate ran and answered true", okS, dS)
		// error plumbing: predicate error returned unchanged; done → ErrAccumulatorDone
		leaves := map[string]bool{}
		for _, lf := range muxLeaves(r.s.RetN(1)) {
			leaves[showVal(lf)] = true
		}
		hasPredErr := false
		for k := range leaves {
			if strings.Contains(k, "dynamic") {
				hasPredErr = true
			}
		}
		c.check("C17.accumulate", anchor, con+"possible results: nil, payload error, Write error, the predicate's own error, accumulator-done", hasPredErr && leaves["gots.ErrAccumulatorDone"] && leaves["nil"] && leaves["gots.ErrNoPayload"], fmt.Sprint(leaves))
	}
	c.checkAccAccessors(starting)
}

// accStates resolves the three state constants by name.
func accStates(P *Program) (int, int, int, error) {
	tp := P.TPkg[modPath+"/packet"]
	get := func(n string) (int, error) {
		k, ok := tp.Types.Scope().Lookup(n).(*types.Const)
		if !ok {
			return 0, fmt.Errorf("constant %s not found", n)
		}
		var v int
		fmt.Sscan(k.Val().ExactString(), &v)
		return v, nil
	}
	a, e1 := get("stateStarting")
	b, e2 := get("stateAccumulating")
	d, e3 := get("stateDone")
	for _, e := range []error{e1, e2, e3} {
		if e != nil {
			return 0, 0, 0, e
		}
	}
	return a, b, d, nil
}

func (c *Checker) checkAccAccessors(starting int) {
	stIdx, _, _ := c.P.structFieldIndex("packet", "accumulator", "state")
	pkIdx, _, _ := c.P.structFieldIndex("packet", "accumulator", "packets")
	if s, _ := c.summary("C17.copies", "packet:(*accumulator).Bytes", nil); s != nil {
		rs, ok := s.RetN(0).(*SliceV)
		c.check("C17.copies", "packet:(*accumulator).Bytes", "returns a freshly allocated slice (independent copy)", ok && rs.Obj.Kind == "make", showVal(s.RetN(0)))
		okCopy := false
		for _, e := range s.Events {
			if e.Kind == "copy" && len(e.Args) == 2 {
				if d, ok := e.Args[0].(*SliceV); ok && rs != nil && d.Obj == rs.Obj {
					if src, ok := e.Args[1].(*OpaqueV); ok && strings.Contains(src.Why, "(*bytes.Buffer).Bytes") {
						okCopy = true
					}
				}
			}
		}
		c.check("C17.copies", "packet:(*accumulator).Bytes", "filled by copying buf.Bytes()", okCopy, "no copy(result, buf.Bytes())")
	}
	if s, _ := c.summary("C17.copies", "packet:(*accumulator).Packets", nil); s != nil {
		rs, ok := s.RetN(0).(*SliceV)
		c.check("C17.copies", "packet:(*accumulator).Packets", "returns a freshly allocated slice", ok && rs.Obj.Kind == "make", showVal(s.RetN(0)))
		okCopy := false
		for _, e := range s.Events {
			if e.Kind == "copy" && len(e.Args) == 2 {
				d, ok1 := e.Args[0].(*SliceV)
				src, ok2 := e.Args[1].(*SliceV)
				if ok1 && ok2 && rs != nil && d.Obj == rs.Obj && strings.HasPrefix(src.Obj.Name, paramName(s, 0)+".") && sameBV(src.Len, src.Obj.Len) && sameBV(d.Len, src.Len) {
					okCopy = true
				}
			}
		}
		c.check("C17.copies", "packet:(*accumulator).Packets", "of the same length, filled by copying the packet list", okCopy, "no copy(result, a.packets) of full length")
	}
	if s, _ := c.summary("C17.automaton", "packet:(*accumulator).Reset", nil); s != nil {
		a := paramObj(s, 0)
		st, _ := s.Cell(a, fmt.Sprint(stIdx), types.Typ[types.Int]).(*BV)
		k, ok := int64(-1), false
		if st != nil {
			k, ok = st.ConstInt()
		}
		c.check("C17.automaton", "packet:(*accumulator).Reset", "state becomes Starting", ok && int(k) == starting, showVal(s.Cell(a, fmt.Sprint(stIdx), types.Typ[types.Int])))
		nReset := 0
		for _, e := range s.Events {
			if e.Kind == "call" && strings.Contains(e.Note, "(*bytes.Buffer).Reset") {
				nReset++
			}
		}
		c.check("C17.automaton", "packet:(*accumulator).Reset", "buffer emptied", nReset == 1, fmt.Sprintf("%d Reset calls", nReset))
		pl, _ := s.Cell(a, fmt.Sprint(pkIdx), types.NewSlice(types.NewPointer(byteT))).(*SliceV)
		l, okl := int64(-1), false
		if pl != nil {
			l, okl = pl.Len.ConstInt()
		}
		c.check("C17.automaton", "packet:(*accumulator).Reset", "packet list emptied", okl && l == 0, showVal(s.Cell(a, fmt.Sprint(pkIdx), types.NewSlice(types.NewPointer(byteT)))))
	}
}
