#!/bin/bash
# usage: run.sh <property id> [quick|thorough]
# Rebuilds the checker if needed and analyses /repo's current working tree.
set -u
HERE="$(cd "$(dirname "$0")" && pwd)"
export GOFLAGS=-mod=mod GOPROXY=off GOSUMDB=off GOTOOLCHAIN=local GOWORK=off
unset GOPATH_OVERRIDE 2>/dev/null
PROP="${1:?property id}"
TIER="${2:-${VERIF_TIER:-quick}}"
REPO="${VERIF_REPO:-/repo}"
mkdir -p "$HERE/bin" "$HERE/evidence"
( cd "$HERE/checker" && go build -o "$HERE/bin/gotsverif" . ) || { echo "checker build failed"; exit 2; }
exec "$HERE/bin/gotsverif" -repo "$REPO" -prop "$PROP" -tier "$TIER" -evidence "$HERE/evidence/$PROP.json"
