// Triage tooling (NOT part of any registered check): drives the public gots
// API with truncated / corrupted inputs, recovers panics and prints, per panic
// site in gots (file:line), the API call and a hex input that reaches it.
// Used only to confirm that a site the static bounds check reports is a
// genuine defect before it is listed in known_findings.json.
package main

import (
	"bufio"
	"bytes"
	"encoding/base64"
	"encoding/hex"
	"fmt"
	"math/rand"
	"os"
	"reflect"
	"runtime"
	"sort"
	"strings"
	"time"

	"github.com/Comcast/gots/v2/ebp"
	"github.com/Comcast/gots/v2/packet"
	"github.com/Comcast/gots/v2/packet/adaptationfield"
	"github.com/Comcast/gots/v2/pes"
	"github.com/Comcast/gots/v2/psi"
	"github.com/Comcast/gots/v2/scte35"
)

type hit struct{ api, input, msg string }

var hits = map[string]hit{}
var hangs = map[string]hit{}

func site() string {
	pcs := make([]uintptr, 40)
	n := runtime.Callers(3, pcs)
	fr := runtime.CallersFrames(pcs[:n])
	for {
		f, more := fr.Next()
		if strings.Contains(f.File, "/repo/") && !strings.Contains(f.Function, "main.") {
			return fmt.Sprintf("%s:%d", strings.TrimPrefix(f.File, "/repo/"), f.Line)
		}
		if !more {
			break
		}
	}
	return "?"
}

var skip = map[string]bool{}

func try(api string, input []byte, f func()) {
	for k := range skip {
		if strings.HasPrefix(api, k) {
			return
		}
	}
	done := make(chan bool, 1)
	go func() {
		defer func() {
			if r := recover(); r != nil {
				s := site()
				if _, ok := hits[s]; !ok || len(input) < len(hits[s].input)/2 {
					hits[s] = hit{api, hex.EncodeToString(input), fmt.Sprint(r)}
				}
			}
			done <- true
		}()
		f()
	}()
	select {
	case <-done:
	case <-time.After(1 * time.Second):
		// the goroutine cannot be stopped and may allocate without bound:
		// report and leave at once; rerun with HANGSKIP to get past it
		hangs[api] = hit{api, hex.EncodeToString(input), "no return within 1s"}
		report()
		os.Exit(3)
	}
}

// callAll invokes every niladic method (and String) of v.
func callAll(api string, input []byte, v interface{}) {
	if v == nil {
		return
	}
	rv := reflect.ValueOf(v)
	if rv.Kind() == reflect.Ptr && rv.IsNil() {
		return
	}
	t := rv.Type()
	for i := 0; i < t.NumMethod(); i++ {
		m := t.Method(i)
		if m.Type.NumIn() != 1 || strings.HasPrefix(m.Name, "Set") || m.Name == "Reset" {
			continue
		}
		name := m.Name
		try(api+"."+name+"()", input, func() {
			outs := rv.Method(i).Call(nil)
			for _, o := range outs {
				if o.Kind() == reflect.Slice && o.Len() > 0 && o.Len() < 8 {
					for k := 0; k < o.Len(); k++ {
						e := o.Index(k)
						if e.Kind() == reflect.Interface || e.Kind() == reflect.Ptr {
							if !e.IsNil() && e.CanInterface() {
								callAll(api+"."+name+"()[i]", input, e.Interface())
							}
						}
					}
				}
			}
		})
	}
}

func mutate(r *rand.Rand, seed []byte) []byte {
	b := append([]byte(nil), seed...)
	switch r.Intn(6) {
	case 0:
		if len(b) > 0 {
			b = b[:r.Intn(len(b))]
		}
	case 1:
		if len(b) > 0 {
			b[r.Intn(len(b))] = byte(r.Intn(256))
		}
	case 2:
		if len(b) > 0 {
			b[r.Intn(len(b))] = 0xFF
		}
	case 3:
		n := r.Intn(3) + 1
		for i := 0; i < n && len(b) > 0; i++ {
			b[r.Intn(len(b))] ^= 1 << uint(r.Intn(8))
		}
	case 4:
		b = append(b, make([]byte, r.Intn(300))...)
		for i := range b[len(seed):] {
			b[len(seed)+i] = 0xFF
		}
	case 5:
		if len(b) > 2 {
			i := r.Intn(len(b))
			b = append(b[:i], b[i+1:]...)
		}
	}
	return b
}

func mustB64(s string) []byte { b, _ := base64.StdEncoding.DecodeString(s); return b }

func main() {
	for _, k := range strings.Split(os.Getenv("HANGSKIP"), ",") {
		if k != "" {
			skip[k] = true
		}
	}
	defer report()
	r := rand.New(rand.NewSource(1))
	iters := 20000
	scteSeeds := [][]byte{
		mustB64("APwwLwAAz6l5ggD///8FYgAgAn/v/1jt40T+AHuYoAM1AAAACgAIQ1VFSQA4MjFRxjDp"),
		mustB64("APwwNQAAAAAAAAD/8AEAACQCIkNVRUnAAAAAf78BEzU5MzkwMjY1NjUxNzc3OTIxNjMBAQHrr2Ob"),
		mustB64("APwwPgAAEH2lcP//8AUG/iuc2acAKAIcQ1VFSUgAAEd/zwAA+Hm0CAgAAAAAJrAlpjQCAAAIQ1VFSQAAAAAOP8i1"),
	}
	// built signals: splice insert with components, descriptors with MID and components
	func() {
		defer func() { recover() }()
		s := scte35.CreateSCTE35()
		cmd := scte35.CreateSpliceInsertCommand()
		cmd.SetIsProgramSplice(false)
		cmd.SetHasDuration(true)
		s.SetCommandInfo(cmd)
		d := scte35.CreateSegmentationDescriptor()
		d.SetHasProgramSegmentation(false)
		co := scte35.CreateComponentOffset()
		d.SetComponents([]scte35.ComponentOffset{co, co})
		d.SetHasDuration(true)
		d.SetUPIDType(scte35.SegUPIDMID)
		u := scte35.CreateUPID()
		u.SetUPID([]byte("abc"))
		d.SetMID([]scte35.UPID{u, u})
		d.SetTypeID(0x34)
		s.SetDescriptors([]scte35.SegmentationDescriptor{d})
		scteSeeds = append(scteSeeds, append([]byte{0}, s.UpdateData()...))
	}()
	pmtSeed, _ := hex.DecodeString("0002b02d0001cb0000e065f0060504435545491be065f0050e030004b00fe066f0060a04656e670086e06ef0008b99d3a5")
	patSeed, _ := hex.DecodeString("0000b00d0001c100000001e0641f0bb1d8")
	pesSeed, _ := hex.DecodeString("000001e0000084c00a3100050bd5110005bf21000000")
	ebpSeeds := [][]byte{
		{0xdf, 0x12, 0x45, 0x42, 0x50, 0x30, 0x98, 0x80, 0xa3, 0xfe, 0x9d, 0x05, 0xe6, 0xa1, 0x45, 0x18, 0xb8, 0x51, 0x00, 0x00},
		{0xa9, 0x0e, 0xbd, 0x80, 0x01, 0x1d, 0xe6, 0xa1, 0x45, 0x18, 0xb8, 0x51, 0x00, 0x00, 0x00, 0x00},
	}
	big := bytes.Repeat([]byte{0xFF}, 300)
	big[0], big[1] = 0xdf, 0xff
	ebpSeeds = append(ebpSeeds, big)

	directed()
	for it := 0; it < iters; it++ {
		// ---- byte-string parsers
		for _, sd := range scteSeeds {
			in := mutate(r, sd)
			try("scte35.NewSCTE35", in, func() {
				s, err := scte35.NewSCTE35(in)
				if err == nil {
					callAll("scte35.NewSCTE35(..)", in, s)
					for _, d := range s.Descriptors() {
						callAll("SCTE35.Descriptors()[i]", in, d)
					}
					if ci := s.CommandInfo(); ci != nil {
						callAll("SCTE35.CommandInfo()", in, ci)
					}
				}
			})
		}
		{
			in := mutate(r, pmtSeed)
			try("psi.NewPMT", in, func() {
				p, err := psi.NewPMT(in)
				if err == nil {
					callAll("psi.NewPMT(..)", in, p)
					for _, es := range p.ElementaryStreams() {
						callAll("PMT.ElementaryStreams()[i]", in, es)
						for _, d := range es.Descriptors() {
							callAll("PmtElementaryStream.Descriptors()[i]", in, d)
							try("PmtDescriptor.DecodeDolbyVisionCodec", in, func() { d.DecodeDolbyVisionCodec("x") })
						}
					}
				}
			})
			try("psi.PmtAccumulatorDoneFunc", in, func() { psi.PmtAccumulatorDoneFunc(in) })
			try("psi.ExtractCRC", in, func() { psi.ExtractCRC(in) })
			try("psi.TableID", in, func() { psi.TableID(in) })
			try("psi.PointerField", in, func() { psi.PointerField(in) })
			try("psi.SectionSyntaxIndicator", in, func() { psi.SectionSyntaxIndicator(in) })
			try("psi.PrivateIndicator", in, func() { psi.PrivateIndicator(in) })
			try("psi.SectionLength", in, func() { psi.SectionLength(in) })
			try("psi.TableHeaderFromBytes", in, func() { psi.TableHeaderFromBytes(in) })
			try("scte35.SCTE35AccumulatorDoneFunc", in, func() { scte35.SCTE35AccumulatorDoneFunc(in) })
			// as packets
			pkt := packet.New()
			pkt.SetPID(0x64)
			pkt.SetPayloadUnitStartIndicator(true)
			pkt.SetPayload(in)
			pk2 := *pkt
			try("psi.FilterPMTPacketsToPids", in, func() { psi.FilterPMTPacketsToPids([]*packet.Packet{&pk2}, []int{0x65, 0x66}) })
			try("psi.ReadPMT", in, func() { psi.ReadPMT(bytes.NewReader(pk2[:]), 0x64) })
		}
		{
			in := mutate(r, patSeed)
			try("psi.NewPAT", in, func() {
				p, err := psi.NewPAT(in)
				if err == nil {
					callAll("psi.NewPAT(..)", in, p)
				}
			})
		}
		{
			in := mutate(r, pesSeed)
			try("pes.NewPESHeader", in, func() {
				h, err := pes.NewPESHeader(in)
				if err == nil {
					callAll("pes.NewPESHeader(..)", in, h)
				}
			})
			try("pes.ExtractTime", in, func() { pes.ExtractTime(in) })
		}
		for _, sd := range ebpSeeds {
			in := mutate(r, sd)
			try("ebp.ReadEncoderBoundaryPoint", in, func() {
				e, err := ebp.ReadEncoderBoundaryPoint(in)
				if err == nil {
					callAll("ebp.ReadEncoderBoundaryPoint(..)", in, e)
				}
			})
		}
		// ---- descriptors of every tag with short bodies
		if it < 256*8 {
			tag, n := uint8(it%256), it/256
			body := bytes.Repeat([]byte{0xFF}, n)
			if n > 0 {
				body[0] = byte(r.Intn(256))
			}
			d := psi.NewPmtDescriptor(tag, body)
			callAll(fmt.Sprintf("psi.NewPmtDescriptor(%#x, %d bytes)", tag, n), body, d)
			try("PmtDescriptor.DecodeDolbyVisionCodec", body, func() { d.DecodeDolbyVisionCodec("x") })
		}
		// ---- packets with corrupt adaptation fields
		{
			var p packet.Packet
			for i := range p {
				p[i] = byte(r.Intn(256))
			}
			p[0] = 0x47
			if r.Intn(2) == 0 {
				p[3] |= 0x20
			}
			switch r.Intn(5) {
			case 0:
				p[4] = 0
			case 1:
				p[4] = 1
			case 2:
				p[4] = 183
			case 3:
				p[4] = 255
			}
			if r.Intn(3) == 0 {
				p[5] = 0xFF
			}
			in := append([]byte(nil), p[:]...)
			pk := func() *packet.Packet { q := p; return &q }
			try("packet.Payload", in, func() { packet.Payload(pk()) })
			try("packet.Header", in, func() { packet.Header(pk()) })
			try("packet.PESHeader", in, func() { packet.PESHeader(pk()) })
			try("pes.AlignedPUSI", in, func() { pes.AlignedPUSI(pk()) })
			try("(*Packet).Payload", in, func() { pk().Payload() })
			try("(*Packet).SetPayload", in, func() { pk().SetPayload(in[:r.Intn(200)]) })
			try("(*Packet).SetAdaptationFieldControl", in, func() { pk().SetAdaptationFieldControl(packet.AdaptationFieldControlOptions(r.Intn(4))) })
			try("(*Packet).CheckErrors", in, func() { pk().CheckErrors() })
			try("(*Packet).SetAdaptationField", in, func() {
				q := pk()
				af, _ := packet.New().AdaptationField()
				o := pk()
				if a2, err := o.AdaptationField(); err == nil {
					af = a2
				}
				if af != nil {
					q.SetAdaptationField(af)
				}
			})
			for _, f := range []struct {
				n string
				f func(*packet.Packet)
			}{
				{"adaptationfield.Length", func(q *packet.Packet) { adaptationfield.Length(q) }},
				{"adaptationfield.IsDiscontinuous", func(q *packet.Packet) { adaptationfield.IsDiscontinuous(q) }},
				{"adaptationfield.HasPCR", func(q *packet.Packet) { adaptationfield.HasPCR(q) }},
				{"adaptationfield.EncoderBoundaryPoint", func(q *packet.Packet) { adaptationfield.EncoderBoundaryPoint(q) }},
				{"adaptationfield.PCR", func(q *packet.Packet) { adaptationfield.PCR(q) }},
				{"adaptationfield.OPCR", func(q *packet.Packet) { adaptationfield.OPCR(q) }},
				{"adaptationfield.SpliceCountdown", func(q *packet.Packet) { adaptationfield.SpliceCountdown(q) }},
				{"adaptationfield.TransportPrivateData", func(q *packet.Packet) { adaptationfield.TransportPrivateData(q) }},
			} {
				try(f.n, in, func() { f.f(pk()) })
			}
			if af, err := pk().AdaptationField(); err == nil {
				callAll("(*Packet).AdaptationField()", in, af)
				data := in[:r.Intn(190)]
				for _, f := range []struct {
					n string
					f func(a *packet.AdaptationField)
				}{
					{"SetHasPCR(true)", func(a *packet.AdaptationField) { a.SetHasPCR(true) }},
					{"SetHasPCR(false)", func(a *packet.AdaptationField) { a.SetHasPCR(false) }},
					{"SetPCR", func(a *packet.AdaptationField) { a.SetPCR(12345) }},
					{"SetHasOPCR(true)", func(a *packet.AdaptationField) { a.SetHasOPCR(true) }},
					{"SetHasOPCR(false)", func(a *packet.AdaptationField) { a.SetHasOPCR(false) }},
					{"SetOPCR", func(a *packet.AdaptationField) { a.SetOPCR(12345) }},
					{"SetHasSplicingPoint(true)", func(a *packet.AdaptationField) { a.SetHasSplicingPoint(true) }},
					{"SetHasSplicingPoint(false)", func(a *packet.AdaptationField) { a.SetHasSplicingPoint(false) }},
					{"SetSpliceCountdown", func(a *packet.AdaptationField) { a.SetSpliceCountdown(3) }},
					{"SetHasTransportPrivateData(true)", func(a *packet.AdaptationField) { a.SetHasTransportPrivateData(true) }},
					{"SetHasTransportPrivateData(false)", func(a *packet.AdaptationField) { a.SetHasTransportPrivateData(false) }},
					{"SetTransportPrivateData", func(a *packet.AdaptationField) { a.SetTransportPrivateData(data) }},
					{"SetHasAdaptationFieldExtension(true)", func(a *packet.AdaptationField) { a.SetHasAdaptationFieldExtension(true) }},
					{"SetHasAdaptationFieldExtension(false)", func(a *packet.AdaptationField) { a.SetHasAdaptationFieldExtension(false) }},
					{"SetAdaptationFieldExtension", func(a *packet.AdaptationField) { a.SetAdaptationFieldExtension(data) }},
					{"SetDiscontinuity", func(a *packet.AdaptationField) { a.SetDiscontinuity(true) }},
				} {
					try("(*AdaptationField)."+f.n, in, func() {
						q := pk()
						a, _ := q.AdaptationField()
						if a != nil {
							f.f(a)
						}
					})
				}
			}
			// sync / readers on raw streams
			stream := append(in[:r.Intn(188)], in...)
			try("packet.Sync", stream, func() { packet.Sync(bufio.NewReader(bytes.NewReader(stream))) })
			try("psi.ReadPAT", stream, func() { psi.ReadPAT(bytes.NewReader(stream)) })
		}
	}
}

func report() {
	var keys []string
	for k := range hits {
		keys = append(keys, k)
	}
	sort.Strings(keys)
	for _, k := range keys {
		h := hits[k]
		in := h.input
		if len(in) > 120 {
			in = in[:120] + "…"
		}
		fmt.Printf("PANIC %s\t%s\t%s\t%s\n", k, h.api, h.msg, in)
	}
	for _, h := range hangs {
		in := h.input
		if len(in) > 120 {
			in = in[:120] + "…"
		}
		fmt.Printf("HANG %s\t%s\t%s\n", h.api, h.msg, in)
	}
	fmt.Fprintf(os.Stderr, "%d panic sites, %d hangs\n", len(hits), len(hangs))
}

// directed witnesses for sites the random driver does not reach
func directed() {
	h := func(s string) []byte { b, _ := hex.DecodeString(s); return b }
	pktOf := func(payload []byte) *packet.Packet {
		p := packet.New()
		p.SetPID(0x64)
		p.SetPayloadUnitStartIndicator(true)
		p.SetPayload(payload)
		return p
	}
	in := h("0002b00a000000000000")
	try("psi.ExtractCRC", in, func() { psi.ExtractCRC(in) })
	in2 := h("00030000")
	try("psi.FilterPMTPacketsToPids(pids=[0x64])", in2, func() { psi.FilterPMTPacketsToPids([]*packet.Packet{pktOf(in2)}, []int{0x64}) })
	in2b := append(append([]byte{0x3c}, bytes.Repeat([]byte{0xff}, 60)...), 0x03)
	try("psi.FilterPMTPacketsToPids(pids=[0x64])", in2b, func() { psi.FilterPMTPacketsToPids([]*packet.Packet{pktOf(in2b)}, []int{0x64}) })
	in3 := h("0002b00d0001c10000e100ffff11223344")
	try("psi.FilterPMTPacketsToPids(pids=[0x64])", in3, func() { psi.FilterPMTPacketsToPids([]*packet.Packet{pktOf(in3)}, []int{0x64}) })
	d1 := []byte{0x08}
	try("psi.NewPmtDescriptor(0xe9,[08]).IsIFrameProfile()", d1, func() { psi.NewPmtDescriptor(0xe9, d1).IsIFrameProfile() })
	d2 := []byte{0x40, 0x00}
	try("psi.NewPmtDescriptor(0xcc,[40 00]).IsDolbyATMOS()", d2, func() { psi.NewPmtDescriptor(0xcc, d2).IsDolbyATMOS() })
}
