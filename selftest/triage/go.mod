module triage
go 1.18
require github.com/Comcast/gots/v2 v2.0.0
replace github.com/Comcast/gots/v2 => /repo
