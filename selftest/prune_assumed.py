#!/usr/bin/env python3
# Removes assumed_safe.json entries that the checks report as no longer needed
# ("NOTE: assumed-safe entry not needed"). Run by hand after the engine improved.
import json, subprocess, re
out = ""
for p in ("C05", "C10"):
    out += subprocess.run(["/verif/run.sh", p, "quick"], capture_output=True, text=True).stdout
gone = set(re.findall(r"NOTE: assumed-safe entry not needed \(site proved or gone\): (.*)", out))
d = json.load(open("/verif/assumed_safe.json"))
keep = [e for e in d["assumed_safe"] if f"{e['rule']} / {e['function']} / {e['construct']}" not in gone]
print("removed", len(d["assumed_safe"]) - len(keep), "of", len(d["assumed_safe"]))
d["assumed_safe"] = keep
json.dump(d, open("/verif/assumed_safe.json", "w"), indent=1, ensure_ascii=False)
