#!/bin/bash
# usage: seed_recheck.sh [name-regex]
# Re-runs every claimed check against each stored seeded change (applied to
# /repo and undone straight afterwards) and refreshes meta.json; a seed whose
# earlier meta said "missed" keeps that in its history.
set -u
export GOFLAGS=-mod=mod GOPROXY=off GOSUMDB=off GOTOOLCHAIN=local GOWORK=off
RE="${1:-.}"
( cd /verif/checker && go build -o /verif/bin/gotsverif . ) || exit 2
PROPS=$(python3 -c "import json;print(' '.join(c['property_id'] for c in json.load(open('/verif/MANIFEST.json'))['checks']))")
for D in /verif/seeded/*/; do
  NAME=$(basename $D); echo "$NAME" | grep -Eq "$RE" || continue
  [ -n "$(git -C /repo status --porcelain)" ] && { echo "/repo not clean"; exit 2; }
  git -C /repo apply $D/patch.diff || { echo "SEED $NAME: patch does not apply"; continue; }
  # the twenty checks only read /repo: run them side by side
  fired=$(for P in $PROPS; do echo $P; done | xargs -P 10 -I{} sh -c '/verif/bin/gotsverif -repo /repo -prop {} -tier quick -evidence /tmp/seed_ev_{}.json >/dev/null 2>&1 || echo {}' | sort | tr '\n' ' ')
  rm -f /tmp/seed_ev_*.json
  git -C /repo checkout -- .
  python3 - "$D/meta.json" "$fired" <<'PY'
import json,sys
p,fired=sys.argv[1],sys.argv[2].split()
m=json.load(open(p))
was=m.get("caught_by_target_check")
now=m["breaks_property"] in fired
if was is False and now:
    m.setdefault("history",[]).append("initially missed by the target check; caught after the checker was strengthened")
m["checks_that_fired"]=fired; m["caught_by_target_check"]=now
json.dump(m,open(p,"w"),indent=1)
print("SEED",m["seed"],m["breaks_property"],"caught" if now else "MISSED","fired=",fired)
PY
done
rm -f /tmp/seed_ev.json
