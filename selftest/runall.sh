#!/bin/bash
# Runs every mutant of selftest/mutants.txt (props @@ file @@ sed-expr [@@ expect]) in parallel.
# usage: runall.sh [filter-regex]
cd "$(dirname "$0")"
F="${1:-.}"
grep -v '^#' mutants.txt | grep -v '^$' | grep -E "$F" | \
  xargs -d '\n' -P 12 -I{} python3 -c '
import subprocess,sys
parts=[x.strip() for x in sys.argv[1].split(" @@ ")]
p,f,e=parts[0],parts[1],parts[2]
x=parts[3] if len(parts)>3 else "fire"
sys.exit(subprocess.call(["./mut.sh",p,f,e,x]))' {} | sort
