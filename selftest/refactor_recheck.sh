#!/bin/bash
# usage: refactor_recheck.sh [name-regex]
# Re-runs every claimed check against each stored behaviour-preserving
# refactoring, each applied to its own scratch copy of /repo (removed straight
# afterwards; /repo itself is not touched), three probes side by side, and
# refreshes refactors/<name>/meta.json. Every check is expected to stay silent.
set -u
export GOFLAGS=-mod=mod GOPROXY=off GOSUMDB=off GOTOOLCHAIN=local GOWORK=off VERIF_DIR=/verif
RE="${1:-.}"
one() {
  NAME="$1"; D=/verif/refactors/$NAME; W=$(mktemp -d /tmp/gotsrf.XXXXXX)
  git -C /repo archive HEAD | tar -x -C "$W" # the committed tree: a seed evaluation may be patching the working tree
  if ! ( cd "$W" && patch -s -p1 < "$D/patch.diff" ) >/dev/null 2>&1; then echo "REFACTOR $NAME: patch does not apply to the current tree"; rm -rf "$W"; return; fi
  if ! ( cd "$W" && go build ./... ) >/dev/null 2>&1; then echo "REFACTOR $NAME: does not compile"; rm -rf "$W"; return; fi
  fired=$(python3 -c "import json;print('\n'.join(c['property_id'] for c in json.load(open('/verif/MANIFEST.json'))['checks']))" | xargs -P 5 -I{} sh -c "/verif/bin/gotsverif -repo $W -prop {} -tier quick -evidence $W/ev_{}.json >/dev/null 2>&1 || echo {}" | sort | tr '\n' ' ')
  rm -rf "$W"
  python3 - "$NAME" "$fired" <<'PY'
import json,sys
name,fired=sys.argv[1],sys.argv[2].split()
json.dump({"refactoring":name,"expected":"every check silent (behaviour preserved)","checks_that_fired":fired},open(f"/verif/refactors/{name}/meta.json","w"),indent=1)
PY
  echo "REFACTOR $NAME: fired=[$fired]"
}
export -f one
ls /verif/refactors | grep -E "$RE" | xargs -P 3 -I{} bash -c 'one {}'
