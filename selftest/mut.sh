#!/bin/bash
# usage: mut.sh <prop[,prop..]> <file> <sed-expr> [expect: fire|silent]
# Applies one edit to a scratch copy of /repo, checks it still compiles, runs
# the named checks against the copy and reports whether they fired.
set -u
export GOFLAGS=-mod=mod GOPROXY=off GOSUMDB=off GOTOOLCHAIN=local GOWORK=off
PROPS="$1"; FILE="$2"; EXPR="$3"; EXPECT="${4:-fire}"
D=$(mktemp -d /tmp/gotsmut.XXXXXX)
trap 'rm -rf "$D"' EXIT
rsync -a --exclude .git /repo/ "$D/"
before=$(md5sum "$D/$FILE" | cut -d' ' -f1)
sed -i -E "$EXPR" "$D/$FILE"
after=$(md5sum "$D/$FILE" | cut -d' ' -f1)
if [ "$before" = "$after" ]; then echo "MUT-NOOP $FILE $EXPR"; exit 3; fi
( cd "$D" && go build ./... ) >/dev/null 2>&1 || { echo "MUT-NOCOMPILE $FILE $EXPR"; exit 3; }
rc=0
for P in ${PROPS//,/ }; do
  out=$("/verif/bin/gotsverif" -repo "$D" -prop "$P" -tier quick -evidence "$D/ev.json" 2>&1); r=$?
  if [ $r -ne 0 ]; then fired=fire; else fired=silent; fi
  if [ "$fired" = "$EXPECT" ]; then echo "OK   $P $fired :: $FILE :: $EXPR"; else echo "MISS $P $fired (expected $EXPECT) :: $FILE :: $EXPR"; rc=1; fi
  if [ -n "${VERBOSE:-}" ]; then echo "$out" | grep -E "VIOLATED|UNDECIDED" -A1 | cut -c1-300 | head -8; fi
done
exit $rc
