#!/bin/bash
# usage: seed_eval.sh <worktree> <seed-name> <property> "<what it needs to manifest>"
# Confirms a seeded change (compiles, suite passes, demo fails with it and passes
# without it), stores it under /verif/seeded/<seed-name>/ and runs every claimed
# check against /repo with the change applied (undone straight afterwards).
set -u
export GOFLAGS=-mod=mod GOPROXY=off GOSUMDB=off GOTOOLCHAIN=local GOWORK=off
WT="$1"; NAME="$2"; PROP="$3"; NEEDS="${4:-}"
cd "$WT" || exit 2
DEMOS=$(git status --porcelain | awk '$1=="??" && $2 ~ /_test\.go$/ {print $2}')
[ -z "$DEMOS" ] && { echo "no demo test file"; exit 2; }
git diff > /tmp/seed_$NAME.diff
[ -s /tmp/seed_$NAME.diff ] || { echo "no source change"; exit 2; }
go build ./... || { echo "SEED-REJECT: does not compile"; exit 1; }
mkdir -p /tmp/seed_demo_$NAME; for d in $DEMOS; do mkdir -p /tmp/seed_demo_$NAME/$(dirname $d); mv $d /tmp/seed_demo_$NAME/$d; done
suite=$(go test -vet=off -count=1 ./... 2>&1); rs=$?
for d in $DEMOS; do mv /tmp/seed_demo_$NAME/$d $d; done
[ $rs -eq 0 ] || { echo "SEED-REJECT: existing suite fails with the change"; echo "$suite" | tail -5; exit 1; }
pkgs=$(for d in $DEMOS; do echo ./$(dirname $d); done | sort -u)
go test -vet=off -count=1 $pkgs >/tmp/seed_with_$NAME.log 2>&1; rw=$?
git stash -q
go test -vet=off -count=1 $pkgs >/tmp/seed_without_$NAME.log 2>&1; ro=$?
git stash pop -q
[ $rw -ne 0 ] || { echo "SEED-REJECT: demo passes with the change"; exit 1; }
[ $ro -eq 0 ] || { echo "SEED-REJECT: demo fails without the change"; tail -5 /tmp/seed_without_$NAME.log; exit 1; }
D=/verif/seeded/$NAME; mkdir -p $D
cp /tmp/seed_$NAME.diff $D/patch.diff
for d in $DEMOS; do cp $d $D/$(basename $d).txt; done
[ -f SEED_NOTES.md ] && cp SEED_NOTES.md $D/NOTES.md
# run the checks against /repo with the patch applied
cd /repo && git apply $D/patch.diff || { echo "patch does not apply to /repo"; exit 2; }
# the twenty checks only read /repo: run them side by side
fired=$(python3 -c "import json;print('\n'.join(c['property_id'] for c in json.load(open('/verif/MANIFEST.json'))['checks']))" | xargs -P 10 -I{} sh -c '/verif/bin/gotsverif -repo /repo -prop {} -tier quick -evidence /tmp/seed_ev_{}.json >/tmp/seed_out_{}.txt 2>&1 || echo {}' | sort | tr '\n' ' ')
[ -f /tmp/seed_out_$PROP.txt ] && grep -E "VIOLATED|UNDECIDED" -A1 /tmp/seed_out_$PROP.txt | cut -c1-300 | head -6
rm -f /tmp/seed_ev_*.json /tmp/seed_out_*.txt
git -C /repo checkout -- .
python3 - "$NAME" "$PROP" "$NEEDS" "$fired" "$DEMOS" <<'PY'
import json,sys
name,prop,needs,fired,demos=sys.argv[1:6]
json.dump({"seed":name,"breaks_property":prop,"needs_to_manifest":needs,"demo_files":demos.split(),
 "confirmed":["go build ./... ok","existing suite passes with the change","demo fails with the change","demo passes without the change"],
 "checks_that_fired":fired.split(),"caught_by_target_check":prop in fired.split()},open(f"/verif/seeded/{name}/meta.json","w"),indent=1)
PY
echo "SEED $NAME ($PROP): fired=[$fired ]"
