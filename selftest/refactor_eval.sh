#!/bin/bash
# usage: refactor_eval.sh <diff> <name>
# Applies a behaviour-preserving refactoring to /repo (undone straight
# afterwards), confirms the suite passes, runs every claimed check and stores
# the diff with the outcome under /verif/refactors/<name>/. Every check is
# expected to stay silent; a check that fires is a false alarm to investigate.
set -u
export GOFLAGS=-mod=mod GOPROXY=off GOSUMDB=off GOTOOLCHAIN=local GOWORK=off
DIFF="$1"; NAME="$2"
[ -n "$(git -C /repo status --porcelain)" ] && { echo "/repo not clean"; exit 2; }
git -C /repo apply "$DIFF" || { echo "REFACTOR $NAME: patch does not apply"; exit 2; }
( cd /repo && go build ./... && go test -vet=off -count=1 ./... >/tmp/refactor_suite.log 2>&1 ) || { echo "REFACTOR $NAME: suite fails"; git -C /repo checkout -- .; exit 1; }
# the twenty checks only read /repo: run them side by side
fired=$(python3 -c "import json;print('\n'.join(c['property_id'] for c in json.load(open('/verif/MANIFEST.json'))['checks']))" | xargs -P 10 -I{} sh -c '/verif/bin/gotsverif -repo /repo -prop {} -tier quick -evidence /tmp/refactor_ev_{}.json >/tmp/refactor_out_{}.txt 2>&1 || echo {}' | sort | tr '\n' ' ')
for P in $fired; do grep -E "VIOLATED|UNDECIDED" -A1 /tmp/refactor_out_$P.txt | cut -c1-260 | head -8; done
rm -f /tmp/refactor_ev_*.json /tmp/refactor_out_*.txt
git -C /repo checkout -- .
D=/verif/refactors/$NAME; mkdir -p $D; cp "$DIFF" $D/patch.diff
python3 - "$NAME" "$fired" <<'PY'
import json,sys
name,fired=sys.argv[1],sys.argv[2].split()
json.dump({"refactoring":name,"expected":"every check silent (behaviour preserved)","checks_that_fired":fired},open(f"/verif/refactors/{name}/meta.json","w"),indent=1)
PY
echo "REFACTOR $NAME: fired=[$fired ]"
