#!/usr/bin/env python3
"""Regenerates MANIFEST.json from the table below (kept in one place so the
manifest stays valid while checks are added)."""
import json, os
HERE = os.path.dirname(os.path.abspath(__file__))
CHECKS = json.load(open(os.path.join(HERE, "checks.json")))
props = [json.loads(l) for l in open(os.path.join(HERE, "properties.jsonl"))]
ids = [p["id"] for p in props]
checks, na = [], []
for pid in ids:
    c = CHECKS.get(pid)
    if c and c.get("claimed"):
        checks.append({
            "property_id": pid,
            "quick_cmd": f"./run.sh {pid} quick",
            "thorough_cmd": f"./run.sh {pid} thorough",
            "evidence_file": f"/verif/evidence/{pid}.json",
            "replay_cmd_template": "cat {path}",
            "engine": "gotsverif",
            "level_claimed": {"category": c["level"], "text": c["text"], "design_ref": c.get("design_ref", "DESIGN.md §3 " + pid)},
            "level_note": c["note"],
            "technique": c["technique"],
        })
    else:
        na.append({"property_id": pid, "reason": (c or {}).get("reason", "static check not built yet in this tree; see DESIGN.md §3 for the planned structural clauses")})
m = {
    "version": 1,
    "setup_cmd": "cd /verif/checker && GOFLAGS=-mod=mod GOPROXY=off GOSUMDB=off GOTOOLCHAIN=local GOWORK=off go build -o /verif/bin/gotsverif .",
    "hooks": {"guard": "verif", "enable": "none: the analysis reads /repo's sources; no hook is compiled into gots", "baseline_off_cmd": "cd /repo && go test -vet=off -count=1 ./...", "source_commits": [], "add_only": True},
    "engines": [{"name": "gotsverif", "path": "/verif/checker", "serves_properties": [c["property_id"] for c in checks],
                 "kind_free_text": "purpose-built static analyser over go/ssa (x/tools v0.29.0): bit-provenance abstract interpretation, affine terms, truth-table comparison of residual formulas, effect/interval/path rules"}],
    "checks": checks,
    "not_applicable": na,
    "notes": "Static analysis only: no registered command executes gots code. See DESIGN.md.",
}
json.dump(m, open(os.path.join(HERE, "MANIFEST.json"), "w"), indent=1)
print(len(checks), "checks,", len(na), "not applicable")
